"""C20  Shared broker state is safe under concurrent use.

(M) the sequential specifications are the modules already model-checked elsewhere (IdPool,
    AckQueue, TopicStore, a registry map); here MC_IdPool and MC_AckQueue are re-run.
(T1) object level, under the Go race detector: concurrent histories (4-8 goroutines) on the
    identifier pool, the in-flight table, the local registry, both topic-keyed stores, call/return
    bracketed by one global sequence; TLC decides with Lin.tla whether each history is
    linearizable with respect to its sequential specification.  The replicated maps get concurrent
    writers on two nodes with gossip and full-state pushes running, and must list the same once
    everything has been exchanged; the expiration list must fire every inserted timeout once.
(T2) whole broker, under the race detector (in-memory message logs): sessions connect with re-used
    client ids, subscribe, publish at QoS 0/1/2, acknowledge, ping, disconnect or drop concurrently
    on two nodes while gossip, full-state exchanges and sweeps run; StressTrace.tla checks the
    post-stress obligations.
A data race whose racing access is in the repository's code is a violation; races entirely inside
third-party modules are listed in the evidence and do not gate.
"""
import json
import os
import re
import subprocess

import vlib
from checks import racelib


def races(stderr):
    """-> list of dicts {top: [frame0 of each access], repo: bool, text}"""
    out = []
    for blk in re.split(r"={10,}", stderr):
        if "WARNING: DATA RACE" not in blk:
            continue
        tops = []
        for sec in re.split(r"\n(?=(?:Previous )?(?:[Rr]ead|[Ww]rite|[Aa]tomic) )", blk):
            m = re.search(r"by (?:main )?goroutine[^\n]*:\n\s+(\S+)\n\s+(\S+):(\d+)", sec)
            if m:
                tops.append((m.group(1), m.group(2), int(m.group(3))))
        inrepo = any(f[1].startswith(vlib.REPO + "/") for f in tops)
        out.append({"top": tops, "repo": inrepo, "text": blk.strip()[:3000]})
    return out


def repo_panic(stderr):
    """-> the repository function at the top of the panicking goroutine's stack, or None if the panic is not the repository's."""
    i = stderr.find("panic:")
    if i < 0:
        return None
    j = stderr.find("goroutine ", i)
    if j < 0:
        return None
    block = stderr[j:].split("\n\n")[0]
    for ln in block.splitlines():
        ln = ln.strip()
        if ln.startswith(("runtime.", "panic(", "goroutine ", "sync.", "sort.", "internal/", "created by")) or ln.startswith("/") or not ln:
            continue
        if ln.startswith("github.com/vx-labs/wasp/v4/"):
            return ln.split("(")[0].split("/")[-1]
        return None          # the first real frame is harness or third-party code
    return None


def repo_fatal(stderr):
    """-> the repository function on the stack of the goroutine the runtime stopped at with 'concurrent map ...' (an unsynchronised map of the
    repository's, whoever iterates it on its behalf), or None."""
    m = re.search(r"fatal error: concurrent map [a-z ]+", stderr)
    if not m:
        return None
    j = stderr.find("goroutine ", m.end())
    if j < 0:
        return None
    for ln in stderr[j:].split("\n\n")[0].splitlines():
        ln = ln.strip()
        if ln.startswith(("verifharness/", "main.")):
            return None
        if ln.startswith("github.com/vx-labs/wasp/v4/"):
            return m.group(0)[13:] + ":" + ln.split("(")[0].split("/")[-1]
    return None


def store_histories(run, prop, v, n, parts=3, only="store"):
    """concurrent histories (writes, removals, lookups, dump-and-load snapshots) on the two topic-keyed stores, under the race detector,
    judged by Lin.tla; shared with C19.  -> dict for the evidence"""
    conc = run.gobuild("conc", race=True)
    env = dict(os.environ, GORACE="halt_on_error=0 history_size=3")
    hpath = os.path.join(run.scratch, only + "hist.ndjson")
    jobs = []
    for i in range(parts):
        e = dict(env, VERIF_SEED=str(run.seed * 100 + 50 + i))
        jobs.append(subprocess.Popen([conc, "-only", only, "-out", hpath + ".%d" % i, "-n", str(max(1, n // parts)), "-threads", str(4 + 2 * i), "-ops", str(6 + i)],
                                     stdout=subprocess.PIPE, stderr=subprocess.PIPE, text=True, env=e, cwd=run.scratch))
    nhist, rs = 0, []
    with open(hpath, "w") as out:
        for i, j in enumerate(jobs):
            so, se = j.communicate(timeout=1800)
            if j.returncode not in (0, 66):
                where = repo_fatal(se)
                if where is None:
                    raise vlib.Inconclusive("conc driver exited %d: %s" % (j.returncode, se[-2000:]))
                v.add("fatal:" + where, "concurrent use of a topic-keyed store stopped the process: %s" % se[se.find("fatal error:"):][:3000],
                      {"kind": "fatal", "report": se[se.find("fatal error:"):][:3000]})
                rs += races(se)
                continue
            rs += races(se)
            with open(hpath + ".%d" % i) as f:
                for ln in f:
                    h = json.loads(ln)
                    nhist += 1
                    h["n"] = nhist
                    out.write(json.dumps(h, separators=(",", ":")) + "\n")
    for r in rs:
        if r["repo"]:
            fns = sorted({t[0].split("/")[-1] for t in r["top"]})
            v.add("data-race:" + "+".join(fns), "data race in repository code: %s" % r["text"][:1500], {"kind": "datarace", "report": r["text"]})
    validated, rejected, tstates = vlib.validate_scenarios(run, "Lin", "Lin.cfg", hpath, marker='"kind":', chunk_events=60, timeout=1800, max_rejections=3)
    for rj in rejected:
        h = rj["scenario"][0]
        v.add("not-linearizable:%s" % h.get("kind"),
              "concurrent history on %s has no linearization that is a behaviour of its sequential specification: %s"
              % ("the %s store (writes, removals, lookups, dump + load into a fresh store)" % h.get("which") if only == "store" else "the identifier pool",
                 json.dumps(sorted(h["ops"], key=lambda o: o["call"]))[:2500]), {"kind": "history", "history": h})
    nsnap = sum(ln.count('"f":"snapshot"') for ln in open(hpath))
    run.log(only + " under concurrent use: %d histories (%d snapshots), %d rejected, %d race reports in repository code" % (nhist, nsnap, len(rejected), sum(1 for r in rs if r["repo"])))
    return {"histories": nhist, "snapshots": nsnap, "validated": validated, "rejections": len(rejected), "race_reports_in_repository_code": sum(1 for r in rs if r["repo"]),
            "trace_spec_states": tstates,
            "rule": "4-8 goroutines x 6-9 Get / Put on one small pool under the Go race detector; Lin.tla: linearizable as IdPool.tla (distinct identifiers, "
                    "in range, free again after Put, no panic)" if only == "pool" else
                    "4-8 goroutines x 6-8 operations (write with values of varying length, remove, exact lookup, snapshot = Dump + Load into a fresh store + "
                    "lookup of every key) on topics.Store and subscriptions.Tree over keys a, a/b, a/b/c, b, under the Go race detector; Lin.tla: the history "
                    "is linearizable as a map, a snapshot equals the map at one moment between its call and its return"}


def check(run):
    thorough = run.tier == "thorough"
    run.model_check("MC_IdPool", "MC_IdPool.cfg")
    if thorough:
        run.model_check("MC_AckQueue", "MC_AckQueue.cfg")
    conc = run.gobuild("conc", race=True)
    stress = run.gobuild("stress", race=True)
    env = dict(os.environ, VERIF_SEED=str(run.seed), GORACE="halt_on_error=0 history_size=3")
    v = vlib.Verdict(run)
    allraces = []
    # ---- object level
    hpath = os.path.join(run.scratch, "hist.ndjson")
    jobs = []
    nh = 40 if not thorough else 400
    parts = 4 if not thorough else 12
    for i in range(parts):
        e = dict(env, VERIF_SEED=str(run.seed * 100 + i))
        jobs.append(subprocess.Popen([conc, "-out", hpath + ".%d" % i, "-n", str(nh // parts), "-threads", str(4 + 2 * (i % 3)), "-ops", str(5 + i % 3)],
                                     stdout=subprocess.PIPE, stderr=subprocess.PIPE, text=True, env=e, cwd=run.scratch))
    # ---- whole broker
    sjobs = []
    nstress = 2 if not thorough else 6
    for i in range(nstress):
        e = dict(env, VERIF_SEED=str(run.seed * 100 + i))
        sjobs.append(subprocess.Popen([stress, "-out", os.path.join(run.scratch, "stress%d.ndjson" % i), "-dur", "4s" if not thorough else "30s",
                                       "-workers", str(8 + 4 * i)], stdout=subprocess.PIPE, stderr=subprocess.PIPE, text=True, env=e, cwd=run.scratch))
    nhist = 0
    with open(hpath, "w") as out:
        for i, j in enumerate(jobs):
            so, se = j.communicate(timeout=1800)
            if j.returncode not in (0, 66):
                where = repo_fatal(se)
                if where is None:
                    raise vlib.Inconclusive("conc driver exited %d: %s" % (j.returncode, se[-2000:]))
                # the Go runtime stopped the process: a map of the repository's was used by two goroutines at once
                v.add("fatal:" + where, "concurrent use of the repository's objects stopped the process: %s" % se[se.find("fatal error:"):][:3000],
                      {"kind": "fatal", "report": se[se.find("fatal error:"):][:3000]})
                allraces += races(se)
                continue
            allraces += races(se)
            k = 0
            with open(hpath + ".%d" % i) as f:
                for ln in f:
                    h = json.loads(ln)
                    nhist += 1
                    h["n"] = nhist
                    out.write(json.dumps(h, separators=(",", ":")) + "\n")
    stress_stats = []
    panics = []
    for i, j in enumerate(sjobs):
        so, se = j.communicate(timeout=1800)
        if j.returncode not in (0, 66):
            where = repo_panic(se)
            if where is None:
                raise vlib.Inconclusive("stress driver exited %d: %s" % (j.returncode, se[-2000:]))
            # the broker itself panicked under ordinary concurrent client load: the panicking goroutine runs repository code
            panics.append((where, se[se.find("panic:"):][:3000]))
            stress_stats.append({"panic": where})
            continue
        allraces += races(se)
        m = re.search(r"published=(\d+) acked=(\d+) connections=(\d+)", se)
        stress_stats.append(dict(zip(("published", "acked", "connections"), map(int, m.groups()))) if m else {})
    # ---- round 8: the set-up workers authenticate CONNECTs in parallel on ONE handler, and what it hands out becomes the session's
    # identifier: a storm of Authenticate calls under the race detector; AuthTrace.tla requires every outcome to be the table's and the
    # identifiers handed out to admitted clients to be pairwise different (two equal ones would be one session)
    adrv = run.gobuild("authdrv", race=True)
    users = ["alice", "bob", "carol", "dave", "erin"]
    table = [{"u": u, "p": "pw-" + u, "m": ("tenant-" + u[0]) if i % 2 else ""} for i, u in enumerate(users)]
    qs = [{"u": u, "p": "pw-" + u} for u in users] + [{"u": "alice", "p": "wrong"}, {"u": "mallory", "p": "x"}]
    ascn = [{"kind": "file", "table": table, "order": list(range(len(table))), "queries": qs, "storm": 16, "rounds": 60 if not thorough else 400},
            {"kind": "static", "table": [{"u": "admin", "p": "secret", "m": ""}], "order": [0],
             "queries": [{"u": "admin", "p": "secret"}, {"u": "admin", "p": "secret"}, {"u": "admin", "p": "wrong"}], "storm": 16, "rounds": 120 if not thorough else 800}]
    aspath = os.path.join(run.scratch, "auth-scn.ndjson")
    with open(aspath, "w") as f:
        for a in ascn:
            f.write(json.dumps(a) + "\n")
    atpath = os.path.join(run.scratch, "authstorm.ndjson")
    ap = subprocess.run([adrv, "-scenarios", aspath, "-out", atpath], stdout=subprocess.PIPE, stderr=subprocess.PIPE, text=True, env=env, cwd=run.scratch, timeout=1200)
    if ap.returncode not in (0, 66):
        raise vlib.Inconclusive("auth driver exited %d: %s" % (ap.returncode, ap.stderr[-2000:]))
    allraces += races(ap.stderr)
    aval, arej, ats = vlib.validate_scenarios(run, "AuthTrace", "AuthTrace.cfg", atpath, timeout=1200, max_rejections=2)
    for rj in arej:
        e = rj["scenario"][rj["line"] - 1]
        v.add("authstorm:" + ("identifiers-not-distinct" if e.get("op") == "ids" else "panic" if e.get("panic") else "wrong-outcome"),
              "concurrent Authenticate calls on one handler: %s is not what the credentials table implies / not pairwise different identifiers" % json.dumps(e),
              {"kind": "authstorm", "scenario": ascn, "event": e})
    run.log("authentication storm: %d scenarios validated, %d rejected" % (aval, len(arej)))
    run.log("%d concurrent histories, %d stress runs %s, %d race reports" % (nhist, nstress, stress_stats, len(allraces)))
    for where, text in panics:
        v.add("stress:broker-panic:" + where, "the broker panicked under concurrent client load: %s" % text, {"kind": "stress-panic", "report": text})
    # ---- verdicts: races
    third = []
    for r in allraces:
        if r["repo"]:
            fns = sorted({t[0].split("/")[-1] for t in r["top"]})
            v.add("data-race:" + "+".join(fns), "data race in repository code: %s" % r["text"][:1500], {"kind": "datarace", "report": r["text"]})
        else:
            third.append(sorted({t[0] for t in r["top"]}))
    # ---- verdicts: linearizability (TLC)
    validated, rejected, tstates = vlib.validate_scenarios(run, "Lin", "Lin.cfg", hpath, marker='"kind":', chunk_events=60, timeout=1800,
                                                           max_rejections=3)
    for rj in rejected:
        h = rj["scenario"][0]
        v.add("not-linearizable:%s" % h.get("kind"),
              "concurrent history on %s has no linearization that is a behaviour of its sequential specification: %s"
              % (h.get("kind"), json.dumps(sorted(h["ops"], key=lambda o: o["call"]))[:2500]), {"kind": "history", "history": h})
    # ---- verdicts: post-stress obligations (TLC)
    sval = 0
    for i in range(nstress):
        if "panic" in stress_stats[i]:
            continue          # the run ended in a broker panic (reported above): its trace is incomplete
        tp = os.path.join(run.scratch, "stress%d.ndjson" % i)
        ok, line, detail, _ = run.validate("StressTrace", "StressTrace.cfg", tp)
        if ok:
            sval += 1
        else:
            ev = vlib.load_events(tp)
            e = ev[line - 1] if 0 < line <= len(ev) else {}
            v.add("stress:%s" % e.get("op"), "post-stress obligation violated at %s" % json.dumps(e)[:1500], {"kind": "stress", "event": e})
    # a client that pipelines CONNECT with DISCONNECT / hangs up before its CONNACK, with the set-up parked at each of its steps: the
    # connection's goroutines must not lose or resurrect the registry entry between them (a deterministic form of that race)
    rn, rparked, rnev, rval, rrej, rts = racelib.check_family(
        run, "C20", v, keep=lambda s: any(o["op"] == "race" and o["a"]["op"] == "connect" and o["a"].get("client") == "hasty" for o in s["ops"]), tag="hasty")
    validated += rval
    tstates += rts
    # connection goroutines (set-up worker, reader of each session) share nothing they should not: packets cut into two segments,
    # with every other session busy in between, are framed as if they had arrived whole (a deterministic form of overlapping reads)
    from checks import brokerlib
    brokerlib.framing_model(run)
    sscns = brokerlib.segmented(cuts=(1, 2, 3) if not thorough else (1, 2, 3, 4, 5, 8, 13))
    sscns += brokerlib.framing(run, 60 if not thorough else 1200, maxseg=3)
    stp, crashes = brokerlib.execute(run, sscns, "c20seg", shards=12)
    if crashes:
        raise vlib.Inconclusive("broker driver died: %s" % crashes[0][2][-2000:])
    snev, snscn, sgval, sgrej, sgts = brokerlib.validate(run, "C20", sscns, stp, v)
    validated += sgval
    tstates += sgts
    rc = v.finish()
    vlib.write_evidence(run, {
        "segmented_packets": {"scenarios": len(sscns), "events": snev, "rejections": len(sgrej),
                              "rule": "a CONNECT / PUBLISH arrives in two segments; between them 21 other sessions ping or connect; plus TLC-generated delivery schedules "
                                      "(FramingGen: the streams of two connections set up by the same worker, cut at every offset class that matters to a decoder, up to 3-4 "
                                      "segments each, interleaved in every order); Framing.tla model-checked with its negative control (a shared header buffer); BrokerTrace.tla "
                                      "judges the runs as usual"},
        "hasty_clients": {"interleavings": rn, "parked_at_their_gate": rparked, "events": rnev, "rejections": rrej},
        "traces_validated_against_impl": validated + sval,
        "evaluations": nhist + nstress,
        "distinct_nontrivial": nhist,
        "rule": "object level: %d seeded concurrent histories (4-8 goroutines x 5-7 operations on overlapping keys) over the identifier pool, the in-flight "
                "table, the registry, both tries, plus convergence of the replicated maps and fire-once of the expiration list under concurrent writers; "
                "whole broker: %d stress runs; everything under the Go race detector. This property is sampled, not enumerated." % (nhist, nstress),
        "race_reports_in_repository_code": sum(1 for r in allraces if r["repo"]),
        "race_reports_third_party_only": third[:10],
        "stress": stress_stats, "trace_spec_states": tstates, "rejections": len(rejected),
        "samples": [vlib.head_events(hpath, 1)[0]["ops"][:6]],
    }, ["sampled: schedules are whatever the Go scheduler produced in these runs",
        "the whole-broker stress uses an in-memory message log: the commitlog dependency has data races of its own (WriteEntry vs. cursor)",
        "Insert on the in-flight table is two steps (key visible, timeout armed): a sweep concurrent with an Insert may skip that entry"],
        violations=v.n_new)
    run.log("validated %d histories + %d stress traces, %d rejected, %d repo races (%d known)" % (validated, sval, len(rejected),
            sum(1 for r in allraces if r["repo"]), v.n_known))
    return rc


def replay(run, path):
    rp = json.load(open(path))
    if rp.get("kind") == "history":
        tp = os.path.join(run.scratch, "h.ndjson")
        with open(tp, "w") as f:
            f.write(json.dumps(rp["history"]) + "\n")
        ok, line, detail, _ = run.validate("Lin", "Lin.cfg", tp)
        print("replay: recorded history is %s" % ("linearizable" if ok else "NOT linearizable"))
        if not ok:
            print("VIOLATION property=C20 replay=%s" % path)
        return 0 if ok else 1
    if rp.get("kind") == "race":
        return racelib.replay(run, "C20", path)
    if rp.get("kind") == "broker":
        from checks import brokerlib
        return brokerlib.replay(run, "C20", path)
    print("replay: data races and stress outcomes depend on the schedule; re-run the check (several seeds) to look for it again")
    return check(run)
