CONSTANTS Node = {"n1", "n2"} Conn = {"c1", "c2"} Filter = {"f1"} NodeOf <- NodeOf2 ClientOf <- SameClient HasWill <- AllWill MaxTime = 0 MaxStamp = 8
SPECIFICATION Spec
INVARIANTS NoTraceLeft ClosedAtEnd EndsOnlyForCause OneResolved SuccessorSpared WillIffUnclean
CHECK_DEADLOCK FALSE
