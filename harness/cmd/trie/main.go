// Driver for C01 / C07 / C19 at index level.
//
// Scenario (one JSON object per line):
//
//	{"mode":"tree"|"state", "ops":[{"op":"sub","s":"s1","f":["a","#"],"q":1},{"op":"unsub",...},{"op":"end","s":"s1"}],
//	 "topics":[["a"],["a","b"]], "probe":"each"|"end"}
//
// tree : subscriptions.Tree (Upsert / Walk), no mount point
// state: distributed SubscriptionsState (Create / Delete / DeleteSession / ByPattern) under mount point "mp"
// After every op (probe=each) or after the last one (probe=end) the index is queried for every
// topic of the scenario and the answer recorded as level sequences.
package main

import (
	"bufio"
	"encoding/json"
	"flag"
	"fmt"
	"os"
	"sort"
	"strings"

	"github.com/vx-labs/mqtt-protocol/packet"
	"github.com/vx-labs/wasp/v4/subscriptions"
	"github.com/vx-labs/wasp/v4/topics"
	"verifharness/internal/dstate"
	"verifharness/internal/rec"
)

type op struct {
	T  []string `json:"t"`
	P  string   `json:"p"`
	K  int      `json:"k"`
	V  string   `json:"v"`
	Op string   `json:"op"`
	S  string   `json:"s"`
	F  []string `json:"f"`
	Q  int32    `json:"q"`
}
type scenario struct {
	Filters [][]string `json:"filters"`
	Mode    string     `json:"mode"`
	Kind    string     `json:"kind"`
	Keys    [][]string `json:"keys"`
	Ops     []op       `json:"ops"`
	Topics  [][]string `json:"topics"`
	Probe   string     `json:"probe"`
}
type got struct {
	S string   `json:"s"`
	F []string `json:"f"`
	Q int32    `json:"q"`
}

func join(l []string) string { return strings.Join(l, "/") }

type index interface {
	sub(s string, f []string, q int32)
	unsub(s string, f []string)
	end(s string)
	query(t []string) []got
}

// ---- raw trie: node data = newline separated "session|qos|filter" entries
type treeIdx struct{ t subscriptions.Tree }

func (x *treeIdx) edit(f []string, fn func([]string) []string) {
	x.t.Upsert([]byte(join(f)), func(old []byte) []byte {
		var items []string
		if len(old) > 0 {
			items = strings.Split(string(old), "\n")
		}
		items = fn(items)
		if len(items) == 0 {
			return nil
		}
		return []byte(strings.Join(items, "\n"))
	})
}
func enc(s string, q int32, f []string) string {
	b, _ := json.Marshal(f)
	return fmt.Sprintf("%s|%d|%s", s, q, b)
}
func (x *treeIdx) sub(s string, f []string, q int32) {
	x.edit(f, func(items []string) []string {
		out := items[:0]
		for _, it := range items {
			if !strings.HasPrefix(it, s+"|") {
				out = append(out, it)
			}
		}
		return append(out, enc(s, q, f))
	})
}
func (x *treeIdx) unsub(s string, f []string) {
	x.edit(f, func(items []string) []string {
		out := items[:0]
		for _, it := range items {
			if !strings.HasPrefix(it, s+"|") {
				out = append(out, it)
			}
		}
		return out
	})
}
func (x *treeIdx) end(s string) { panic("end not supported on the raw tree") }
func (x *treeIdx) query(t []string) []got {
	res := []got{}
	x.t.Walk([]byte(join(t)), func(b []byte) {
		if len(b) == 0 {
			return
		}
		for _, it := range strings.Split(string(b), "\n") {
			p := strings.SplitN(it, "|", 3)
			g := got{S: p[0]}
			fmt.Sscanf(p[1], "%d", &g.Q)
			json.Unmarshal([]byte(p[2]), &g.F)
			res = append(res, g)
		}
	})
	return res
}

// ---- replicated subscription state
type stateIdx struct {
	n     *dstate.Node
	known map[string][]string
}

func (x *stateIdx) pat(f []string) []byte {
	p := "mp/" + join(f)
	x.known[p] = f
	return []byte(p)
}
func (x *stateIdx) sub(s string, f []string, q int32) {
	x.n.State.Subscriptions().Create(s, x.pat(f), q)
}
func (x *stateIdx) unsub(s string, f []string) { x.n.State.Subscriptions().Delete(s, x.pat(f)) }
func (x *stateIdx) end(s string)               { x.n.State.Subscriptions().DeleteSession(s) }
func (x *stateIdx) query(t []string) []got {
	res := []got{}
	for _, sub := range x.n.State.Subscriptions().ByPattern([]byte("mp/" + join(t))) {
		f, ok := x.known[string(sub.Pattern)]
		if !ok {
			f = []string{"?unknown pattern", string(sub.Pattern)}
		}
		res = append(res, got{S: sub.SessionID, F: f, Q: sub.QoS})
	}
	return res
}

func sortGot(g []got) {
	sort.Slice(g, func(i, j int) bool {
		if g[i].S != g[j].S {
			return g[i].S < g[j].S
		}
		return join(g[i].F) < join(g[j].F)
	})
}

func probe(r *rec.Recorder, x index, topics [][]string) bool {
	for _, t := range topics {
		var g []got
		panicked := false
		func() {
			defer func() {
				if recover() != nil {
					panicked = true
				}
			}()
			g = x.query(t)
		}()
		if g == nil {
			g = []got{}
		}
		sortGot(g)
		r.Emit(rec.Ev{"op": "q", "t": t, "got": g, "panic": panicked})
		if panicked {
			return false
		}
	}
	return true
}

// ---- C19: both tries as maps over full topic strings
type kv interface {
	write(key, v string)
	remove(key string)
	get(key string) []string // values found at exactly this key
	count() int              // only meaningful if hasCount()
	hasCount() bool
	iterate() []string
	dump() []byte
	load([]byte)
}
type topicsKV struct{ t topics.Store }

func (x *topicsKV) write(key, v string) { x.t.Insert([]byte(key), []byte(v)) }
func (x *topicsKV) remove(key string)   { x.t.Remove([]byte(key)) }
func (x *topicsKV) get(key string) []string {
	var out [][]byte
	x.t.Match([]byte(key), &out)
	res := []string{}
	for _, b := range out {
		res = append(res, string(b))
	}
	return res
}
func (x *topicsKV) count() int     { return x.t.Count() }
func (x *topicsKV) hasCount() bool { return true }
func (x *topicsKV) iterate() []string {
	res := []string{}
	x.t.Iterate(func(b []byte) { res = append(res, string(b)) })
	return res
}
func (x *topicsKV) dump() []byte  { b, _ := x.t.Dump(); return b }
func (x *topicsKV) load(b []byte) { x.t.Load(b) }

type subsKV struct{ t subscriptions.Tree }

func (x *subsKV) write(key, v string) {
	x.t.Upsert([]byte(key), func([]byte) []byte { return []byte(v) })
}
func (x *subsKV) remove(key string) { x.t.Upsert([]byte(key), func([]byte) []byte { return nil }) }
func (x *subsKV) get(key string) []string {
	res := []string{}
	x.t.Walk([]byte(key), func(b []byte) {
		if len(b) > 0 {
			res = append(res, string(b))
		}
	})
	return res
}
func (x *subsKV) count() int     { return 0 }
func (x *subsKV) hasCount() bool { return false }
func (x *subsKV) iterate() []string {
	res := []string{}
	x.t.Iterate(func(b []byte) { res = append(res, string(b)) })
	return res
}
func (x *subsKV) dump() []byte  { b, _ := x.t.Dump(); return b }
func (x *subsKV) load(b []byte) { x.t.Load(b) }

func runStore(r *rec.Recorder, n int, s scenario) {
	var x kv
	if s.Kind == "topics" {
		x = &topicsKV{t: topics.NewTree()}
	} else {
		x = &subsKV{t: subscriptions.NewTree()}
	}
	keys := make([]string, len(s.Keys))
	for i, k := range s.Keys {
		keys[i] = join(k)
	}
	r.Emit(rec.Ev{"op": "new", "scn": n, "mode": "store", "kind": s.Kind, "nkeys": len(keys), "keys": s.Keys})
	var snap []byte
	guard := func(f func()) (panicked bool) {
		defer func() {
			if recover() != nil {
				panicked = true
			}
		}()
		f()
		return false
	}
	for _, o := range s.Ops {
		var pn bool
		switch o.Op {
		case "w":
			pn = guard(func() { x.write(keys[o.K-1], o.V) })
		case "rm":
			pn = guard(func() { x.remove(keys[o.K-1]) })
		case "dump":
			pn = guard(func() { snap = x.dump() })
		case "load":
			pn = guard(func() { x.load(snap) })
		}
		r.Emit(rec.Ev{"op": o.Op, "k": o.K, "v": o.V, "panic": pn})
		if pn {
			return
		}
		vals := make([]string, len(keys))
		var cnt int
		var it []string
		pn = guard(func() {
			for i, k := range keys {
				g := x.get(k)
				switch len(g) {
				case 0:
					vals[i] = ""
				case 1:
					vals[i] = g[0]
				default:
					vals[i] = "?multiple:" + strings.Join(g, ",")
				}
			}
			cnt = x.count()
			it = x.iterate()
			sort.Strings(it)
		})
		if it == nil {
			it = []string{}
		}
		r.Emit(rec.Ev{"op": "probe", "vals": vals, "count": cnt, "hascount": x.hasCount(), "iter": it, "panic": pn})
		if pn {
			return
		}
	}
}

// ---- C07: retained messages at TopicsState level, on the origin and on a replica
type rgot struct {
	T []string `json:"t"`
	P string   `json:"p"`
	R bool     `json:"r"`
}

func runRetained(r *rec.Recorder, n int, s scenario) {
	a, b, c := dstate.New(1), dstate.New(2), dstate.New(3)
	var all [][]byte
	known := map[string][]string{}
	r.Emit(rec.Ev{"op": "new", "scn": n, "mode": "retained"})
	guard := func(f func()) (panicked bool) {
		defer func() {
			if recover() != nil {
				panicked = true
			}
		}()
		f()
		return false
	}
	probe := func(node *dstate.Node, name string) bool {
		for _, f := range s.Filters {
			var g []rgot
			pn := guard(func() {
				msgs, err := node.State.Topics().Get([]byte("mp/" + join(f)))
				if err != nil {
					panic(err)
				}
				for _, m := range msgs {
					t, ok := known[string(m.Publish.Topic)]
					if !ok {
						t = []string{"?unknown topic", string(m.Publish.Topic)}
					}
					g = append(g, rgot{T: t, P: string(m.Publish.Payload), R: m.Publish.Header != nil && m.Publish.Header.Retain})
				}
			})
			if g == nil {
				g = []rgot{}
			}
			sort.Slice(g, func(i, j int) bool { return join(g[i].T) < join(g[j].T) })
			r.Emit(rec.Ev{"op": "get", "node": name, "f": f, "got": g, "panic": pn})
			if pn {
				return false
			}
		}
		return true
	}
	for i, o := range s.Ops {
		topic := "mp/" + join(o.T)
		known[topic] = o.T
		pn := guard(func() {
			// what the publish worker does with a retained PUBLISH (wasp/packets.go)
			if o.P == "" {
				a.State.Topics().Delete([]byte(topic))
			} else {
				a.State.Topics().Set(&packet.Publish{Header: &packet.Header{Retain: true}, Topic: []byte(topic), Payload: []byte(o.P)})
			}
			for _, m := range a.Drain() {
				b.State.Distributor().NotifyMsg(m)
				all = append(all, m)
			}
		})
		r.Emit(rec.Ev{"op": "pub", "t": o.T, "p": o.P, "panic": pn})
		if pn {
			return
		}
		if s.Probe == "each" || i == len(s.Ops)-1 {
			if !probe(a, "origin") || !probe(b, "replica") {
				return
			}
		}
		if i == len(s.Ops)-1 {
			// a third node gets every broadcast newest first, each twice: a clear must win against the older publish that follows it
			for j := len(all) - 1; j >= 0; j-- {
				c.State.Distributor().NotifyMsg(all[j])
				c.State.Distributor().NotifyMsg(all[j])
			}
			if !probe(c, "reordered-replica") {
				return
			}
		}
	}
}

func run(r *rec.Recorder, n int, s scenario) {
	if s.Mode == "retained" {
		runRetained(r, n, s)
		return
	}
	if s.Mode == "store" {
		runStore(r, n, s)
		return
	}
	var x index
	if s.Mode == "tree" {
		x = &treeIdx{t: subscriptions.NewTree()}
	} else {
		x = &stateIdx{n: dstate.New(1), known: map[string][]string{}}
	}
	r.Emit(rec.Ev{"op": "new", "scn": n, "mode": s.Mode})
	for i, o := range s.Ops {
		panicked := false
		func() {
			defer func() {
				if recover() != nil {
					panicked = true
				}
			}()
			switch o.Op {
			case "sub":
				x.sub(o.S, o.F, o.Q)
			case "unsub":
				x.unsub(o.S, o.F)
			case "end":
				x.end(o.S)
			}
		}()
		if panicked {
			// an update that panics is reported as a query event with panic=true (no spec step explains it)
			r.Emit(rec.Ev{"op": "q", "t": o.F, "got": []got{}, "panic": true})
			return
		}
		f := o.F
		if f == nil {
			f = []string{}
		}
		r.Emit(rec.Ev{"op": o.Op, "s": o.S, "f": f, "q": o.Q})
		if s.Probe == "each" || i == len(s.Ops)-1 {
			if !probe(r, x, s.Topics) {
				return
			}
		}
	}
}

func main() {
	scn := flag.String("scenarios", "", "scenario file (NDJSON)")
	out := flag.String("out", "trace.ndjson", "trace output")
	flag.Parse()
	f, err := os.Create(*out)
	if err != nil {
		panic(err)
	}
	defer f.Close()
	r := rec.New(f)
	defer r.Flush()
	in, err := os.Open(*scn)
	if err != nil {
		panic(err)
	}
	sc := bufio.NewScanner(in)
	sc.Buffer(make([]byte, 1<<20), 1<<28)
	n := 0
	for sc.Scan() {
		var s scenario
		if err := json.Unmarshal(sc.Bytes(), &s); err != nil {
			panic(err)
		}
		n++
		run(r, n, s)
	}
	fmt.Fprintf(os.Stderr, "scenarios=%d\n", n)
}
