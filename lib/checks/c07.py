"""C07  Retained: the last non-empty publish per topic is replayed to new subscribers.

(M) Retained.tla model-checked (ReplayIsMatch, OnlyNonEmpty, OneTopicAtATime).
(G) RetainedGen: every history of Depth retained publishes (new payload / replace / clear)
    over topics with shared prefixes; TopicsGen: the exhaustive filter domain.
(T) executed on the real TopicsState (Set/Delete/Get) of an origin node and of a replica fed
    with the origin's broadcasts; RetainedTrace compares every Get with Replay(ret, filter).
The broker level (retain bit of PUBLISH packets after SUBACK, live copies unflagged) is
added by the node harness.
"""
import json
import os
import random

import vlib
from checks import brokerlib, racelib
from checks import c01

GEN = 'CONSTANTS RTopics <- GTopics Payloads = {"p1", "p2"} Depth = %d\nSPECIFICATION GSpec\nCONSTRAINT Dump\nCHECK_DEADLOCK FALSE\n'


def classify(scn, line):
    e = scn[line - 1]
    if e.get("panic"):
        return "panic-" + e["op"]
    if e["op"] == "get":
        ret = {}
        for x in scn[1:line - 1]:
            if x["op"] == "pub":
                if x["p"] == "":
                    ret.pop(tuple(x["t"]), None)
                else:
                    ret[tuple(x["t"])] = x["p"]
        got = {(tuple(g["t"]), g["p"]) for g in e["got"]}
        tags = []
        if any(not g["r"] for g in e["got"]):
            tags.append("not-flagged")
        if len(got) != len(e["got"]):
            tags.append("duplicate")
        gt = {g[0] for g in got}
        if gt - set(ret):
            tags.append("cleared-or-unknown-topic-replayed")
        if any(ret.get(g[0]) not in (None, g[1]) for g in got):
            tags.append("stale-payload")
        if not tags:
            tags.append("match-differs" + ("-empty-level" if "" in e["f"] or any("" in t for t in ret) else ""))
        return e.get("node", "?") + ":" + "+".join(tags)
    return "other"


def _pubs(scn):
    out = []
    for o in scn["ops"]:
        if o["op"] == "pub":
            out.append(o)
        elif o["op"] == "race":
            out += [x for x in [o["a"]] + o["b"] if x["op"] == "pub"]
    return [o for o in out if o.get("p") in ("new", "newer")]


def check(run):
    thorough = run.tier == "thorough"
    rng = random.Random(run.seed)
    run.model_check("MC_Retained", "MC_Retained.cfg")
    run.model_check("MC_Trie", "MC_Trie_ret.cfg")
    topics, filters = c01.domain(run, ["a", "b", ""], 3)
    hs = vlib.gen_behaviours(run, "RetainedGen", "Gen_Retained.cfg", GEN % (4 if thorough else 3))
    run.log("TLC generated %d histories; domain %d topics x %d filters" % (len(hs), len(topics), len(filters)))
    hfilters = [["#"], ["a", "#"], ["a", "+"], ["+"], ["a"], ["a", "b", "#"], ["+", "+"], ["a", ""], ["+", "b", "#"], ["b"], ["a", "b"], ["+", "+", "+"]]
    scns = [{"mode": "retained", "ops": h, "filters": hfilters, "probe": "each"} for h in hs]
    # table: every single retained topic of the domain x every filter; and the full store x every filter
    for t in topics:
        scns.append({"mode": "retained", "ops": [{"op": "pub", "t": t, "p": "p1"}], "filters": filters, "probe": "end"})
    scns.append({"mode": "retained", "ops": [{"op": "pub", "t": t, "p": "p%d" % i} for i, t in enumerate(topics)],
                 "filters": filters, "probe": "end"})
    scns.append({"mode": "retained", "ops": [{"op": "pub", "t": t, "p": "p%d" % i} for i, t in enumerate(topics)] +
                 [{"op": "pub", "t": t, "p": ""} for t in topics[::2]], "filters": filters, "probe": "end"})
    nrand = 100 if not thorough else 2000
    alpha = ["a", "b", "c", "d", ""]
    for _ in range(nrand):
        ts = [[rng.choice(alpha) for _ in range(rng.randint(1, 5))] for _ in range(rng.randint(2, 8))]
        ts = [t for t in ts if t != [""]] or [["a"]]
        ops = []
        for _ in range(rng.randint(3, 14)):
            ops.append({"op": "pub", "t": rng.choice(ts), "p": rng.choice(["x", "y", "z", ""])})
        fs = []
        for _ in range(10):
            base = list(rng.choice(ts))
            f = [("+" if rng.random() < 0.3 else x) for x in base]
            if rng.random() < 0.4:
                f = f[:rng.randint(0, len(f))] + ["#"]
            fs.append(f)
        scns.append({"mode": "retained", "ops": ops, "filters": fs, "probe": "end"})
    spath = os.path.join(run.scratch, "scenarios.ndjson")
    with open(spath, "w") as f:
        for s in scns:
            f.write(json.dumps(s) + "\n")
    drv = run.gobuild("trie")
    tpath = os.path.join(run.scratch, "retained.ndjson")
    run.drive(drv, ["-scenarios", spath, "-out", tpath], timeout=3000)
    nev, nscn = vlib.count_lines(tpath, '"op":"new"')
    run.log("%d scenarios, recorded %d events" % (len(scns), nev))
    validated, rejected, tstates = vlib.validate_scenarios(run, "RetainedTrace", "RetainedTrace.cfg", tpath,
                                                           timeout=3000, max_rejections=4)
    v = vlib.Verdict(run)
    for rj in rejected:
        scn, line = rj["scenario"], rj["line"]
        sig = classify(scn, line)
        ops = [dict(op="pub", t=x["t"], p=x["p"]) for x in scn[1:line] if x["op"] == "pub"]
        e = scn[line - 1]
        v.add(sig, "retained store (%s): after %s, Get(%s) returned %s, not the most recent non-empty payload of every matching topic"
              % (e.get("node"), json.dumps(ops), json.dumps(e.get("f")), json.dumps(e.get("got"))),
              {"kind": "retained", "scenario": {"mode": "retained", "ops": ops, "filters": [e.get("f")], "probe": "end"},
               "trace": scn[:1] + ops + [e]})
    # ---- broker level: retained publishes through real sessions; replays read right after SUBACK (retain bit set),
    # live copies at already subscribed clients (retain bit clear); on the publisher's node and on a second node
    bh = hs[:: max(1, len(hs) // (600 if thorough else 60))]
    bscns = []
    subf = [[["#"]], [["a", "#"]], [["a", "+"], ["b"]], [["+"], ["a", "b", "#"]], [["a", ""], ["a"]]]
    for k, h in enumerate(bh):
        ops = [{"op": "connect", "c": 9, "n": 1, "client": "pub", "ka": 600},
               {"op": "connect", "c": 1, "n": 1, "client": "early", "ka": 600},
               {"op": "sub", "c": 1, "id": 1, "fs": [{"f": ["#"], "q": k % 3}]}]
        for i, o in enumerate(h):
            ops.append({"op": "pub", "c": 9, "t": o["t"], "p": (o["p"] + "-%d" % i) if o["p"] else "",
                        "q": (i % 2) if o["p"] else 0, "r": True, "id": 20 + i})   # clears at QoS 0: an empty payload cannot be told apart in the trace
            if i % 2 == 1 or i == len(h) - 1:
                c = 2 + i
                ops.append({"op": "connect", "c": c, "n": 1 + (k + i) % 2, "client": "late%d" % c, "ka": 600})
                ops.append({"op": "sub", "c": c, "id": 2, "fs": [{"f": f, "q": (k + i) % 3} for f in subf[(k + i) % len(subf)]]})
        ops.append({"op": "quiesce"})
        bscns.append({"nodes": [1, 2], "ops": ops})
    # a retained replay that is not acknowledged is sent again when its deadline passes: still flagged as retained, same topic
    for q in (1, 2):
        for n in (1, 2):
            ops = [{"op": "connect", "c": 9, "n": 1, "client": "pub", "ka": 600},
                   {"op": "connect", "c": 1, "n": 1, "client": "early", "ka": 600, "auto": "none"},
                   {"op": "sub", "c": 1, "id": 1, "fs": [{"f": ["a", "#"], "q": q}]},
                   {"op": "pub", "c": 9, "t": ["a", "b"], "p": "kept-q%d" % q, "q": 1, "r": True, "id": 20},
                   {"op": "connect", "c": 5, "n": n, "client": "late", "ka": 600, "auto": "none"},
                   {"op": "sub", "c": 5, "id": 2, "fs": [{"f": ["a", "+"], "q": q}]},
                   {"op": "sweep", "n": n, "ms": 4500}, {"op": "sweep", "n": n, "ms": 9000},
                   {"op": "sweep", "n": 1, "ms": 4500},
                   {"op": "ackmsg", "c": 5, "p": "kept-q%d" % q, "kind": "PUBACK" if q == 1 else "PUBREC"},
                   {"op": "ackmsg", "c": 1, "p": "kept-q%d" % q, "kind": "PUBACK" if q == 1 else "PUBREC"}]
            if q == 2:
                ops += [{"op": "sweep", "n": n, "ms": 4500}, {"op": "ackmsg", "c": 5, "p": "kept-q2", "kind": "PUBCOMP"},
                        {"op": "ackmsg", "c": 1, "p": "kept-q2", "kind": "PUBCOMP"}]
            ops.append({"op": "quiesce"})
            bscns.append({"nodes": [1, 2], "ops": ops})
    btpath, crashes = brokerlib.execute(run, bscns, "c07b", shards=12)
    if crashes:
        raise vlib.Inconclusive("broker driver died: %s" % crashes[0][2][-2000:])
    bnev, bnscn, bvalidated, brejected, btstates = brokerlib.validate(run, "C07", bscns, btpath, v)
    run.log("broker level: validated %d of %d scenarios (%d events)" % (bvalidated, len(bscns), bnev))
    validated += bvalidated
    tstates += btstates
    rejected = rejected + brejected
    # ---- overlapping operations (retained publishes overlapping subscriptions): one operation parked at a gate inside its handler, others completed meanwhile
    rn, rparked, rnev, rval, rrej, rts = racelib.check_family(run, "C07", v, keep=lambda s: any(o.get('r') for o in _pubs(s)))
    validated += rval
    tstates += rts
    # the retained store behind the replicated state after lost gossip: nodes that missed broadcasts are repaired by full-state
    # exchanges whose batches list entries they hold already next to entries they lack (replays on every node come from this store)
    from checks import crdtlib
    vals = crdtlib.MAPS["ret"]["vals"]
    rs = crdtlib.gen(run, "c07lost", "ret", [1, 2], ["k1", "k2"], vals[:1], 3, 3, 0, 0, [1, 2], True)
    rs += crdtlib.gen(run, "c07part", "ret", [1, 2], ["k1", "k2", "k3"], vals[:1], 4, 8, 2, 2, [1, 2], True, simulate="num=%d" % (400 if thorough else 30))
    for i, s_ in enumerate(rs):
        s_["ops"] = s_["ops"] + [{"op": "push", "from": 1, "to": 2}, {"op": "push", "from": 2, "to": 1}, {"op": "push", "from": 1, "to": 9}]
    rtp = crdtlib.execute(run, rs, "c07")
    rnev2, rval2, rrej2, rts2 = crdtlib.validate(run, "C07", rs, rtp, v)
    run.log("retained store after lost gossip + full-state exchanges: %d histories, %d rejected" % (len(rs), len(rrej2)))
    validated += rval2
    tstates += rts2
    rc = v.finish()
    vlib.write_evidence(run, {
        "after_lost_gossip": {"histories": len(rs), "events": rnev2, "rejections": len(rrej2),
                              "rule": "TLC-generated histories of retained writes on two nodes with all or part of the gossip lost, then full-state exchanges both ways "
                                      "and into a fresh node; CrdtTrace.tla: every listing is the newest entry per topic"},
        "broker_level_scenarios": len(bscns), "broker_level_events": bnev,
        "overlapping_operations": {"interleavings": rn, "parked_at_their_gate": rparked, "events": rnev, "rejections": rrej,
                                   "rule": "one client operation (SUBSCRIBE / UNSUBSCRIBE / PUBLISH) is parked at a scheduler gate at a replicated-state call "
                                           "inside its handler while others run to completion; RaceTrace.tla requires what holds under every interleaving"},
        "traces_validated_against_impl": validated,
        "evaluations": nev,
        "distinct_nontrivial": len(scns),
        "rule": "scenarios: every TLC-generated history of %d retained publishes (set / replace / clear) over 5 prefix-related topics, "
                "probed after each step with 12 filters on origin and replica; every single topic of the <=3-level domain x every filter "
                "(%d x %d); the full and the half-cleared store x every filter; %d seeded random histories; evaluations = recorded events"
                % (4 if thorough else 3, len(topics), len(filters), nrand),
        "trace_spec_states": tstates, "rejections": len(rejected), "exhaustive": True,
        "samples": [scns[0], scns[len(hs) // 2], {"trace_excerpt": vlib.head_events(tpath, 4)}],
    }, ["the replica receives every broadcast of the origin in order (delivery faults are C08-C10)",
        "the driver performs what the publish worker does with a retained PUBLISH: Topics().Set, or Topics().Delete for an empty payload",
        "broker level: an even sample of the TLC-generated histories is published (retain flag set, empty payload = clear) through a real session on a two-node cluster; an early subscriber must get unflagged live copies, later subscribers on either node exactly the owed flagged replays (BrokerTrace)"],
        violations=v.n_new)
    run.log("validated %d scenarios, %d rejected (%d known)" % (validated, len(rejected), v.n_known))
    return rc


def replay(run, path):
    rp = json.load(open(path))
    if rp.get("kind") == "broker":
        return brokerlib.replay(run, "C07", path)
    if rp.get("kind") == "race":
        return racelib.replay(run, "C07", path)
    if rp.get("kind") == "crdt" or "map" in rp.get("scenario", {}):
        from checks import crdtlib
        return crdtlib.replay(run, "C07", path)
    spath = os.path.join(run.scratch, "scenarios.ndjson")
    with open(spath, "w") as f:
        f.write(json.dumps(rp["scenario"]) + "\n")
    drv = run.gobuild("trie")
    tpath = os.path.join(run.scratch, "retained.ndjson")
    run.drive(drv, ["-scenarios", spath, "-out", tpath])
    events = vlib.load_events(tpath)
    ok, line, detail, _ = run.validate("RetainedTrace", "RetainedTrace.cfg", tpath)
    if ok:
        print("replay: accepted (no violation)")
        return 0
    print("replay: rejected at event %d: %s" % (line, json.dumps(events[line - 1])))
    print("VIOLATION property=C07 replay=%s" % path)
    return 1
