CONSTANTS Min = 1 Max = 5
SPECIFICATION Spec
INVARIANTS InRange Available
PROPERTIES FreshIds NeverShrinksOnGet
CHECK_DEADLOCK FALSE
