module verifgated

go 1.14

require (
	github.com/vx-labs/commitlog v1.2.4
	github.com/vx-labs/mqtt-protocol v5.1.1+incompatible
	github.com/vx-labs/wasp/v4 v4.0.0
)

replace github.com/vx-labs/wasp/v4 => /repo

replace github.com/vx-labs/commitlog => ./commitlog
