"""C02  An acknowledged publish is never lost before reaching connected subscribers.

(M) MsgLog.tla model-checked (TruncSafe incl. the writer queue, NoSkip) with scaled constants
    and the Margin = 0 negative control; Inbound.tla (AckAfterStore).
(G) PubSubGen: scripts in which every client publishes (QoS 0/1/2, delayed PUBREL) and
    subscribes (QoS 1/2) on a fresh node - the first message a node ever stores included.
    Long seeded runs crossing the 500-entry segment roll and (thorough) the truncations at
    2000 and 3000 with payloads of 0 B - 70 KB, a throttled subscriber that makes the writer
    lag by a full queue exactly when the consumer crosses the truncation points, on an empty
    and on a pre-filled log.
(T) BrokerTrace: every PUBACK/PUBCOMP only after the append; at quiescence every acknowledged
    publish has reached every session that stayed connected with a matching subscription,
    topic and payload (length + CRC) intact.
"""
import random

import vlib
from checks import brokerlib, inboundlib

GEN = 'CONSTANTS Clients = {%s} Ids = {%s} Depth = %d\nSPECIFICATION Spec\nCONSTRAINT Dump\nCHECK_DEADLOCK FALSE\n'


# round 8: the scripts' one topic and the filter that reaches it, in several legal spellings - a level that starts with '$' below the first
# level reached through '#' and through '+', names outside ASCII, '#' standing for the parent level
SHAPES = [(["t"], ["t"]), (["home", "lamp", "$state"], ["home", "lamp", "#"]), (["home", "$x", "v"], ["home", "+", "v"]),
          (["Stra\u00dfe", "\u5317", "Gr\u00f6\u00dfe"], ["Stra\u00dfe", "+", "Gr\u00f6\u00dfe"]), (["t"], ["t", "#"])]


def script(h, subqos, shape=0):
    T, F = SHAPES[shape]
    clients = sorted(subqos)
    cn = {c: i + 1 for i, c in enumerate(clients)}
    ops = []
    for c in clients:
        ops.append({"op": "connect", "c": cn[c], "n": 1, "client": c, "ka": 600, "auto": "norel"})
        ops.append({"op": "sub", "c": cn[c], "id": 9, "fs": [{"f": F, "q": subqos[c]}]})
    k = 0
    for o in h:
        if o["op"] == "pub":
            k += 1
            ops.append({"op": "pub", "c": cn[o["c"]], "t": T, "p": "m%d" % k, "q": o["q"], "id": o["id"] if o["q"] else 0})
        elif o["op"] == "rel":
            ops.append({"op": "send", "c": cn[o["c"]], "kind": "PUBREL", "id": o["id"]})
        elif o["op"] == "sweep":
            ops.append({"op": "sweep", "n": 1, "ms": 4500})
    ops.append({"op": "quiesce"})
    return {"nodes": [1], "ops": ops}


def long_run(rng, total, prefill=None, throttle_at=()):
    """publishers and subscribers on one node; bursts; a gated subscriber around the given offsets."""
    ops = [{"op": "connect", "c": 1, "n": 1, "client": "s1", "ka": 6000},
           {"op": "sub", "c": 1, "id": 1, "fs": [{"f": ["t", "#"], "q": 1}]},
           {"op": "connect", "c": 2, "n": 1, "client": "s2", "ka": 6000},
           {"op": "sub", "c": 2, "id": 1, "fs": [{"f": ["t", "+"], "q": 0}, {"f": ["u"], "q": 2}]},
           {"op": "connect", "c": 3, "n": 1, "client": "p1", "ka": 6000},
           {"op": "connect", "c": 4, "n": 1, "client": "p2", "ka": 6000}]
    base = prefill["count"] if prefill else 0
    sent = 0
    b = 0
    marks = sorted(m - base for m in throttle_at if m - base > 30)
    while sent < total:
        nxt = next((m for m in marks if m > sent), None)
        if nxt is not None and nxt - sent <= 60:
            # make the writer lag by a full queue while the consumer crosses offset `nxt`
            k = max(nxt - sent - 30, 1)
            b += 1
            ops.append({"op": "burst", "c": 3, "t": ["t", "a"], "p": "b%d" % b, "q": 1, "k": k, "id": sent})
            sent += k
            ops.append({"op": "gate", "c": 1, "on": True})
            b += 1
            ops.append({"op": "burst", "c": 4, "t": ["t", "b"], "p": "b%d" % b, "q": 1, "k": 70, "id": sent, "nowait": True})
            sent += 70
            ops.append({"op": "wait", "ms": 400})
            ops.append({"op": "gate", "c": 1, "on": False})
            ops.append({"op": "quiesce"})
            marks = [m for m in marks if m > sent]
            continue
        k = min(rng.randint(40, 160), total - sent)
        if nxt is not None:
            k = max(1, min(k, nxt - sent - 45))
        b += 1
        ops.append({"op": "burst", "c": rng.choice([3, 4]), "t": rng.choice([["t", "a"], ["t", "b"], ["u"]]), "p": "b%d" % b,
                    "q": rng.choice([0, 1, 1, 2]), "k": k, "id": sent, "size": rng.choice([0, 0, -1]), "ms": rng.choice([0, 0, 7])})
        sent += k
    ops.append({"op": "quiesce"})
    s = {"nodes": [1], "ops": ops}
    if prefill:
        s["prefill"] = [dict(n=1, **prefill)]
    return s


def stalled_run(total, prefill=None):
    """a subscriber that stops reading for the whole of a long burst (it stays connected) and then resumes: however far the log
    consumer gets ahead of the writer meanwhile, truncation must not remove what the writer has not delivered yet"""
    ops = [{"op": "connect", "c": 1, "n": 1, "client": "s1", "ka": 6000},
           {"op": "sub", "c": 1, "id": 1, "fs": [{"f": ["t", "#"], "q": 1}]},
           {"op": "connect", "c": 2, "n": 1, "client": "s2", "ka": 6000},
           {"op": "sub", "c": 2, "id": 1, "fs": [{"f": ["t", "+"], "q": 0}]},
           {"op": "connect", "c": 3, "n": 1, "client": "p1", "ka": 6000},
           {"op": "burst", "c": 3, "t": ["t", "a"], "p": "warm", "q": 1, "k": 5, "id": 0},
           {"op": "gate", "c": 1, "on": True}]
    sent, b = 5, 0
    while sent < total:
        k = min(300, total - sent)
        b += 1
        ops.append({"op": "burst", "c": 3, "t": ["t", "a"], "p": "st%d" % b, "q": 1, "k": k, "id": sent, "nowait": True})
        sent += k
        ops.append({"op": "wait", "ms": 150})
    ops += [{"op": "wait", "ms": 400}, {"op": "gate", "c": 1, "on": False}, {"op": "quiesce"}]
    s = {"nodes": [1], "ops": ops}
    if prefill:
        s["prefill"] = [dict(n=1, **prefill)]
    return s


def check(run):
    thorough = run.tier == "thorough"
    rng = random.Random(run.seed)
    run.model_check("MC_MsgLog", "MC_MsgLog.cfg")
    neg = run.tlc("MC_MsgLog", "MC_MsgLog_nomargin.cfg", allow_violation=True, name="negative-control:Margin=0")
    if "TruncSafe" not in neg.violated:
        raise vlib.Inconclusive("negative control failed: MsgLog with Margin = 0 does not violate TruncSafe")
    hs = vlib.gen_behaviours(run, "PubSubGen", "Gen_PubSub.cfg", GEN % ('"c1", "c2"', "1, 2", 4 if thorough else 3))
    scns = []
    for i, h in enumerate(hs):
        scns.append(script(h, {"c1": 1, "c2": 2} if i % 2 == 0 else {"c1": 2, "c2": 1}, shape=[0, 1, 2, 0, 3, 4, 1][i % 7]))
    if not thorough:
        # scripts in which a QoS 2 handshake times out and its PUBREL arrives afterwards are few and always run; the rest is sampled
        def late_rel(h):
            sw = [i for i, o in enumerate(h) if o["op"] == "sweep"]
            return bool(sw) and any(o["op"] == "rel" for o in h[sw[0]:])
        must = [script(h, {"c1": 1, "c2": 2}) for h in hs if late_rel(h)]
        scns = scns[:: max(1, len(scns) // 150)] + must
    elif len(scns) > 6000:
        scns = scns[:: len(scns) // 6000 + 1]          # depth 4 has ~18 000 scripts: an even third of them
    nshort = len(scns)
    if not thorough:
        scns.append(long_run(rng, 640))
        scns.append(long_run(rng, 260, prefill={"count": 1890, "consumed": 1885}, throttle_at=[2000]))
        scns.append(stalled_run(1250, prefill={"count": 1890, "consumed": 1885}))
        scns.append(stalled_run(1650, prefill={"count": 2450, "consumed": 2445}))
    else:
        scns.append(stalled_run(2150))
        scns.append(stalled_run(1650, prefill={"count": 2450, "consumed": 2445}))
        scns.append(stalled_run(1250, prefill={"count": 1890, "consumed": 1885}))
        for _ in range(2):
            scns.append(long_run(rng, 3250, throttle_at=[2000, 3000]))
        scns.append(long_run(rng, 2200, prefill={"count": 900, "consumed": 880}, throttle_at=[2000, 3000]))
        scns.append(long_run(rng, 700, prefill={"count": 1990, "consumed": 1989}, throttle_at=[2000]))
        scns.append(long_run(rng, 640))
    # "acknowledged" must mean stored wherever a subscriber is: publishes with subscribers on two nodes while the log or the link of
    # one of them fails and recovers (QoS 1; the acknowledgement must be withheld whichever destination failed)
    hf = inboundlib.gen(run, "c02", [1, 2], ["c1"], ["m1", "m2", "m3"], [1], 4 if thorough else 3, qos=(1,))
    hf = [h for h in hf if any(o["op"] == "pub" for o in h) and any(o["op"] == "toggle" for o in h) and not any(o["op"] in ("pubrel", "sweep") for o in h)]
    if len(hf) > 2000:
        hf = hf[:: len(hf) // 2000 + 1]
    scns += [inboundlib.scenario(h, [1, 2]) for h in hf]
    run.log("%d short scripts from TLC + %d long runs + %d two-node scripts with failures" % (nshort, len(scns) - nshort - len(hf), len(hf)))
    tpath, crashes = brokerlib.execute(run, scns, "c02", shards=12, timeout=3000)
    if crashes:
        raise vlib.Inconclusive("broker driver died: %s" % crashes[0][2][-2000:])
    v = vlib.Verdict(run)
    nev, nscn, validated, rejected, tstates = brokerlib.validate(run, "C02", scns, tpath, v, chunk_events=30000)
    rc = v.finish()
    vlib.write_evidence(run, {
        "traces_validated_against_impl": validated,
        "evaluations": nev,
        "distinct_nontrivial": len(scns),
        "rule": "scenarios: every TLC-generated script of %d steps over 2 clients that both publish (QoS 0/1/2, ids {1,2}, PUBREL delayed) and subscribe "
                "(QoS 1 / QoS 2) on a fresh node; plus seeded long runs of bursts (payloads 0 B - 70 KB, QoS 0/1/2, three topics, two subscribers) "
                "crossing segment rolls and truncation points with a gated subscriber, on empty and pre-filled logs; a subscriber that stops reading for "
                "a whole burst of 1250 (thorough also 2150) messages that carries the log past a truncation point, then resumes; two-node QoS 1 scripts in which the log or the link of one destination fails and recovers; evaluations = recorded events"
                % (4 if thorough else 3),
        "trace_spec_states": tstates, "rejections": len(rejected),
        "negative_control": "MC with Margin=0 violates TruncSafe as required",
        "samples": [scns[0], {"long_run_ops": scns[-1]["ops"][:12]}],
    }, ["publishes of one client are handed to 20 workers and may be appended in any order; the specification does not constrain the order",
        "payload integrity is checked by length and CRC32 of the padded payload recorded at the sender, at the log and at the receiver"],
        violations=v.n_new)
    run.log("validated %d scenarios (%d events), %d rejected (%d known)" % (validated, nev, len(rejected), v.n_known))
    return rc


def replay(run, path):
    return brokerlib.replay(run, "C02", path)
