module verifharness

go 1.14

require github.com/vx-labs/wasp/v4 v4.0.0

replace github.com/vx-labs/wasp/v4 => /repo
