------------------------------ MODULE MC_MsgLog ------------------------------
EXTENDS MsgLog
Spec == Init /\ [][Next]_vars
HandedEver == UNION {{handed[r][i] : i \in 1..Len(handed[r])} : r \in 1..MaxRuns}
\* every offset below what the running consumer has reached was handed over in some incarnation
NoSkip == up => \A o \in 0..(len - 1) : o < cursor - Len(batch) => o \in HandedEver
\* within one incarnation offsets are handed over in log order, without gaps
InOrder == \A r \in 1..MaxRuns : \A i \in 1..(Len(handed[r]) - 1) : handed[r][i + 1] = handed[r][i] + 1
\* a restart replays at most the entry at the stored offset and the one in progress:
\* the first offset of an incarnation is never more than one behind the last offset of the previous one
LastOf(r) == handed[r][Len(handed[r])]
ReplayBound == \A r \in 2..MaxRuns : (Len(handed[r]) > 0 /\ Len(handed[r - 1]) > 0) => handed[r][1] >= LastOf(r - 1) - 1
\* truncation never removes what has not been handed over, nor what the writer still has to read back
TruncSafe == base <= persisted /\ (\A i \in 1..Len(wq) : wq[i] >= base) /\ lost = {}
NothingBehindBase == up => cursor - Len(batch) >= base
=============================================================================
