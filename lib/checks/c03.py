"""C03  Unacknowledged QoS 1/2 deliveries are retransmitted until completed
(and the writer-level half of C06: identifiers on the wire = outstanding identifiers).

(M) Delivery.tla model-checked (IdsMatch, SameId, OnlyWhileLive, GoneMeansReleasable).
(G) DeliveryGen: every client response script of a given depth - acknowledge, wrong packet
    type, foreign identifier, silence over one or more deadlines, disconnect / connection
    loss - for QoS 1 and QoS 2 messages, in every interleaving.
(T) executed on a real node (real writer, real in-flight table, sweeps issued by the driver with
    a synthetic 'now'); BrokerTrace validates every packet written to the subscriber, every
    in-flight callback, the identifiers held by the pool at quiescence.
"""
import json
import os

import vlib
from checks import brokerlib, racelib

GEN = ('CONSTANTS Sess = {%s} Msgs = {%s} MinId = 1 MaxId = 4 QoSOf <- GQoS Depth = %d\n'
       'SPECIFICATION GSpec\nCONSTRAINT Dump\nCHECK_DEADLOCK FALSE\n')


def gen(run, name, sess, msgs, depth, simulate=None):
    return vlib.gen_behaviours(run, "DeliveryGen", "Gen_Delivery_%s.cfg" % name,
                               GEN % (", ".join('"%s"' % s for s in sess), ", ".join('"%s"' % m for m in msgs), depth),
                               simulate=simulate, depth=depth + 1 if simulate else None)


def scenario(h, early=False):
    """early: every sweep past the deadlines is preceded by one that falls shortly BEFORE them (now + 2.6 s / 2.9 s against deadlines
    of now + 3 s): the expiry structure works in whole seconds and may or may not fire then - but whatever it does not fire must
    still fire at the next sweep."""
    sess = sorted({o["s"] for o in h if o["s"]})
    cn = {s: i + 1 for i, s in enumerate(sess)}
    ops = []
    for s in sess:
        ops.append({"op": "connect", "c": cn[s], "n": 1, "client": "sub-" + s, "ka": 600, "auto": "none"})
        ops.append({"op": "sub", "c": cn[s], "id": 1, "fs": [{"f": ["q1", s], "q": 1}, {"f": ["q2", s], "q": 2}] +
                    ([{"f": ["q1", "both"], "q": 1}, {"f": ["q2", "both"], "q": 2}] if len(sess) > 1 else [])})
    ops.append({"op": "connect", "c": 9, "n": 1, "client": "pub", "ka": 600})
    ops.append({"op": "pub", "c": 9, "t": ["warmup"], "p": "w0", "q": 0, "id": 0})   # offset 0 is not special any more, but keep it apart
    pid = 10
    ended = set()
    shared = {"m2"} if early else {"m1", "m3"}          # which messages go to both subscribers (two-subscriber scripts only)
    for o in h:
        if o["op"] == "deliver":
            pid += 1
            if len(sess) > 1 and o["m"] in shared:
                # one message for both subscribers (consecutive recipients of one fan-out, same QoS): the script's responses are
                # those of session o["s"]; the other one stays silent and is retransmitted to at the sweeps
                ops.append({"op": "pub", "c": 9, "t": ["q%d" % o["q"], "both"], "p": "%s-%s" % (o["m"], o["s"]), "q": 1, "id": pid})
            else:
                ops.append({"op": "pub", "c": 9, "t": ["q%d" % o["q"], o["s"]], "p": "%s-%s" % (o["m"], o["s"]), "q": 1, "id": pid})
        elif o["op"] == "resp":
            ops.append({"op": "ackmsg", "c": cn[o["s"]], "p": "%s-%s" % (o["m"], o["s"]), "kind": o["kind"]})
        elif o["op"] == "strayack":
            ops.append({"op": "send", "c": cn[o["s"]], "kind": "PUBACK", "id": 60000})
        elif o["op"] == "sweep":
            if early:
                ops.append({"op": "sweep", "n": 1, "ms": 2600})
                ops.append({"op": "sweep", "n": 1, "ms": 2900})
            ops.append({"op": "sweep", "n": 1, "ms": 4500})
        elif o["op"] == "end":
            ended.add(o["s"])
            if o["kind"] == "close":
                ops.append({"op": "close", "c": cn[o["s"]]})
            else:
                ops.append({"op": "send", "c": cn[o["s"]], "kind": "DISCONNECT"})
    ops += [{"op": "sweep", "n": 1, "ms": 4500}, {"op": "sweep", "n": 1, "ms": 9000}, {"op": "quiesce"}]
    return {"nodes": [1], "ops": ops}


def ack_races_sweep():
    """an expiry pass over three unacknowledged deliveries is parked inside its first retransmission (the write to a subscriber that does
    not read blocks); meanwhile another subscriber acknowledges; then the first one reads again.  The pass had collected the acknowledged
    entry's timeout already: the deliveries behind it must still be retransmitted in this pass, the acknowledged one not."""
    out = []
    for q in (1, 2):
        for stalled in (1, 2, 3):
            for acker in (1, 2, 3):
                if acker == stalled:
                    continue
                ops = [{"op": "connect", "c": 9, "n": 1, "client": "pub", "ka": 6000}]
                for c in (1, 2, 3):
                    ops.append({"op": "connect", "c": c, "n": 1, "client": "s%d" % c, "ka": 6000, "auto": "none"})
                    ops.append({"op": "sub", "c": c, "id": 1, "fs": [{"f": ["rs", "x"], "q": q}]})
                ops.append({"op": "pub", "c": 9, "t": ["rs", "x"], "p": "m1", "q": 1, "r": False, "id": 5})
                ack = {"op": "ackmsg", "c": acker, "p": "m1", "kind": "PUBACK" if q == 1 else "PUBREC"}
                ops.append({"op": "race", "hold": "write:%d" % stalled, "a": {"op": "sweep", "n": 1, "ms": 3300}, "b": [ack]})
                ops += [{"op": "sweep", "n": 1, "ms": 6600}, {"op": "sweep", "n": 1, "ms": 9900}, {"op": "quiesce"}]
                out.append({"nodes": [1], "ops": ops})
    return out


def check(run):
    thorough = run.tier == "thorough"
    run.model_check("MC_Delivery", "MC_Delivery.cfg" if thorough else "MC_Delivery_quick.cfg")
    hs = gen(run, "one", ["s1"], ["m1", "m2"], 5 if thorough else 4)
    hs += gen(run, "two", ["s1", "s2"], ["m1", "m2", "m3"], 8, simulate="num=%d" % (400 if thorough else 25))
    # keep scripts in which something is actually in flight
    hs = [h for h in hs if any(o["op"] == "deliver" for o in h)]
    if not thorough:
        hs = hs[:: max(1, len(hs) // 260)]
    scns = [scenario(h, early=(i % 2 == 1)) for i, h in enumerate(hs)]
    nscripts = len(scns)
    scns += ack_races_sweep()
    run.log("%d response scripts from TLC, %d sweeps overtaken by an acknowledgement" % (nscripts, len(scns) - nscripts))
    tpath, crashes = brokerlib.execute(run, scns, "c03", shards=12)
    if crashes:
        raise vlib.Inconclusive("broker driver died: %s" % crashes[0][2][-2000:])
    v = vlib.Verdict(run)
    nev, nscn, validated, rejected, tstates = brokerlib.validate(run, "C03", scns, tpath, v)
    # a recipient that vanishes while a publish for it is being handled (its teardown parked between leaving the local registry
    # and losing its subscriptions): nothing is sent to it and no packet identifier stays held (the writer-level half of C06)
    rn, rparked, rnev, rval, rrej, rts = racelib.check_family(
        run, "C03", v, keep=lambda s: any(o["op"] == "race" and o["a"]["op"] in ("close", "send") for o in s["ops"]), tag="gone")
    validated += rval
    tstates += rts
    rc = v.finish()
    retx = sum(1 for h in hs if any(o["op"] == "sweep" for o in h))
    vlib.write_evidence(run, {
        "vanishing_recipients": {"interleavings": rn, "parked_at_their_gate": rparked, "events": rnev, "rejections": rrej},
        "traces_validated_against_impl": validated,
        "evaluations": len(scns),
        "distinct_nontrivial": retx,
        "rule": "scenario = TLC-generated client response script (exhaustive depth %d for one subscriber and a QoS 1 + a QoS 2 message; simulated "
                "depth 8 for two subscribers and three messages): deliver / PUBACK / PUBREC / PUBCOMP (also of the wrong type) / foreign "
                "identifier / sweep past the deadlines (in every other scenario preceded by sweeps 0.4 s and 0.1 s before them) / close / DISCONNECT, closed by two sweeps and a probe of the identifier pool; "
                "non-trivial = contains at least one deadline expiry" % (5 if thorough else 4),
        "events_validated": nev, "trace_spec_states": tstates, "rejections": len(rejected),
        "samples": [hs[0], hs[len(hs) // 2], {"scenario": scns[-1]}],
    }, ["sweeps are issued by the driver through the same in-flight table with now = real time + 4.5 s / + 9 s; the broker's own 1 s ticker "
        "keeps running and its sweeps are recorded and validated the same way",
        "the outbound QoS is the subscription's QoS (what the code does); C03 does not constrain it"],
        violations=v.n_new)
    run.log("validated %d scripts (%d events), %d rejected (%d known)" % (validated, nev, len(rejected), v.n_known))
    return rc


def replay(run, path):
    import json
    if json.load(open(path)).get("kind") == "race":
        return racelib.replay(run, "C03", path)
    return brokerlib.replay(run, "C03", path)
