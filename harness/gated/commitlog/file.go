package commitlog

import (
	"os"
)

func fileExists(path string) bool {
	_, err := os.Stat(path)
	return !os.IsNotExist(err)
}
