CONSTANTS Node = {"n1", "n2"} Conn = {"c1"} Filter = {"f1", "f2"} NodeOf <- NodeOf1 ClientOf <- DiffClient HasWill <- AllWill MaxTime = 0 MaxStamp = 7
SPECIFICATION Spec
INVARIANTS NoTraceLeft ClosedAtEnd EndsOnlyForCause WillIffUnclean
CHECK_DEADLOCK FALSE
