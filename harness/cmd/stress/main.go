// Whole-broker stress for C20, built with -race: sessions connect (re-using client ids, so that
// takeovers happen), subscribe, publish at QoS 0/1/2, acknowledge, ping, disconnect or drop
// concurrently on two real nodes (in-memory message logs), while the harness delivers gossip,
// exchanges full states and sweeps the in-flight tables.  Output: the facts StressTrace.tla needs
// (which publishes were acknowledged, what every stable subscriber received, the final listings).
package main

import (
	"bufio"
	"encoding/json"
	"flag"
	"fmt"
	"math/rand"
	"os"
	"sort"
	"strconv"
	"strings"
	"sync"
	"sync/atomic"
	"time"

	"github.com/vx-labs/wasp/v4/wasp"

	"verifharness/internal/mq"
	"verifharness/internal/node"
	"verifharness/internal/rec"
)

func responder(cl *node.Client) {
	cl.OnPkt = func(p mq.Packet) {
		switch p.Type {
		case mq.PUBLISH:
			if p.QoS == 1 {
				cl.Send(rec.Ev{"kind": "PUBACK", "id": p.ID, "auto": true}, mq.PubAck(p.ID))
			} else if p.QoS == 2 {
				cl.Send(rec.Ev{"kind": "PUBREC", "id": p.ID, "auto": true}, mq.PubRec(p.ID))
			}
		case mq.PUBREL:
			cl.Send(rec.Ev{"kind": "PUBCOMP", "id": p.ID, "auto": true}, mq.PubComp(p.ID))
		case mq.PUBREC:
			cl.Send(rec.Ev{"kind": "PUBREL", "id": p.ID, "auto": true}, mq.PubRel(p.ID))
		}
	}
}

func waitFor(f func() bool, d time.Duration) bool {
	end := time.Now().Add(d)
	for !f() {
		if time.Now().After(end) {
			return false
		}
		time.Sleep(time.Millisecond)
	}
	return true
}

func main() {
	out := flag.String("out", "stress.ndjson", "")
	dur := flag.Duration("dur", 3*time.Second, "")
	workers := flag.Int("workers", 10, "")
	flag.Parse()
	seed, _ := strconv.ParseInt(os.Getenv("VERIF_SEED"), 10, 64)
	mem := rec.NewMem()
	w := node.NewWorld(mem)
	w.MemLog = true
	for _, id := range []int{1, 2} {
		if _, err := w.AddNode(id); err != nil {
			panic(err)
		}
	}
	time.Sleep(30 * time.Millisecond)
	var nextConn int64 = 100
	connect := func(n int, client string, ka int) *node.Client {
		c := int(atomic.AddInt64(&nextConn, 1))
		cl := w.Open(c, n)
		responder(cl)
		cl.SendConnect(rec.Ev{"kind": "CONNECT", "client": client}, mq.Connect(client, "", "", ka, true, nil))
		if !waitFor(func() bool { return cl.CountRecv(mq.CONNACK) > 0 || cl.ClosedByBroker() }, 5*time.Second) {
			return nil
		}
		return cl
	}
	// stable subscribers
	type stable struct {
		cl *node.Client
		n  int
	}
	var stables []stable
	for i, n := range []int{1, 2, 1, 2} {
		cl := connect(n, fmt.Sprintf("stable%d", i), 60000)
		cl.Send(rec.Ev{"kind": "SUBSCRIBE"}, mq.Subscribe(1, []string{"st/#"}, []int{1 + i%2}))
		waitFor(func() bool { return cl.CountRecv(mq.SUBACK) > 0 }, 5*time.Second)
		stables = append(stables, stable{cl, n})
	}
	w.PumpAll()
	stop := make(chan struct{})
	var wg sync.WaitGroup
	// the network, the sweeper
	wg.Add(1)
	go func() {
		defer wg.Done()
		k := 0
		for {
			select {
			case <-stop:
				return
			default:
			}
			w.PumpAll()
			k++
			if k%50 == 0 {
				for _, n := range w.Nodes {
					n.Queue.Expire(time.Now().Add(4 * time.Second))
				}
			}
			if k%120 == 0 {
				w.Nodes[2].State.Distributor().MergeRemoteState(w.Nodes[1].State.Distributor().LocalState(false), false)
				w.Nodes[1].State.Distributor().MergeRemoteState(w.Nodes[2].State.Distributor().LocalState(false), false)
			}
			time.Sleep(200 * time.Microsecond)
		}
	}()
	// acknowledged publishes: (conn, id) -> payload, resolved when PUBACK / PUBCOMP is seen
	var ackMu sync.Mutex
	acked := []string{}
	deadline := time.Now().Add(*dur)
	var npub int64
	for t := 0; t < *workers; t++ {
		wg.Add(1)
		go func(t int) {
			defer wg.Done()
			r := rand.New(rand.NewSource(seed*1000 + int64(t)))
			for time.Now().Before(deadline) {
				cl := connect(1+r.Intn(2), fmt.Sprintf("churn%d", r.Intn(*workers/2+1)), 60)
				if cl == nil {
					continue
				}
				if r.Intn(2) == 0 {
					cl.Send(rec.Ev{"kind": "SUBSCRIBE"}, mq.Subscribe(2, []string{fmt.Sprintf("st/%d", r.Intn(3)), "other/+"}, []int{r.Intn(3), 0}))
				}
				pend := map[int]string{}
				for i := 0; i < 1+r.Intn(6); i++ {
					q := r.Intn(3)
					id := 1 + i
					p := fmt.Sprintf("x%d", atomic.AddInt64(&npub, 1))
					cl.Send(rec.Ev{"kind": "PUBLISH", "p": p}, mq.Publish(fmt.Sprintf("st/%d", r.Intn(3)), []byte(p), q, r.Intn(8) == 0, false, id))
					if q > 0 {
						pend[id] = p
					}
					if r.Intn(3) == 0 {
						cl.Send(rec.Ev{"kind": "PINGREQ"}, mq.PingReq())
					}
				}
				// wait (bounded) for the acknowledgements of this session's publishes
				waitFor(func() bool {
					n := 0
					for _, p := range cl.Received() {
						if p.Type == mq.PUBACK || p.Type == mq.PUBCOMP {
							n++
						}
					}
					return n >= len(pend) || cl.ClosedByBroker()
				}, 2*time.Second)
				for _, p := range cl.Received() {
					if p.Type == mq.PUBACK || p.Type == mq.PUBCOMP {
						if pl, ok := pend[p.ID]; ok {
							ackMu.Lock()
							acked = append(acked, pl)
							ackMu.Unlock()
							delete(pend, p.ID)
						}
					}
				}
				switch r.Intn(3) {
				case 0:
					cl.Send(rec.Ev{"kind": "DISCONNECT"}, mq.Disconnect())
				case 1:
					cl.Close()
				default:
					cl.Send(rec.Ev{"kind": "UNSUBSCRIBE"}, mq.Unsubscribe(3, []string{"other/+"}))
					cl.Close()
				}
			}
		}(t)
	}
	// wait for the workers, then let everything drain
	time.Sleep(*dur)
	waitFor(func() bool { return false }, 300*time.Millisecond)
	close(stop)
	wg.Wait()
	quiet := func() bool {
		if w.Count("publish.enq") != w.Count("publish.done") || w.Count("writer.enq") != w.Count("writer.done") {
			return false
		}
		for _, n := range w.Nodes {
			a, c := n.Log.Counts()
			if a != c {
				return false
			}
		}
		return true
	}
	for i := 0; i < 1500; i++ { // up to about 30 s on a loaded machine; normally a few iterations
		w.PumpAll()
		if quiet() {
			time.Sleep(20 * time.Millisecond)
			if w.PumpAll() == 0 && quiet() {
				break
			}
		}
		time.Sleep(10 * time.Millisecond)
	}
	// churn sessions must all be gone by now
	gone := waitFor(func() bool {
		for _, n := range w.Nodes {
			if len(n.Local.ListSessions()) != 2 {
				return false
			}
		}
		return true
	}, 30*time.Second)
	// deliveries that a vanished session never acknowledged keep their identifier until their 3 s deadline has passed and the writer's
	// next sweep (once a second) has released it: "no identifier is still held" is claimed of the broker at rest, so give the sweeps the
	// time they are entitled to (vp check on a slower machine probed 6 identifiers too early).  A leak is still held after 20 s.
	waitFor(func() bool {
		for _, n := range w.Nodes {
			if len(wasp.VerifPoolOutstanding(n.Writer)) != 0 {
				return false
			}
		}
		return true
	}, 20*time.Second)
	w.PumpAll()
	f, _ := os.Create(*out)
	bw := bufio.NewWriter(f)
	emit := func(m map[string]interface{}) {
		b, _ := json.Marshal(m)
		bw.Write(b)
		bw.WriteByte('\n')
	}
	emit(map[string]interface{}{"op": "new", "scn": 1, "workers": *workers, "gone": gone})
	for _, s := range stables {
		emit(map[string]interface{}{"op": "stable", "c": s.cl.C, "s": fmt.Sprintf("s%d", s.cl.C), "n": s.n})
		seen := map[string]bool{}
		for _, p := range s.cl.Received() {
			if p.Type == mq.PUBLISH && !seen[string(p.Payload)] {
				seen[string(p.Payload)] = true
			}
		}
		got := []string{}
		for k := range seen {
			got = append(got, k)
		}
		sort.Strings(got)
		emit(map[string]interface{}{"op": "received", "c": s.cl.C, "ps": got})
	}
	sort.Strings(acked)
	emit(map[string]interface{}{"op": "acked", "ps": acked})
	for id, n := range w.Nodes {
		ss := []string{}
		for _, s := range n.State.SessionMetadatas().All() {
			ss = append(ss, s.SessionID)
		}
		us := []string{}
		for _, s := range n.State.Subscriptions().All() {
			us = append(us, s.SessionID+"|"+strings.TrimPrefix(string(s.Pattern), "_default/"))
		}
		local := []string{}
		for _, s := range n.Local.ListSessions() {
			local = append(local, s.ID())
		}
		held := wasp.VerifPoolOutstanding(n.Writer)
		sort.Strings(ss)
		sort.Strings(us)
		sort.Strings(local)
		if held == nil {
			held = []int32{}
		}
		emit(map[string]interface{}{"op": "probe", "n": id, "sessions": ss, "subs": us, "local": local, "held": held})
	}
	emit(map[string]interface{}{"op": "end", "published": npub})
	bw.Flush()
	f.Close()
	fmt.Fprintf(os.Stderr, "published=%d acked=%d connections=%d\n", npub, len(acked), nextConn-100)
}
