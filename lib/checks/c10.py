"""C10  A full-state exchange brings a lagging node up to date.

(M) Crdt.tla: PushDominates, Convergence, Lww with Push steps.
(G) CrdtGen: two nodes with independent histories (adds, deletes, bulk deletes), an arbitrary
    subset of the gossip delivered (the rest is lost), then full-state pushes in one or both
    directions chosen by TLC; python adds a push into a fresh third node and a final exchange
    in both directions.
(T) the driver performs MergeRemoteState(LocalState()) on the real states; CrdtTrace requires
    every probe after a push to list what LWW over (own updates + the sender's) implies.
"""
import vlib
from checks import crdtlib


def check(run):
    thorough = run.tier == "thorough"
    run.model_check("MC_Crdt", "MC_Crdt_c10.cfg")
    scns = []
    for mp in ("sess", "subs", "ret"):
        vals = crdtlib.MAPS[mp]["vals"]
        # exhaustive: up to 3 local ops over both nodes, no gossip at all, then pushes
        a = crdtlib.gen(run, "lost", mp, [1, 2], ["k1", "k2"], vals[:1], 3, 3, 0, 0, [1, 2], True)
        b = crdtlib.gen(run, "part", mp, [1, 2], ["k1", "k2", "k3"], vals[:1], 4, 8, 2, 2, [1, 2], True,
                        simulate="num=%d" % (800 if thorough else 40))
        if thorough:
            a += crdtlib.gen(run, "lost4", mp, [1, 2], ["k1", "k2"], vals[:1], 4, 4, 0, 0, [1, 2], False)
        for i, s in enumerate(a + b):
            tail = [{"op": "push", "from": 1, "to": 9}]                      # fresh node lists exactly what 1 lists
            if i % 3 == 0:
                tail += [{"op": "push", "from": 1, "to": 2}]                 # one direction only
            elif i % 3 == 1:
                tail += [{"op": "push", "from": 2, "to": 1}]
            tail += [{"op": "push", "from": 1, "to": 2}, {"op": "push", "from": 2, "to": 1}]   # both: identical listings
            # and once more into fresh nodes, now that both have served snapshots and learnt entries only by merging
            tail += [{"op": "push", "from": 1, "to": 8}, {"op": "push", "from": 2, "to": 7}]
            if i % 2 == 1:                                                   # every other scenario: the exchanges of a Join
                tail = [dict(o, join=True) for o in tail]
            s["ops"] = s["ops"] + tail
        scns += a + b
        run.log("%s: %d exhaustive (all gossip lost), %d simulated (partial gossip, TLC-chosen pushes)" % (mp, len(a), len(b)))
    tpath = crdtlib.execute(run, scns, "c10")
    v = vlib.Verdict(run)
    nev, validated, rejected, tstates = crdtlib.validate(run, "C10", scns, tpath, v)
    rc = v.finish()
    nontriv = sum(1 for s in scns if any(o["op"] in ("del", "delown", "delsess") for o in s["ops"]))
    vlib.write_evidence(run, {
        "traces_validated_against_impl": validated,
        "evaluations": nev,
        "distinct_nontrivial": nontriv,
        "rule": "scenario = TLC-generated pair of node histories (exhaustive 3 local ops with every broadcast lost; simulated depth 8 with "
                "<=2 deliveries and <=2 TLC-chosen pushes), followed by a push into a fresh node, a one-directional push and an exchange "
                "in both directions, and pushes of both nodes into further fresh nodes afterwards, probing every node after each step; non-trivial = the history contains a removal the peer has not seen",
        "scenarios": len(scns), "trace_spec_states": tstates, "rejections": len(rejected), "exhaustive": True,
        "samples": [scns[0]["ops"], scns[len(scns) // 2]["ops"], {"trace_excerpt": vlib.head_events(tpath, 5)}],
    }, ["a push is MergeRemoteState(peer.LocalState(join), join) on the real states, as memberlist's push/pull does; join = true (the exchanges of a Join) in every other scenario",
        "session identifiers are never re-created after removal"],
        violations=v.n_new)
    run.log("validated %d scenarios (%d events), %d rejected (%d known)" % (validated, nev, len(rejected), v.n_known))
    return rc


def replay(run, path):
    return crdtlib.replay(run, "C10", path)
