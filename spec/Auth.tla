-------------------------------- MODULE Auth --------------------------------
(* Credential stores (wasp/auth/file.go, static.go) and admission (wasp/conn.go) as  *)
(* C16 states them: a CONNECT is accepted exactly when user name and password match  *)
(* a configured entry - whichever entry and however many there are - and the session *)
(* is placed in that entry's mount point (the default one when none is given); a     *)
(* refused CONNECT creates nothing.                                                   *)
EXTENDS Integers, Sequences, FiniteSets, TLC
CONSTANTS Users, Passwords, Mounts
VARIABLES table,      \* set of [u, p, m]   (m = "" : no mount point given); user names unique
          sessions,   \* set of [u, mount]  sessions created so far
          replies     \* sequence of [u, p, code]
Default == "_default"
\* ---- pure definitions
Admit(T, u, p)   == \E e \in T : e.u = u /\ e.p = p
MountOf(T, u, p) == LET e == CHOOSE x \in T : x.u = u /\ x.p = p IN IF e.m = "" THEN Default ELSE e.m
UniqueUsers(T)   == \A a, b \in T : a.u = b.u => a = b
Tables == {T \in SUBSET [u : Users, p : Passwords, m : Mounts \cup {""}] : UniqueUsers(T)}
Init == table \in Tables /\ sessions = {} /\ replies = <<>>
Connect(u, p) ==
  /\ UNCHANGED table
  /\ IF Admit(table, u, p)
     THEN /\ sessions' = sessions \cup {[u |-> u, mount |-> MountOf(table, u, p)]}
          /\ replies' = Append(replies, [u |-> u, p |-> p, code |-> 0])
     ELSE /\ UNCHANGED sessions                                   \* nothing is created
          /\ replies' = Append(replies, [u |-> u, p |-> p, code |-> 5])
Next == \E u \in Users \cup {""}, p \in Passwords \cup {""} : Connect(u, p)
=============================================================================
