---------------------------- MODULE IdPoolTrace ----------------------------
(* Trace validation for C06: every recorded call on the real allocator must be a    *)
(* step of IdPool with the recorded result.  Traces are concatenated; "new" resets. *)
EXTENDS Integers, FiniteSets, Sequences, TLC, Json
VARIABLES l, out, min, max
P == INSTANCE IdPool WITH Min <- 0, Max <- 0      \* only the range-generic operators are used
Trace == ndJsonDeserialize("trace.ndjson")
Ev == Trace[l]
R == min..max
TInit == TLCSet(1, 0) /\ l = 1 /\ out = {} /\ min = 0 /\ max = 0
Step == /\ l <= Len(Trace) /\ l' = l + 1
        /\ \/ Ev.op = "new" /\ min' = Ev.min /\ max' = Ev.max /\ out' = {}
           \/ Ev.op = "get" /\ ~Ev.panic /\ P!GetOK(R, out, Ev.r) /\ out' = P!GetNew(R, out, Ev.r) /\ UNCHANGED <<min, max>>
           \/ Ev.op = "put" /\ ~Ev.panic /\ out' = P!PutNew(R, out, Ev.i) /\ UNCHANGED <<min, max>>
TSpec == TInit /\ [][Step]_<<l, out, min, max>>
InRange == out \subseteq R
HighWater == TLCSet(1, IF TLCGet(1) > l THEN TLCGet(1) ELSE l)
Accepted == IF TLCGet(1) - 1 = Len(Trace) THEN PrintT("TRACE_ACCEPTED")
            ELSE PrintT(<<"REJECTED_AT_LINE", TLCGet(1), Trace[TLCGet(1)]>>) /\ FALSE
=============================================================================
