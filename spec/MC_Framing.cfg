CONSTANTS Base = 2 Conn = {1, 2} Shared = FALSE Packets <- MCPackets
SPECIFICATION Spec
INVARIANTS Faithful Complete
CHECK_DEADLOCK FALSE
