------------------------------ MODULE Delivery ------------------------------
(* Outbound QoS 1/2 deliveries in the writer (wasp/writer.go sendQoS1, sendQoS2,      *)
(* completeQoS2, the expiry ticker) on top of the identifier pool and the in-flight   *)
(* table: C03, and the writer-level half of C06.                                       *)
(*   flows : (session, id) -> [m, q, phase]   live exchanges; phase "pub" awaits       *)
(*           PUBACK (q1) / PUBREC (q2), phase "rel" awaits PUBCOMP                     *)
(*   out   : identifiers handed out by the pool and not yet returned                   *)
(*   reg   : sessions registered on this node                                          *)
(*   wire  : session -> sequence of packets written to it (history)                    *)
(*   done  : set of (session, id, m) exchanges that completed or were abandoned        *)
(* Actions: Send (writer.send for a QoS>0 recipient), Resp (a packet of the client     *)
(* reaches ack.Queue.Ack), Fire (the entry's deadline passed at an expiry sweep),      *)
(* End (the session is unregistered).                                                  *)
EXTENDS Integers, FiniteSets, Sequences, TLC
CONSTANTS Sess, Msgs, MinId, MaxId, QoSOf     \* QoSOf \in [Msgs -> {1, 2}]
VARIABLES flows, out, reg, wire, done
vars == <<flows, out, reg, wire, done>>
P == INSTANCE IdPool WITH Min <- MinId, Max <- MaxId
Dom(f) == DOMAIN f
Range == MinId..MaxId
Init == flows = <<>> /\ out = {} /\ reg = Sess /\ wire = [s \in Sess |-> <<>>] /\ done = {}
Pkt(kind, id, m) == [kind |-> kind, id |-> id, m |-> m]
Write(s, pk) == wire' = [wire EXCEPT ![s] = Append(@, pk)]
\* a new delivery of message m to session s: fresh identifier, registered, written
Send(s, m) ==
  /\ s \in reg /\ ~(\E k \in Dom(flows) : k[1] = s /\ flows[k].m = m)
  /\ <<s, m>> \notin {<<d[1], d[3]>> : d \in done}            \* each message is a new delivery once per session
  /\ \E id \in Range : /\ P!GetOK(Range, out, id) /\ out' = P!GetNew(Range, out, id)
                       /\ flows' = (<<s, id>> :> [m |-> m, q |-> QoSOf[m], phase |-> "pub"]) @@ flows
                       /\ Write(s, Pkt("PUBLISH", id, m))
  /\ UNCHANGED <<reg, done>>
Drop(k) == [x \in Dom(flows) \ {k} |-> flows[x]]
Complete(k) == /\ flows' = Drop(k) /\ out' = P!PutNew(Range, out, k[2]) /\ done' = done \cup {<<k[1], k[2], flows[k].m>>}
\* a client packet reaches the in-flight table
Resp(s, id, kind) ==
  LET k == <<s, id>> IN
  IF k \in Dom(flows) /\ ((kind = "PUBACK" /\ flows[k].q = 1 /\ flows[k].phase = "pub") \/
                          (kind = "PUBCOMP" /\ flows[k].phase = "rel"))
  THEN Complete(k) /\ UNCHANGED <<reg, wire>>
  ELSE IF k \in Dom(flows) /\ kind = "PUBREC" /\ flows[k].q = 2 /\ flows[k].phase = "pub"
  THEN IF s \in reg
       THEN /\ flows' = [flows EXCEPT ![k].phase = "rel"] /\ Write(s, Pkt("PUBREL", id, flows[k].m)) /\ UNCHANGED <<out, reg, done>>
       ELSE Complete(k) /\ UNCHANGED <<reg, wire>>
  ELSE UNCHANGED vars                 \* unknown identifier or unexpected type: nothing changes
\* the deadline of a live exchange passed: send again with the same identifier, or give up if the session is gone
Fire(k) ==
  /\ k \in Dom(flows)
  /\ IF k[1] \in reg
     THEN /\ Write(k[1], Pkt(IF flows[k].phase = "pub" THEN "PUBLISH" ELSE "PUBREL", k[2], flows[k].m))
          /\ UNCHANGED <<flows, out, reg, done>>
     ELSE Complete(k) /\ UNCHANGED <<reg, wire>>
End(s) == s \in reg /\ reg' = reg \ {s} /\ UNCHANGED <<flows, out, wire, done>>
Next == \/ \E s \in Sess, m \in Msgs : Send(s, m)
        \/ \E s \in Sess, id \in Range, kind \in {"PUBACK", "PUBREC", "PUBCOMP"} : Resp(s, id, kind)
        \/ \E k \in Dom(flows) : Fire(k)
        \/ \E s \in Sess : End(s)
=============================================================================
