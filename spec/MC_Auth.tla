------------------------------- MODULE MC_Auth -------------------------------
EXTENDS Auth
Spec == Init /\ [][Next]_<<table, sessions, replies>>
Bound == Len(replies) <= 2
AdmitIffMatch == \A i \in 1..Len(replies) : (replies[i].code = 0) <=> Admit(table, replies[i].u, replies[i].p)
SessionsJustified == \A s \in sessions : \E e \in table : e.u = s.u /\ s.mount = (IF e.m = "" THEN Default ELSE e.m)
RefusedCreatesNothing == [][(Len(replies') > Len(replies) /\ replies'[Len(replies')].code # 0) => sessions' = sessions]_<<table, sessions, replies>>
=============================================================================
