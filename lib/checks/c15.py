"""C15  Message-log consumption survives crashes without skipping messages.

(M) MsgLog.tla model-checked with scaled constants (NoSkip, InOrder, ReplayBound, TruncSafe,
    NothingBehindBase) over every crash point; negative control: with Margin = 0 TLC must
    report TruncSafe violated (the model is not vacuous).
(G) MsgLogGen: every schedule of R kill points (phase x offset class); python maps classes to
    concrete offsets around 0, batch edges, segment edges, truncation edges and random ones.
(T) child processes run the real messages.Log / Consume / mmap'd state file and SIGKILL
    themselves inside the verif hooks; MsgLogTrace validates every recorded step with the
    code's constants, and the final quiescence (every appended entry handed over).
"""
import json
import os
import random

import vlib

CLASS_OFFS = {
    "first": [0, 1], "batch": [9, 10, 11], "seg": [499, 500, 501], "mid": None,
    "trunc1": [1999, 2000, 2001], "trunc2": [2999, 3000, 3001],
}


def classify(scn, line):
    e = scn[line - 1]
    prev = [x for x in scn[:line - 1] if x["op"] in ("kill", "start", "exit")]
    lastkill = next((x for x in reversed(scn[:line - 1]) if x["op"] == "kill"), None)
    if e["op"] == "start":
        return "state-file-%s-after-kill-at-%s" % ("wrong", lastkill["point"] if lastkill else "none")
    if e["op"] == "handed":
        st = next((x for x in reversed(scn[:line - 1]) if x["op"] == "start"), None)
        first = not any(x["op"] == "handed" for x in scn[scn.index(st):line - 1]) if st else False
        if not e.get("intact", True):
            return "entry-corrupted"
        return "restart-resumes-at-wrong-offset" if first else "offset-out-of-order"
    if e["op"] in ("stall", "harness-timeout", "openfail", "appendfail"):
        return "consumer-" + e["op"]
    if e["op"] == "end":
        return "entries-never-handed-over"
    return "step-" + e["op"]


def build(rng, sched, long_log):
    rounds = []
    length = 0
    lo = 0
    for k in sched:
        offs = CLASS_OFFS[k["cls"]]
        off = rng.choice(offs) if offs else rng.randint(lo + 1, lo + 120)
        off = max(off, lo + 1) if rounds else off
        need = off + rng.randint(5, 40) - length
        rd = {"append": max(need, 0), "kill": {"point": k["point"], "off": off}}
        length += rd["append"]
        if rng.random() < 0.3 and off > lo + 2:
            rd["at"] = {"off": off - 1, "n": rng.randint(1, 15)}
            length += rd["at"]["n"]
        rounds.append(rd)
        lo = off
    rounds.append({"append": rng.randint(1, 60), "at": {"off": lo + 1, "n": rng.randint(1, 30)}, "clean": True})
    return {"rounds": rounds}


def reread_family(run, v, thorough, prop="C15"):
    import subprocess
    from concurrent.futures import ThreadPoolExecutor
    drv = run.gobuild("reread", module="harness/gated")
    cases = [(b, h, a) for b in ((0, 1, 3, 12) if not thorough else (0, 1, 2, 3, 9, 10, 11, 12, 40))
             for h in (150, 250) for a in ((0, 2) if not thorough else (0, 1, 2, 15))]
    outs = {}

    def one(i):
        b, h, a = cases[i]
        p = subprocess.run([drv, "-before", str(b), "-hold", str(h), "-after", str(a), "-scn", str(i + 1)], stdout=subprocess.PIPE,
                           stderr=subprocess.PIPE, text=True, timeout=120, cwd=run.scratch)
        if p.returncode != 0:
            raise vlib.Inconclusive("reread driver exited %d: %s" % (p.returncode, p.stderr[-1500:]))
        outs[i] = p.stdout
    with ThreadPoolExecutor(max_workers=8) as ex:
        list(ex.map(one, range(len(cases))))
    tpath = os.path.join(run.scratch, "reread.ndjson")
    with open(tpath, "w") as f:
        for i in range(len(cases)):
            f.write(outs[i])
    nev, nscn = vlib.count_lines(tpath, '"op":"new"')
    validated, rejected, tstates = vlib.validate_scenarios(run, "MsgLogTrace", "MsgLogTrace.cfg", tpath, timeout=600, max_rejections=4)
    for rj in rejected:
        scn, line = rj["scenario"], rj["line"]
        e = scn[line - 1]
        sig = "held-append:" + ("entry-handed-over-under-a-wrong-offset" if e["op"] == "handed" and not e.get("intact", True) else
                                "entry-handed-over-again" if e["op"] == "handed" else classify(scn, line))
        v.add(sig, "an append held between the segment's record count and the log's offset for %d ms (%d entries consumed before, %d appended after): "
                   "step %s is not a step of MsgLog's consumer; recent steps: %s"
              % (scn[0].get("hold_ms", 0), scn[0].get("before", 0), scn[0].get("after", 0), json.dumps(e),
                 json.dumps([x for x in scn[max(0, line - 10):line] if x["op"] in ("append", "handed")])),
              {"kind": "reread", "case": [scn[0].get("before"), scn[0].get("hold_ms"), scn[0].get("after")], "trace_tail": scn[max(0, line - 30):line]})
    run.log("appends held between the counters: %d cases (%d events), %d rejected" % (len(cases), nev, len(rejected)))
    return {"cases": len(cases), "events": nev, "validated": validated, "rejections": len(rejected), "trace_spec_states": tstates,
            "rule": "the real messages.Log (Append, Consume, state file) on a copy of vx-labs/commitlog v1.2.4 whose only change is a gate between the two "
                    "counters an append advances; the append is held there for 150 / 250 ms (longer than one poll of the consumer) after 0-40 entries were "
                    "consumed, 0-15 more follow; MsgLogTrace.tla: every entry is handed over once, in order, under its own offset"}


def check(run):
    thorough = run.tier == "thorough"
    rng = random.Random(run.seed)
    run.model_check("MC_MsgLog", "MC_MsgLog.cfg")
    neg = run.tlc("MC_MsgLog", "MC_MsgLog_nomargin.cfg", allow_violation=True, name="negative-control:Margin=0")
    if "TruncSafe" not in neg.violated:
        raise vlib.Inconclusive("negative control failed: MsgLog with Margin = 0 does not violate TruncSafe")
    # the log's two counters and the cursor as coded (D28 / D27): faithful with the repaired Append, and the code as it was is the negative control
    run.model_check("MC_LogOffsets", "MC_LogOffsets.cfg")
    run.negative_control("MC_LogOffsets", "MC_LogOffsets_unguarded.cfg", "Faithful")
    scheds = []
    plans = [(2, ["first", "batch", "mid", "seg"])] if not thorough else \
            [(3, ["first", "batch", "mid", "seg"]), (2, ["seg", "mid", "trunc1"]), (2, ["trunc1", "mid", "trunc2"])]
    for i, (r, classes) in enumerate(plans):
        cfg = 'CONSTANTS R = %d Classes <- C%d\nSPECIFICATION Spec\nCHECK_DEADLOCK FALSE\n' % (r, i)
        with open(os.path.join(run.spec, "MsgLogGen.tla")) as f:
            src = f.read()
        if ("C%d ==" % i) not in src:
            src = src.replace("Init == x = 0", "C%d == <<%s>>\nInit == x = 0" % (i, ", ".join('"%s"' % c for c in classes)))
            with open(os.path.join(run.spec, "MsgLogGen.tla"), "w") as f:
                f.write(src)
        scheds += vlib.gen_behaviours(run, "MsgLogGen", "Gen_MsgLog_%d.cfg" % i, cfg, tag="SCHEDS")[0]
    if not thorough:
        rng.shuffle(scheds)
        scheds = scheds[:56]
        scheds += [[{"point": p, "cls": "trunc1"}] for p in ("incb", "cb.ret", "persisted", "truncated")]
    scns = [build(rng, s, thorough) for s in scheds]
    # a consumer that lags far behind: more than ten segments appended before anything is consumed - in one run, and with a
    # kill right at the start followed by a restart in front of the backlog.  Truncation must never get ahead of the consumer.
    scns.append({"rounds": [{"append": 5600, "clean": True}]})
    scns.append({"rounds": [{"append": 5600, "kill": {"point": "persisted", "off": 3}}, {"append": 7, "clean": True}]})
    if thorough:
        scns.append({"rounds": [{"append": 7300, "kill": {"point": "incb", "off": 2100}}, {"append": 600, "clean": True}]})
    # every third schedule, and the backlogs once more, run through wasp.SchedulePublishes (what cmd/wasp starts) with a writer that
    # records what is handed to it, instead of a bare Consume call
    for i, s_ in enumerate(scns):
        if i % 3 == 1:
            s_["sched"] = True
    # the process ends by itself in the middle of a backlog - a graceful stop, or the scheduler refusing a message - in its very first
    # run (the one that creates the state file) and in a later one; deferred clean-ups run, unlike after a kill
    for point in ("stop", "fail"):
        for off in (0, 3, 9, 10, 25):
            scns.append({"rounds": [{"append": 60, "kill": {"point": point, "off": off}}, {"append": 5, "clean": True}]})
        scns.append({"rounds": [{"append": 30, "kill": {"point": "persisted", "off": 12}}, {"append": 40, "kill": {"point": point, "off": 33}},
                                {"append": 5, "clean": True}]})
    scns.append({"sched": True, "rounds": [{"append": 5600, "clean": True}]})
    scns.append({"sched": True, "rounds": [{"append": 2600, "kill": {"point": "cb.ret", "off": 120}}, {"append": 40, "clean": True}]})
    # round 8: the log is offered a message it must refuse (beyond the 20 000 000 bytes one entry may hold) between ordinary appends: a
    # refused append is not an append - no offset is used up, what follows is handed over once and in order, also across a restart
    scns.append({"rounds": [{"append": 10, "refuse": True, "clean": True}]})
    scns.append({"rounds": [{"append": 0, "refuse": True, "clean": True}]})
    scns.append({"rounds": [{"append": 10, "refuse": True, "kill": {"point": "persisted", "off": 4}}, {"append": 5, "clean": True}]})
    scns.append({"rounds": [{"append": 3, "clean": True}, {"append": 4, "refuse": True, "clean": True}, {"append": 5, "clean": True}]})
    scns.append({"sched": True, "rounds": [{"append": 10, "refuse": True, "clean": True}]})
    spath = os.path.join(run.scratch, "scenarios.ndjson")
    with open(spath, "w") as f:
        for s in scns:
            f.write(json.dumps(s) + "\n")
    drv = run.gobuild("msglog")
    tpath = os.path.join(run.scratch, "msglog.ndjson")
    run.drive(drv, ["-scenarios", spath, "-out", tpath, "-jobs", "12"], timeout=3000)
    nev, nscn = vlib.count_lines(tpath, '"op":"new"')
    nkill, _ = vlib.count_lines(tpath)
    kills = sum(1 for ln in open(tpath) if '"op":"kill"' in ln)
    run.log("%d crash schedules (%d kills executed), recorded %d events" % (len(scns), kills, nev))
    validated, rejected, tstates = vlib.validate_scenarios(run, "MsgLogTrace", "MsgLogTrace.cfg", tpath, timeout=3000, max_rejections=4)
    v = vlib.Verdict(run)
    for rj in rejected:
        scn, line = rj["scenario"], rj["line"]
        e = scn[line - 1]
        if e["op"] in ("kill-not-reached", "child-output"):
            raise vlib.Inconclusive("harness problem in crash scenario: %s" % json.dumps(e))
        sig = classify(scn, line)
        idx = scn[0]["scn"] - 1
        ctx = [x for x in scn[max(0, line - 12):line] if x["op"] not in ("cb.ret", "truncated")]
        v.add(sig, "log consumer: step %s is not a step of MsgLog's consumer; recent steps: %s" % (json.dumps(e), json.dumps(ctx)),
              {"kind": "msglog", "scenario": scns[idx], "trace_tail": scn[max(0, line - 40):line]})
    # appends that race with the consumer at the end of the log (D27): a copy of the commit-log dependency with a scheduler gate
    # between the two counters an append advances; the held append must change nothing about what is handed over
    rr = reread_family(run, v, thorough)
    validated += rr["validated"]
    tstates += rr["trace_spec_states"]
    rc = v.finish()
    vlib.write_evidence(run, {
        "appends_held_between_counters": rr,
        "traces_validated_against_impl": validated,
        "evaluations": kills,
        "distinct_nontrivial": len(scns),
        "rule": "scenario = TLC-generated crash schedule (kill phase in {inside callback, after callback return, after offset write, after "
                "truncation check} x offset class in log order) mapped to concrete offsets around 0-1, 9-11, 499-501, 1999-2001, 2999-3001 "
                "and random ones, appends before and during consumption, closed by a clean run that must hand over every entry; plus backlogs of "
                "5600 entries (more than ten segments) appended before anything is consumed, with and without a kill and restart in front of them; a third of the schedules consumed through wasp.SchedulePublishes; "
                "evaluations = SIGKILLs executed; distinct = crash schedules",
        "events_validated": nev, "trace_spec_states": tstates, "rejections": len(rejected),
        "negative_control": "MC with Margin=0 violates TruncSafe as required",
        "samples": [scns[0], scns[-1], {"trace_excerpt": vlib.head_events(tpath, 8)}],
    }, ["'replays at most the message being processed' is read as: a restart re-hands the entry at the stored offset (the mechanism "
        "resumes inclusively) and whatever was in progress, nothing older (DESIGN.md 4.6)",
        "SIGKILL of the process, not power loss: the mmap'd state file is MAP_SHARED, its pages survive the process",
        "appends happen in the consumer process (before the consumer starts and from inside the callback)"],
        violations=v.n_new)
    run.log("validated %d crash scenarios, %d rejected (%d known)" % (validated, len(rejected), v.n_known))
    return rc


def replay(run, path):
    rp = json.load(open(path))
    if rp.get("kind") == "reread":
        import subprocess
        b, h, a = rp["case"]
        drv = run.gobuild("reread", module="harness/gated")
        p = subprocess.run([drv, "-before", str(b), "-hold", str(h), "-after", str(a)], stdout=subprocess.PIPE, text=True, timeout=120)
        tp = os.path.join(run.scratch, "reread.ndjson")
        with open(tp, "w") as f:
            f.write(p.stdout)
        ok, line, detail, _ = run.validate("MsgLogTrace", "MsgLogTrace.cfg", tp)
        print("replay: %s" % ("accepted (no violation)" if ok else "rejected at event %d" % line))
        if not ok:
            print("VIOLATION property=C15 replay=%s" % path)
        return 0 if ok else 1
    # round 8: the log is offered a message it must refuse (beyond the 20 000 000 bytes one entry may hold) between ordinary appends: a
    # refused append is not an append - no offset is used up, what follows is handed over once and in order, also across a restart
    scns.append({"rounds": [{"append": 10, "refuse": True, "clean": True}]})
    scns.append({"rounds": [{"append": 0, "refuse": True, "clean": True}]})
    scns.append({"rounds": [{"append": 10, "refuse": True, "kill": {"point": "persisted", "off": 4}}, {"append": 5, "clean": True}]})
    scns.append({"rounds": [{"append": 3, "clean": True}, {"append": 4, "refuse": True, "clean": True}, {"append": 5, "clean": True}]})
    scns.append({"sched": True, "rounds": [{"append": 10, "refuse": True, "clean": True}]})
    spath = os.path.join(run.scratch, "scenarios.ndjson")
    with open(spath, "w") as f:
        f.write(json.dumps(rp["scenario"]) + "\n")
    drv = run.gobuild("msglog")
    tpath = os.path.join(run.scratch, "msglog.ndjson")
    run.drive(drv, ["-scenarios", spath, "-out", tpath])
    events = vlib.load_events(tpath)
    ok, line, detail, _ = run.validate("MsgLogTrace", "MsgLogTrace.cfg", tpath)
    if ok:
        print("replay: accepted (no violation)")
        return 0
    print("replay: rejected at event %d: %s" % (line, json.dumps(events[line - 1])))
    if events[line - 1]["op"] in ("kill-not-reached", "child-output"):
        print("INCONCLUSIVE property=C15: the scenario's kill point was not reached (harness problem, not a defect)")
        return 2
    print("VIOLATION property=C15 replay=%s" % path)
    return 1
