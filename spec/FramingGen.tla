----------------------------- MODULE FramingGen -----------------------------
(* Delivery schedules for the broker driver: in which segments the network hands each connection's stream to the broker,  *)
(* and in which order across connections.  The decoders are eager (they read whatever has arrived before anything else   *)
(* happens - the driver waits for that), so a schedule is the sequence of [c, n]: "the next n bytes of c's stream".        *)
(* Segment ends are drawn from the classes that matter to a decoder: inside the fixed header / remaining length, at the   *)
(* start of the body, inside the body, at a packet boundary (Cuts(c) lists the byte offsets of these classes).            *)
EXTENDS Framing, TLC, Json
CONSTANTS Conn, Packets, MaxSeg
VARIABLES left, hist
Total(c) == Len(EncAll(Packets[c]))
RECURSIVE Starts(_, _)
Starts(ps, at) == IF ps = <<>> THEN <<>> ELSE <<at>> \o Starts(Tail(ps), at + Len(Enc(Head(ps))))
\* offsets (bytes already delivered) at which a segment may end
Cuts(c) == LET ps == Packets[c] st == Starts(ps, 0) IN
           UNION {LET h == 1 + Len(Digits(ps[i].len)) IN
                  {st[i] + 1, st[i] + h - 1, st[i] + h, st[i] + h + (ps[i].len \div 2), st[i] + h + ps[i].len} : i \in 1..Len(ps)}
           \cap 1..Total(c)
Init == left = [c \in Conn |-> Total(c)] /\ hist = <<>>
Done(c) == Total(c) - left[c]
Segs(c) == Cardinality({i \in 1..Len(hist) : hist[i].c = c})
Next == \E c \in Conn : \E e \in Cuts(c) :
           /\ e > Done(c)
           /\ (Segs(c) + 1 = MaxSeg => e = Total(c))                 \* the last allowed segment carries the rest
           /\ left' = [left EXCEPT ![c] = Total(c) - e]
           /\ hist' = Append(hist, [c |-> c, n |-> e - Done(c)])
GSpec == Init /\ [][Next]_<<left, hist>>
Dump == (\A c \in Conn : left[c] = 0) => PrintT(<<"BEHAV", ToJson(hist)>>)
\* the streams the broker driver realises: connection 1 (established) sends SUBSCRIBE, a PUBLISH with a two-byte remaining length, PINGREQ;
\* connection 2 sends a CONNECT with a two-byte remaining length and a SUBSCRIBE
GPackets == [c \in Conn |-> IF c = 1 THEN <<[ty |-> 8, len |-> 1], [ty |-> 3, len |-> 3], [ty |-> 12, len |-> 0]>>
                            ELSE <<[ty |-> 1, len |-> 2], [ty |-> 8, len |-> 1]>>]
=============================================================================
