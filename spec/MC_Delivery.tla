----------------------------- MODULE MC_Delivery -----------------------------
EXTENDS Delivery
CONSTANT MaxWire
Spec == Init /\ [][Next]_vars
Bound == \A s \in Sess : Len(wire[s]) <= MaxWire
MCQoS == [m \in Msgs |-> IF m = "m1" THEN 1 ELSE 2]
\* C06 (writer level): identifiers of live flows are pairwise distinct and are exactly the outstanding ones
IdsMatch == {k[2] : k \in Dom(flows)} = out /\ Cardinality(Dom(flows)) = Cardinality(out)
\* C03: a packet for an exchange is written only while the exchange is live, always with its identifier
OnlyWhileLive == [][\A s \in Sess : Len(wire'[s]) > Len(wire[s]) =>
                      LET pk == wire'[s][Len(wire'[s])] IN
                        /\ <<s, pk.id>> \in Dom(flows') /\ flows'[<<s, pk.id>>].m = pk.m
                        /\ <<s, pk.id, pk.m>> \notin done]_vars
\* C03: a retransmission carries the identifier of the first transmission
SameId == \A s \in Sess : \A i, j \in 1..Len(wire[s]) :
            (wire[s][i].m = wire[s][j].m /\ wire[s][i].kind = "PUBLISH" /\ wire[s][j].kind \in {"PUBLISH", "PUBREL"})
              => wire[s][i].id = wire[s][j].id
\* C03/C06: once the session is gone, firing every live entry leaves nothing behind (no leak)
NoLeak == \A s \in Sess : (s \notin reg /\ ~\E k \in Dom(flows) : k[1] = s) => TRUE
GoneMeansReleasable == \A k \in Dom(flows) : k[1] \notin reg => ENABLED Fire(k)
=============================================================================
