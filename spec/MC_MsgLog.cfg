CONSTANTS Seg = 4 Margin = 3 Thresh = 6 Period = 4 Batch = 2 QCap = 2 MaxLen = 13 MaxRuns = 3
SPECIFICATION Spec
INVARIANTS NoSkip InOrder ReplayBound TruncSafe NothingBehindBase
CHECK_DEADLOCK FALSE
