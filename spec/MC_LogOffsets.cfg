CONSTANTS Msgs = {"m1", "m2", "m3", "big1", "big2"} Big = {"big1", "big2"} Guard = TRUE MaxSteps = 8
SPECIFICATION Spec
INVARIANTS Faithful Aligned Drained
CHECK_DEADLOCK FALSE
