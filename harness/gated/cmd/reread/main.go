// An append that is held between the two counters it advances (the record count of the active segment and the offset of the
// log) for longer than one poll of the log consumer: the real messages.Log.Consume on top of a copy of vx-labs/commitlog
// v1.2.4 whose only change is a scheduler gate at that point.  In production the window is a few instructions wide - a
// goroutine descheduled there on a busy machine is enough (it was first seen by the C17 thorough tier on a loaded machine).
// Output: the events MsgLogTrace.tla validates (new / start / append / handed / cb.ret / persisted / truncated / exit / end).
package main

import (
	"context"
	"encoding/json"
	"flag"
	"fmt"
	"io/ioutil"
	"os"
	"sync"
	"time"

	"github.com/vx-labs/commitlog"
	"github.com/vx-labs/mqtt-protocol/packet"
	"github.com/vx-labs/wasp/v4/wasp/messages"
)

func main() {
	before := flag.Int("before", 3, "messages appended and consumed before the held append")
	hold := flag.Int("hold", 250, "milliseconds the append is held between the counters")
	after := flag.Int("after", 2, "messages appended after it")
	scn := flag.Int("scn", 1, "")
	flag.Parse()
	dir, _ := ioutil.TempDir("", "reread-")
	defer os.RemoveAll(dir)
	log, err := messages.New(dir)
	if err != nil {
		panic(err)
	}
	var mu sync.Mutex
	enc := json.NewEncoder(os.Stdout)
	emit := func(m map[string]interface{}) { mu.Lock(); enc.Encode(m); mu.Unlock() }
	emit(map[string]interface{}{"op": "new", "scn": *scn, "before": *before, "hold_ms": *hold, "after": *after})
	emit(map[string]interface{}{"op": "start", "run": 1, "persisted": 0})
	handed := 0
	messages.VerifHook = func(point string, off uint64) {
		emit(map[string]interface{}{"op": point[len("consume."):], "off": off})
	}
	ctx, cancel := context.WithCancel(context.Background())
	done := make(chan struct{})
	go func() {
		log.Consume(ctx, "publish_distributor", func(off uint64, p *packet.Publish) error {
			emit(map[string]interface{}{"op": "handed", "off": off, "intact": string(p.Payload) == fmt.Sprintf("m%d", off)})
			mu.Lock()
			handed++
			mu.Unlock()
			return nil
		})
		close(done)
	}()
	wait := func(n int) {
		end := time.Now().Add(3 * time.Second)
		for time.Now().Before(end) {
			mu.Lock()
			h := handed
			mu.Unlock()
			if h >= n {
				return
			}
			time.Sleep(2 * time.Millisecond)
		}
	}
	k := 0
	app := func() {
		emit(map[string]interface{}{"op": "append", "n": 1})
		log.Append(&packet.Publish{Header: &packet.Header{}, Topic: []byte("t"), Payload: []byte(fmt.Sprintf("m%d", k))})
		k++
	}
	for i := 0; i < *before; i++ {
		app()
	}
	wait(*before)
	var once sync.Once
	commitlog.Gate = func(point string) {
		once.Do(func() { time.Sleep(time.Duration(*hold) * time.Millisecond) })
	}
	app() // held between the counters
	for i := 0; i < *after; i++ {
		app()
	}
	wait(k)
	time.Sleep(300 * time.Millisecond) // three more polls: whatever is handed over again shows up
	cancel()
	<-done
	log.Close()
	emit(map[string]interface{}{"op": "exit", "run": 1, "err": ""})
	emit(map[string]interface{}{"op": "end", "len": k})
}
