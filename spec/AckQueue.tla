------------------------------ MODULE AckQueue ------------------------------
(* The in-flight table (wasp/ack/queue.go + wasp/expiration) as C04 sees it.        *)
(*   entries : (session, id, direction) -> [expect, d, tag]   exchanges awaiting a   *)
(*             packet; client and broker choose packet identifiers independently, so *)
(*             an exchange opened by the client (PUBREC stored, PUBREL awaited) and  *)
(*             one opened by the broker may carry the same identifier                 *)
(*   outcome : tag -> "acked" | "expired"          history: how each one ended       *)
(* One action per call of the Queue interface.  Times are milliseconds.             *)
(* Sweep window ("deadlines are honoured to the second"): a sweep at time now MUST  *)
(* fire every entry with now >= d + Sec, MUST NOT fire one with now <= d - Sec and  *)
(* MAY do either in between (the code rounds deadlines to whole seconds).           *)
(* The transition relation is given as operators over an explicit table `en` so     *)
(* that AckQueueTrace, Delivery and Inbound apply the same definitions.             *)
EXTENDS Integers, FiniteSets, Sequences, TLC
CONSTANTS Sess, Ids, Deadlines, Sweeps, Sec
VARIABLES entries, outcome, ntag
vars == <<entries, outcome, ntag>>
Kinds    == {"pub1", "pub2", "pubrec", "pubrel"}     \* what is registered: PUBLISH q1/q2, PUBREC, PUBREL
BadKinds == {"pub0"}                                 \* rejected registrations (QoS 0 publish)
AckTypes == {"PUBACK", "PUBREC", "PUBREL", "PUBCOMP"}
Expect(kind) == CASE kind = "pub1" -> "PUBACK" [] kind = "pub2" -> "PUBREC"
                  [] kind = "pubrec" -> "PUBREL" [] kind = "pubrel" -> "PUBCOMP"
Dom(f) == DOMAIN f
DirOfKind(kind) == IF kind = "pubrec" THEN "in" ELSE "out"        \* which side opened the exchange
DirOfAck(ty)    == IF ty = "PUBREL" THEN "in" ELSE "out"          \* which exchange a received packet addresses
FK(k, kind)     == <<k[1], k[2], DirOfKind(kind)>>
AK(k, ty)       == <<k[1], k[2], DirOfAck(ty)>>
\* ---- transition relation on an explicit table
Registrable(k, kind) == k[2] # 0 /\ kind \in Kinds            \* id 0 and QoS 0 are refused
InsertOK(en, k, kind) == Registrable(k, kind) /\ FK(k, kind) \notin Dom(en)
InsertNew(en, k, kind, d, tag) == (FK(k, kind) :> [expect |-> Expect(kind), d |-> d, tag |-> tag]) @@ en
AckOK(en, k, ty) == AK(k, ty) \in Dom(en) /\ en[AK(k, ty)].expect = ty
Drop(en, K) == [x \in Dom(en) \ K |-> en[x]]
Must(en, now) == {k \in Dom(en) : now >= en[k].d + Sec}
May(en, now)  == {k \in Dom(en) : now > en[k].d - Sec}
SweepOK(en, now, F) == Must(en, now) \subseteq F /\ F \subseteq May(en, now)
\* ---- actions
Keys == Sess \X Ids
Init == entries = <<>> /\ outcome = <<>> /\ ntag = 1
Insert(k, kind, d) ==
  /\ IF InsertOK(entries, k, kind)
     THEN entries' = InsertNew(entries, k, kind, d, ntag) /\ ntag' = ntag + 1
     ELSE UNCHANGED <<entries, ntag>>                \* duplicate / refused: existing entry untouched
  /\ UNCHANGED outcome
Ack(k, ty) ==
  /\ IF AckOK(entries, k, ty)
     THEN entries' = Drop(entries, {AK(k, ty)}) /\ outcome' = (entries[AK(k, ty)].tag :> "acked") @@ outcome
     ELSE UNCHANGED <<entries, outcome>>             \* unknown id or wrong type: nothing changes
  /\ UNCHANGED ntag
Sweep(now, F) ==
  /\ SweepOK(entries, now, F)
  /\ entries' = Drop(entries, F)
  /\ outcome' = [t \in {entries[k].tag : k \in F} |-> "expired"] @@ outcome
  /\ UNCHANGED ntag
Next == \/ \E k \in Keys, kind \in Kinds \cup BadKinds, d \in Deadlines : Insert(k, kind, d)
        \/ \E k \in Keys, ty \in AckTypes : Ack(k, ty)
        \/ \E now \in Sweeps : \E F \in SUBSET Dom(entries) : Sweep(now, F)
=============================================================================
