----------------------------- MODULE TopicStore -----------------------------
(* What C19 says both topic-keyed stores are: a map from full topic strings to       *)
(* values.  Writing, replacing or removing one key changes that key only - also      *)
(* when one key is a prefix of another; Count and Iterate report exactly the         *)
(* non-empty entries; a store rebuilt from a dump answers identically and keeps      *)
(* accepting updates.  Keys are indices into a key list fixed per run.               *)
EXTENDS Integers, Sequences, FiniteSets, TLC
CONSTANTS K, Vals
VARIABLES store, snap
None == ""
NoSnap == <<"nosnap">>
Keys == 1..K
\* ---- transition relation on explicit maps
WriteNew(st, k, v) == [st EXCEPT ![k] = v]
RemoveNew(st, k)   == [st EXCEPT ![k] = None]
CountOf(st)        == Cardinality({k \in DOMAIN st : st[k] # None})
Init == store = [k \in Keys |-> None] /\ snap = NoSnap
Write(k, v) == store' = WriteNew(store, k, v) /\ UNCHANGED snap
Remove(k)   == store' = RemoveNew(store, k) /\ UNCHANGED snap
Dump        == snap' = store /\ UNCHANGED store
Load        == snap # NoSnap /\ store' = snap /\ UNCHANGED snap      \* replaces, never merges
Next == (\E k \in Keys : (\E v \in Vals : Write(k, v)) \/ Remove(k)) \/ Dump \/ Load
=============================================================================
