package commitlog

import (
	"errors"
	"fmt"
	"io"
	"os"
	"path"
	"sort"
	"sync"
)

var (
	ErrSegmentAlreadyExists = errors.New("segment already exists")
	ErrSegmentDoesNotExist  = errors.New("segment does not exist")
	ErrSegmentFull          = errors.New("segment is full")
	ErrSegmentCorrupt       = errors.New("segment corrupted")
	ErrCorruptedEntry       = errors.New("entry corrupted")
)

type Segment interface {
	Name() string
	BaseOffset() uint64
	CurrentOffset() uint64
	Size() uint64
	Delete() error
	WriteEntry(ts uint64, buf []byte) (uint64, error)
	Earliest() uint64
	Latest() uint64
	LookupTimestamp(ts uint64) uint64
	LookupPosition(offset uint64) (int64, error)
	TruncateAfter(offset uint64) error
	io.ReaderAt
	io.Closer
}

type segment struct {
	mtx             sync.Mutex
	baseOffset      uint64
	currentOffset   uint64
	currentPosition uint64
	fd              *os.File
	offsetIndex     Index
	timestampIndex  Index
	maxRecordCount  uint64
	datadir         string
}

func segmentName(datadir string, id uint64) string {
	return path.Join(datadir, fmt.Sprintf("%d.log", id))
}

func (s *segment) Close() error {
	err := s.offsetIndex.Close()
	if err != nil {
		return err
	}
	err = s.timestampIndex.Close()
	if err != nil {
		return err
	}
	return s.fd.Close()
}

func deleteSegment(datadir string, id uint64) error {
	err := os.Remove(segmentName(datadir, id))
	if err != nil {
		return err
	}
	err = os.Remove(indexName(datadir, "offsets", id))
	if err != nil {
		return err
	}
	err = os.Remove(indexName(datadir, "timestamps", id))
	if err != nil {
		return err
	}
	return nil
}

func (s *segment) Delete() error {
	s.Close()
	return deleteSegment(s.datadir, s.baseOffset)
}

func (i *segment) BaseOffset() uint64 {
	return i.baseOffset
}
func (i *segment) CurrentOffset() uint64 {
	return i.currentOffset
}
func (i *segment) Size() uint64 {
	return i.currentPosition
}
func (i *segment) Name() string {
	return i.fd.Name()
}
func (i *segment) LookupPosition(offset uint64) (int64, error) {
	i.mtx.Lock()
	defer i.mtx.Unlock()
	if uint64(offset) < i.baseOffset {
		return 0, nil
	}
	relOffset := uint64(offset) - i.baseOffset
	if relOffset >= i.maxRecordCount {
		return int64(i.currentPosition), nil
	}
	fileOffset, err := i.offsetIndex.readPosition(relOffset)
	if err != nil {
		return 0, err
	}
	return int64(fileOffset), nil
}
func (i *segment) WriteTo(w io.Writer) (n int64, err error) {
	i.mtx.Lock()
	defer i.mtx.Unlock()
	return io.Copy(w, i.fd)
}

func createSegment(datadir string, id uint64, maxRecordCount uint64) (Segment, error) {
	filename := segmentName(datadir, id)
	if fileExists(filename) {
		return nil, ErrSegmentAlreadyExists
	}
	idx, err := createIndex(datadir, "offsets", id, maxRecordCount)
	if err != nil {
		return nil, err
	}
	tidx, err := createIndex(datadir, "timestamps", id, maxRecordCount)
	if err != nil {
		return nil, err
	}

	fd, err := os.OpenFile(filename, os.O_RDWR|os.O_CREATE|os.O_TRUNC, 0650)
	if err != nil {
		return nil, err
	}
	s := &segment{
		datadir:        datadir,
		baseOffset:     id,
		currentOffset:  0,
		maxRecordCount: maxRecordCount,
		offsetIndex:    idx,
		timestampIndex: tidx,
		fd:             fd,
	}
	return s, nil
}

func openSegment(datadir string, id uint64, maxRecordCount uint64, write bool) (Segment, error) {
	filename := segmentName(datadir, id)
	if !fileExists(filename) {
		return nil, ErrSegmentDoesNotExist
	}
	idx, err := openIndex(datadir, "offsets", id, maxRecordCount)
	if err != nil {
		return nil, err
	}
	tidx, err := openIndex(datadir, "timestamps", id, maxRecordCount)
	if err != nil {
		return nil, err
	}
	perm := os.O_RDONLY
	if write {
		perm = os.O_RDWR
	}
	fd, err := os.OpenFile(filename, perm, 0650)
	if err != nil {
		return nil, err
	}
	position, err := fd.Seek(0, io.SeekEnd)
	if err != nil {
		return nil, err
	}
	offset, err := checkSegmentIntegrity(fd, maxRecordCount)
	if err != nil {
		return nil, err
	}
	s := &segment{
		datadir:         datadir,
		baseOffset:      id,
		currentOffset:   offset,
		currentPosition: uint64(position),
		maxRecordCount:  maxRecordCount,
		offsetIndex:     idx,
		timestampIndex:  tidx,
		fd:              fd,
	}
	return s, nil
}

func checkSegmentIntegrity(r io.ReadSeeker, maxRecordCount uint64) (uint64, error) {
	_, err := r.Seek(0, io.SeekStart)
	if err != nil {
		return 0, ErrSegmentCorrupt
	}
	buf := make([]byte, EntryHeaderSize)
	var offset uint64
	for offset = 0; offset < maxRecordCount; offset++ {
		n, err := r.Read(buf)
		if err == io.EOF {
			return offset, nil
		}
		if n != EntryHeaderSize {
			return offset, ErrSegmentCorrupt
		}
		_, err = r.Seek(int64(encoding.Uint64(buf[0:8])), io.SeekCurrent)
		if err != nil {
			return offset, ErrSegmentCorrupt
		}
	}
	return offset, nil
}

func (e *segment) LookupTimestamp(ts uint64) uint64 {
	e.mtx.Lock()
	defer e.mtx.Unlock()

	idx := sort.Search(int(e.CurrentOffset()), func(i int) bool {
		n, err := e.timestampIndex.readPosition(uint64(i))
		if err != nil {
			return false
		}
		return uint64(n) >= ts
	})
	return uint64(idx) + e.baseOffset
}
func (e *segment) Earliest() uint64 {
	n, err := e.timestampIndex.readPosition(0)
	if err != nil {
		return 0
	}
	return n
}
func (e *segment) latest() uint64 {
	if e.CurrentOffset() == 0 {
		return 0
	}
	n, err := e.timestampIndex.readPosition(e.CurrentOffset() - 1)
	if err != nil {
		return 0
	}
	return n + e.baseOffset
}
func (e *segment) Latest() uint64 {
	e.mtx.Lock()
	defer e.mtx.Unlock()
	return e.latest()
}
func (e *segment) ReadAt(p []byte, pos int64) (int, error) {
	e.mtx.Lock()
	defer e.mtx.Unlock()
	return e.fd.ReadAt(p, pos)
}

func (e *segment) WriteEntry(ts uint64, value []byte) (uint64, error) {
	e.mtx.Lock()
	defer e.mtx.Unlock()
	if e.currentOffset >= e.maxRecordCount {
		return 0, ErrSegmentFull
	}
	entry := newEntry(ts, e.baseOffset+e.currentOffset, value)
	n, err := writeEntry(entry, e.fd)
	if err != nil {
		return 0, err
	}
	err = e.offsetIndex.writePosition(e.currentOffset, e.currentPosition)
	if err != nil {
		// Index update failed: return an error and do not update write cursor
		return 0, err
	}
	err = e.timestampIndex.writePosition(e.currentOffset, ts)
	if err != nil {
		// Index update failed: return an error and do not update write cursor
		return 0, err
	}
	writtenOffset := e.currentOffset
	e.currentOffset++
	e.currentPosition += uint64(n)
	return writtenOffset, nil
}

// Truncate the segment *after* the given offset. You must ensure no one is reading this segment before truncating it.
func (e *segment) TruncateAfter(offset uint64) error {
	e.mtx.Lock()
	defer e.mtx.Unlock()
	if e.currentOffset < offset {
		return nil
	}
	delta := e.currentOffset - offset
	e.currentOffset = offset + 1
	newPosition, err := e.offsetIndex.readPosition(e.currentOffset)
	if err != nil {
		return err
	}
	e.currentPosition = newPosition
	e.fd.Seek(io.SeekStart, int(newPosition))
	var i uint64
	for i = 0; i < delta; i++ {
		err := e.offsetIndex.writePosition(e.currentOffset+i, 0)
		if err != nil {
			// Index update failed: return an error and do not update write cursor
			return err
		}
		err = e.timestampIndex.writePosition(e.currentOffset+i, 0)
		if err != nil {
			// Index update failed: return an error and do not update write cursor
			return err
		}
	}
	err = e.fd.Truncate(int64(newPosition))
	if err != nil {
		return err
	}
	return e.fd.Sync()
}
