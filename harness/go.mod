module verifharness

go 1.14

require (
	github.com/golang/protobuf v1.4.3
	github.com/hashicorp/memberlist v0.2.2
	github.com/vx-labs/mqtt-protocol v5.1.1+incompatible
	github.com/vx-labs/wasp/v4 v4.0.0
)

replace github.com/vx-labs/wasp/v4 => /repo
