CONSTANTS RTopics <- MCTopics RFilters <- MCFilters Payloads = {"p1", "p2"}
SPECIFICATION Spec
INVARIANTS OnlyNonEmpty ReplayIsMatch
PROPERTY OneTopicAtATime
CHECK_DEADLOCK FALSE
