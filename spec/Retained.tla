------------------------------ MODULE Retained ------------------------------
(* Retained messages as C07 states them: per topic the last non-empty retained       *)
(* publish; an empty retained publish clears the topic; a new subscription with      *)
(* filter f is sent, flagged as retained, exactly one message per retained topic     *)
(* that f matches; state of one topic is unaffected by operations on another.        *)
EXTENDS Topics
CONSTANTS RTopics, Payloads
VARIABLES ret            \* partial function topic -> payload
\* ---- transition relation on an explicit map
SetNew(r, t, p)  == (t :> p) @@ r
ClearNew(r, t)   == [x \in (DOMAIN r) \ {t} |-> r[x]]
PublishNew(r, t, p) == IF p = "" THEN ClearNew(r, t) ELSE SetNew(r, t, p)     \* what a retained PUBLISH does
Replay(r, f)     == {<<t, r[t]>> : t \in {x \in DOMAIN r : Matches(f, x)}}
Init == ret = <<>>
PublishRetained(t, p) == ret' = PublishNew(ret, t, p)
Next == \E t \in RTopics, p \in Payloads \cup {""} : PublishRetained(t, p)
=============================================================================
