package commitlog

import (
	"bytes"
	"errors"
	"hash/crc32"
	"io"
)

var (
	ErrInvalidBufferSize        = errors.New("invalid buffer size")
	ErrEntryTooBig              = errors.New("entry is too big")
	MaxEntrySize         uint64 = 20000000
)

const (
	checksumSize    int = 4
	EntryHeaderSize int = 8 + 8 + 8 + checksumSize
)

type Entry interface {
	Size() uint64
	Offset() uint64
	Timestamp() uint64
	Checksum() []byte
	Payload() []byte
	IsValid() bool
}

type entry struct {
	payloadSize uint64
	offset      uint64
	timestamp   uint64
	checksum    []byte
	payload     []byte
}

func hash(b []byte) []byte {
	crc := crc32.NewIEEE()
	crc.Write(b)
	return crc.Sum(nil)
}

func (e entry) Size() uint64      { return e.payloadSize }
func (e entry) Offset() uint64    { return e.offset }
func (e entry) Timestamp() uint64 { return e.timestamp }
func (e entry) Payload() []byte   { return e.payload }
func (e entry) Checksum() []byte  { return e.checksum }
func (e entry) IsValid() bool     { return bytes.Equal(hash(e.payload), e.checksum) }

func newEntry(ts uint64, offset uint64, payload []byte) Entry {
	return entry{
		payloadSize: uint64(len(payload)),
		offset:      offset,
		timestamp:   ts,
		checksum:    hash(payload),
		payload:     payload,
	}
}
func readEntry(r io.Reader, buf []byte) (Entry, error) {
	if len(buf) != EntryHeaderSize {
		return nil, ErrInvalidBufferSize
	}
	_, err := io.ReadFull(r, buf)
	if err != nil {
		return nil, err
	}
	payloadSize := encoding.Uint64(buf[0:8])
	if payloadSize > MaxEntrySize {
		return nil, ErrEntryTooBig
	}
	bodyBuf := make([]byte, payloadSize+uint64(EntryHeaderSize))
	copy(bodyBuf[0:EntryHeaderSize], buf)
	_, err = io.ReadFull(r, bodyBuf[EntryHeaderSize:])
	if err != nil {
		return nil, err
	}
	return decodeEntry(bodyBuf)
}

func decodeEntry(buf []byte) (Entry, error) {
	e := &entry{
		payloadSize: encoding.Uint64(buf[0:8]),
		offset:      encoding.Uint64(buf[8:16]),
		timestamp:   encoding.Uint64(buf[16:24]),
		checksum:    buf[24 : 24+checksumSize],
		payload:     buf[24+checksumSize:],
	}
	return e, nil
}
func writeEntry(e Entry, w io.Writer) (int, error) {
	if e.Size() > MaxEntrySize {
		return 0, ErrEntryTooBig
	}
	buf := make([]byte, EntryHeaderSize+int(e.Size()))
	encoding.PutUint64(buf[0:8], e.Size())
	encoding.PutUint64(buf[8:16], e.Offset())
	encoding.PutUint64(buf[16:24], e.Timestamp())
	copy(buf[24:28], e.Checksum())
	copy(buf[28:], e.Payload())
	return w.Write(buf)
}
