--------------------------- MODULE TransportTrace ---------------------------
(* What clients may rely on at the broker's real listeners (TCP, TLS, WebSocket, WebSocket over TLS); recorded by the     *)
(* transport driver, one broker process per scenario.  The MQTT-level rules are BrokerTrace's; here the question is only  *)
(* whether the transports carry the same byte stream to and from the same broker:                                         *)
(*   Served    every step a well-behaved client is entitled to (marked "must") succeeded: admitted, acknowledged,         *)
(*             delivered once and intact, answered after a pause - whatever the framing of the stream in messages         *)
(*   Survives  after every hostile peer (and every scenario) a fresh witness completes connect / subscribe / QoS 1        *)
(*             publish to itself / receive, over the same transport and over TCP                              (C18)       *)
(*   Alive     the broker process did not die: a scenario ends with "end", never with "process.died"          (C18)       *)
EXTENDS Integers, Sequences, TLC, Json
VARIABLES l, open, owed
Trace == ndJsonDeserialize("trace.ndjson")
Ev == Trace[l]
vars == <<l, open, owed>>

TInit == TLCSet(1, 0) /\ l = 1 /\ open = FALSE /\ owed = 0

\* owed: hostile peers not yet followed by a successful witness trip
New     == Ev.op = "new" /\ ~open /\ open' = TRUE /\ owed' = 0
StepOk  == Ev.op = "step" /\ open /\ (Ev.must => Ev.ok) /\ UNCHANGED <<open, owed>>
Hostile == Ev.op = "hostile" /\ open /\ owed' = owed + 1 /\ UNCHANGED open
Witness == Ev.op = "witness" /\ open /\ Ev.ok /\ owed' = 0 /\ UNCHANGED open
Note    == Ev.op = "note" /\ open /\ UNCHANGED <<open, owed>>
End     == Ev.op = "end" /\ open /\ owed = 0 /\ open' = FALSE /\ UNCHANGED owed
\* "process.died" has no action: it is never accepted

Step == l <= Len(Trace) /\ l' = l + 1 /\ (New \/ StepOk \/ Hostile \/ Witness \/ Note \/ End)
TSpec == TInit /\ [][Step]_vars
HighWater == TLCSet(1, IF TLCGet(1) > l THEN TLCGet(1) ELSE l)
Accepted == IF TLCGet(1) - 1 = Len(Trace) /\ (Len(Trace) > 0 => Trace[Len(Trace)].op = "end")
            THEN PrintT("TRACE_ACCEPTED")
            ELSE PrintT(<<"REJECTED_AT_LINE", TLCGet(1), Trace[IF TLCGet(1) <= Len(Trace) THEN TLCGet(1) ELSE Len(Trace)]>>) /\ FALSE
=============================================================================
