// Package rec is the trace recorder: one mutex, one global sequence, NDJSON out.
package rec

import (
	"bufio"
	"encoding/json"
	"io"
	"sync"
)

type Ev map[string]interface{}

type Recorder struct {
	AutoFlush bool      // flush after every event (so that a trace survives a crash of the process)
	parent    *Recorder // a child forwards to its parent until it is switched off
	off       bool
	mu        sync.Mutex
	w         *bufio.Writer
	seq       int
	mem       []Ev
	keep      bool
}

func New(w io.Writer) *Recorder { return &Recorder{w: bufio.NewWriterSize(w, 1<<20)} }

// NewMem keeps events in memory (Events()) instead of writing them.
func NewMem() *Recorder { return &Recorder{keep: true} }

// Child returns a recorder that forwards to r until Off is called: one per scenario, so that
// goroutines of a finished scenario cannot write into the trace of the next one.
func (r *Recorder) Child() *Recorder { return &Recorder{parent: r} }

// Off makes a child recorder drop everything from now on.
func (r *Recorder) Off() {
	p := r.parent
	if p == nil {
		return
	}
	p.mu.Lock()
	r.off = true
	p.mu.Unlock()
}

func (r *Recorder) Emit(e Ev) {
	if r.parent != nil {
		r.parent.Do(func() Ev {
			if r.off {
				return nil
			}
			return e
		})
		return
	}
	r.mu.Lock()
	defer r.mu.Unlock()
	r.seq++
	if r.keep {
		r.mem = append(r.mem, e)
		return
	}
	b, err := json.Marshal(e)
	if err != nil {
		panic(err)
	}
	r.w.Write(b)
	r.w.WriteByte('\n')
	if r.AutoFlush {
		r.w.Flush()
	}
}

// Do runs f under the recorder lock and emits its event: for linearization points.
func (r *Recorder) Do(f func() Ev) {
	if r.parent != nil {
		r.parent.Do(func() Ev {
			if r.off {
				return nil
			}
			return f()
		})
		return
	}
	r.mu.Lock()
	defer r.mu.Unlock()
	e := f()
	if e == nil {
		return
	}
	r.seq++
	if r.keep {
		r.mem = append(r.mem, e)
		return
	}
	b, _ := json.Marshal(e)
	r.w.Write(b)
	r.w.WriteByte('\n')
	if r.AutoFlush {
		r.w.Flush()
	}
}

func (r *Recorder) Events() []Ev {
	r.mu.Lock()
	defer r.mu.Unlock()
	out := make([]Ev, len(r.mem))
	copy(out, r.mem)
	return out
}

func (r *Recorder) Flush() {
	r.mu.Lock()
	defer r.mu.Unlock()
	if r.w != nil {
		r.w.Flush()
	}
}
