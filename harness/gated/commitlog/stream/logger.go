package stream

import (
	"context"
	"time"

	"go.uber.org/zap"
)

type LatenessEstimator interface {
	Latest() uint64
}

func PerformanceLogger(latenessEstimator LatenessEstimator, logger *zap.Logger, processor Processor) Processor {
	return func(ctx context.Context, batch Batch) error {
		if len(batch.Records) > 0 {
			start := time.Now()
			err := processor(ctx, batch)
			l := logger.With(zap.Int("batch_size", len(batch.Records)),
				zap.Duration("batch_processing_time", time.Since(start)),
				zap.Duration("processor_lateness", time.Duration(latenessEstimator.Latest()-batch.LastTimestamp)))

			if err == nil {
				l.Info("stream processed")
			} else {
				l.Error("stream processing failed", zap.Error(err))
			}
			return err
		}
		return nil
	}
}
