--------------------------------- MODULE Lin ---------------------------------
(* Linearizability of recorded concurrent histories (C20).  A history is a list of    *)
(* operations, each with the global sequence numbers of its call and its return, its   *)
(* arguments and its result.  It is accepted iff some total order consistent with     *)
(* real-time precedence (an operation that returned before another was called comes    *)
(* first) is a behaviour of the sequential specification of the object:                *)
(*   "idpool"   IdPool.tla      "ackq"  AckQueue.tla                                   *)
(*   "registry" a map id -> value with Create (returns previous), Get, Delete          *)
(*   "store"    TopicStore.tla  (write / remove / exact lookup)                        *)
(* TLC searches the orders; the high-water mark of the history index tells how far it  *)
(* got.  Histories are concatenated in one file.                                       *)
EXTENDS Integers, FiniteSets, Sequences, TLC, Json
VARIABLES h, done, st
P == INSTANCE IdPool WITH Min <- 0, Max <- 0, out <- {}
Q == INSTANCE AckQueue WITH Sess <- {}, Ids <- {}, Deadlines <- {}, Sweeps <- {}, Sec <- 1000, entries <- <<>>, outcome <- <<>>, ntag <- 0
Hist == ndJsonDeserialize("trace.ndjson")
Cur == Hist[h]
Ops == Cur.ops
Dom(f) == DOMAIN f
ToSet(s) == {s[i] : i \in 1..Len(s)}
InitState(k) == CASE k.kind = "idpool" -> {}
                  [] k.kind = "ackq" -> <<>>
                  [] k.kind = "registry" -> <<>>
                  [] k.kind = "store" -> <<>>
                  [] k.kind = "equal" -> <<>>
LInit == TLCSet(1, 0) /\ h = 1 /\ done = {} /\ st = InitState(Hist[1])
Ready(i) == i \notin done /\ \A j \in 1..Len(Ops) : (Ops[j].ret < Ops[i].call) => j \in done
Get(f, k, d) == IF k \in Dom(f) THEN f[k] ELSE d
Del(f, K) == [x \in Dom(f) \ K |-> f[x]]
\* ---- sequential specifications: Apply(o) is the step of operation o with its recorded result
ApplyPool(o) ==
  LET R == Cur.min..Cur.max IN
  CASE o.f = "get" -> ~o.panic /\ P!GetOK(R, st, o.r) /\ st' = P!GetNew(R, st, o.r)
    [] o.f = "put" -> ~o.panic /\ st' = P!PutNew(R, st, o.a)
ApplyAckq(o) ==
  CASE o.f = "insert" ->
         LET k == <<o.s, o.id>> IN
         IF Q!InsertOK(st, k, o.kind) THEN o.ok /\ st' = Q!InsertNew(st, k, o.kind, o.d, o.tag) /\ Len(o.cbs) = 0
         ELSE ~o.ok /\ st' = st /\ Len(o.cbs) = 0
    [] o.f = "ack" ->
         LET k == <<o.s, o.id>> IN
         IF Q!AckOK(st, k, o.ty)
         THEN o.ok /\ Len(o.cbs) = 1 /\ o.cbs[1].tag = st[Q!AK(k, o.ty)].tag /\ ~o.cbs[1].expired /\ st' = Q!Drop(st, {Q!AK(k, o.ty)})
         ELSE ~o.ok /\ Len(o.cbs) = 0 /\ st' = st
    \* A sweep is not atomic in the code: Expire collects the due timeouts and then removes the entries one by one.
    \* The driver therefore records one "fire" per callback (it happened between the sweep's call and the
    \* callback) and a closing "sweepend" (between the last callback and the sweep's return).
    [] o.f = "fire" ->
         LET K == {k \in Dom(st) : st[k].tag = o.tag} IN
         /\ o.expired /\ Cardinality(K) = 1
         \* The timeout list refers to entries by key only.  When an acknowledgement removes an entry while a sweep is
         \* collecting its (due) timeout, and the key is registered again before the sweep deletes it, the sweep fires
         \* the NEW entry, possibly before its deadline.  The entry still resolves exactly once, which is all C20 asks;
         \* the early firing is tolerated for exactly that interleaving (a successful ack on the same key overlapping
         \* the sweep), nowhere else.
         /\ K \subseteq Q!May(st, o.now) \cup
                {k \in Dom(st) : \E j \in 1..Len(Ops) : Ops[j].f = "ack" /\ Ops[j].ok /\ Q!AK(<<Ops[j].s, Ops[j].id>>, Ops[j].ty) = k
                                                       /\ Ops[j].call < o.sret /\ o.scall < Ops[j].ret}
         /\ st' = Q!Drop(st, K)
    [] o.f = "sweepend" ->
         \* Insert is two steps in the code (the key becomes visible, then the timeout is armed): an entry whose Insert
         \* had not returned when the sweep was called may be skipped by it; every other due entry has fired by now
         /\ LET settled == {k \in Dom(st) : Ops[CHOOSE j \in 1..Len(Ops) : Ops[j].f = "insert" /\ Ops[j].tag = st[k].tag].ret < o.scall} IN
            Q!Must(st, o.now) \cap settled = {}
         /\ st' = st
ApplyRegistry(o) ==
  CASE o.f = "create" -> o.r = Get(st, o.k, "") /\ st' = (o.k :> o.v) @@ st
    [] o.f = "delete" -> o.r = Get(st, o.k, "") /\ st' = Del(st, {o.k})
    [] o.f = "get"    -> o.r = Get(st, o.k, "") /\ st' = st
    [] o.f = "list"   -> ToSet(o.rs) = {st[k] : k \in Dom(st)} /\ Len(o.rs) = Cardinality(Dom(st)) /\ st' = st
ApplyStore(o) ==
  CASE o.f = "write"  -> ~o.panic /\ st' = (o.k :> o.v) @@ st
    [] o.f = "remove" -> ~o.panic /\ st' = Del(st, {o.k})
    [] o.f = "get"    -> ~o.panic /\ o.r = Get(st, o.k, "") /\ st' = st
    \* a dump loaded into a fresh store holds exactly what the store held at one moment between the call and the return
    [] o.f = "snapshot" -> /\ ~o.panic /\ o.err = ""
                           /\ {<<o.snap[i].k, o.snap[i].v>> : i \in 1..Len(o.snap)} = {<<k, st[k]>> : k \in Dom(st)}
                           /\ Len(o.snap) = Cardinality(Dom(st))
                           /\ st' = st
Apply(o) == CASE Cur.kind = "idpool" -> ApplyPool(o)
              [] Cur.kind = "ackq" -> ApplyAckq(o)
              [] Cur.kind = "registry" -> ApplyRegistry(o)
              [] Cur.kind = "store" -> ApplyStore(o)
              [] Cur.kind = "equal" -> o.a = o.b /\ st' = st        \* two replicas / two accounts that must agree
LinStep  == /\ h <= Len(Hist)
            /\ \E i \in 1..Len(Ops) : Ready(i) /\ Apply(Ops[i]) /\ done' = done \cup {i} /\ h' = h
NextHist == /\ h <= Len(Hist) /\ done = 1..Len(Ops)
            /\ h' = h + 1 /\ done' = {} /\ st' = IF h + 1 <= Len(Hist) THEN InitState(Hist[h + 1]) ELSE {}
LSpec == LInit /\ [][LinStep \/ NextHist]_<<h, done, st>>
HighWater == TLCSet(1, IF TLCGet(1) > h THEN TLCGet(1) ELSE h)
Accepted == IF TLCGet(1) - 1 = Len(Hist) THEN PrintT("TRACE_ACCEPTED")
            ELSE PrintT(<<"REJECTED_AT_LINE", TLCGet(1), [kind |-> Hist[TLCGet(1)].kind, n |-> Hist[TLCGet(1)].n]>>) /\ FALSE
=============================================================================
