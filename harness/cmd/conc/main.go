// Driver for C20 (object level), built with -race: concurrent histories on the shared objects
// of the broker, call/return bracketed with one global sequence, for the linearizability check
// of Lin.tla; plus order-free convergence of the replicated maps under concurrent writers.
//
//	conc -out hist.ndjson -n 50 -threads 4 -ops 6
package main

import (
	"bufio"
	"encoding/json"
	"flag"
	"fmt"
	"math/rand"
	"os"
	"runtime"
	"sort"
	"strconv"
	"strings"
	"sync"
	"sync/atomic"
	"time"

	"github.com/vx-labs/mqtt-protocol/packet"
	"github.com/vx-labs/wasp/v4/subscriptions"
	"github.com/vx-labs/wasp/v4/topics"
	"github.com/vx-labs/wasp/v4/wasp"
	"github.com/vx-labs/wasp/v4/wasp/ack"
	"github.com/vx-labs/wasp/v4/wasp/expiration"
	"github.com/vx-labs/wasp/v4/wasp/sessions"
	"verifharness/internal/dstate"
)

type M map[string]interface{}

var seq int64

func tick() int64 { return atomic.AddInt64(&seq, 1) }

type hist struct {
	mu  sync.Mutex
	ops []M
}

func (h *hist) do(t int, o M, f func(o M)) {
	o["t"] = t
	o["call"] = tick()
	f(o)
	o["ret"] = tick()
	h.mu.Lock()
	h.ops = append(h.ops, o)
	h.mu.Unlock()
}

func run(threads int, seed int64, body func(t int, rng *rand.Rand)) {
	var wg sync.WaitGroup
	start := make(chan struct{})
	for t := 0; t < threads; t++ {
		wg.Add(1)
		go func(t int) {
			defer wg.Done()
			rng := rand.New(rand.NewSource(seed*1000 + int64(t)))
			<-start
			body(t, rng)
		}(t)
	}
	close(start)
	wg.Wait()
}

func guard(f func()) (panicked bool) {
	defer func() {
		if recover() != nil {
			panicked = true
		}
	}()
	f()
	return false
}

// ---- identifier pool
func poolHist(n, threads, nops int, seed int64) M {
	rng := rand.New(rand.NewSource(seed))
	min, max := int32(1), int32(2+rng.Intn(4))
	p := wasp.VerifNewMIDPool(min, max)
	h := &hist{}
	run(threads, seed, func(t int, r *rand.Rand) {
		var held []int32
		for i := 0; i < nops; i++ {
			if len(held) == 0 || r.Intn(2) == 0 {
				h.do(t, M{"f": "get"}, func(o M) {
					var v int32
					o["panic"] = guard(func() { v = p.Get() })
					o["r"] = v
					o["a"] = 0
					if v >= min && v <= max {
						held = append(held, v)
					}
				})
			} else {
				x := r.Intn(len(held))
				id := held[x]
				held = append(held[:x], held[x+1:]...)
				h.do(t, M{"f": "put"}, func(o M) {
					o["a"] = id
					o["r"] = 0
					o["panic"] = guard(func() { p.Put(id) })
				})
			}
		}
	})
	return M{"kind": "idpool", "n": n, "min": min, "max": max, "ops": h.ops}
}

// ---- in-flight table
func mkInsert(kind string, id int32) packet.Packet {
	switch kind {
	case "pub1":
		return &packet.Publish{Header: &packet.Header{Qos: 1}, MessageId: id, Topic: []byte("t")}
	case "pub2":
		return &packet.Publish{Header: &packet.Header{Qos: 2}, MessageId: id, Topic: []byte("t")}
	case "pubrec":
		return &packet.PubRec{Header: &packet.Header{}, MessageId: id}
	}
	return &packet.PubRel{Header: &packet.Header{}, MessageId: id}
}
func mkAck(ty string, id int32) packet.Packet {
	switch ty {
	case "PUBACK":
		return &packet.PubAck{Header: &packet.Header{}, MessageId: id}
	case "PUBREC":
		return &packet.PubRec{Header: &packet.Header{}, MessageId: id}
	case "PUBREL":
		return &packet.PubRel{Header: &packet.Header{}, MessageId: id}
	}
	return &packet.PubComp{Header: &packet.Header{}, MessageId: id}
}

type cbEv struct {
	tag     int
	expired bool
	at      int64
}

func ackqHist(n, threads, nops int, seed int64, focus int) M {
	q := ack.NewQueue()
	h := &hist{}
	base := time.Unix(1700000000, 0)
	var tag int64
	var cbmu sync.Mutex
	var cbs []cbEv
	var sweepMu sync.Mutex // one sweeper at a time, as in the broker (a single ticker goroutine)
	kinds := []string{"pub1", "pub2", "pubrec", "pubrel"}
	acks := []string{"PUBACK", "PUBREC", "PUBREL", "PUBCOMP"}
	// protocol causality: the packet that acknowledges an exchange is caused by the packet the broker writes after
	// Insert returned, so an Ack never runs concurrently with the Insert of the same key (sweeps do)
	var klMu sync.Mutex
	keyLocks := map[string]*sync.Mutex{}
	keyLock := func(s string, id int32) *sync.Mutex {
		klMu.Lock()
		defer klMu.Unlock()
		k := fmt.Sprintf("%s/%d", s, id)
		if keyLocks[k] == nil {
			keyLocks[k] = &sync.Mutex{}
		}
		return keyLocks[k]
	}
	if focus > 0 {
		// a due entry, a burst of acknowledgements of the WRONG type on it (each must leave the entry exactly as it is) and a
		// sweep at the same time; then, alone, another sweep: the entry must have fired exactly once by then
		tg := int(atomic.AddInt64(&tag, 1))
		h.do(0, M{"f": "insert", "s": "s0", "id": 1, "kind": "pub1", "d": -60000, "tag": tg, "ty": "", "now": 0}, func(o M) {
			err := q.Insert("s0", mkInsert("pub1", 1), base.Add(-60*time.Second), func(expired bool, stored, received packet.Packet) {
				cbmu.Lock()
				cbs = append(cbs, cbEv{tag: tg, expired: expired, at: tick()})
				cbmu.Unlock()
			})
			o["ok"] = err == nil
		})
		run(2, seed, func(t int, r *rand.Rand) {
			if t == 0 && focus == 2 {
				// the acknowledgement of the RIGHT type, once, racing the sweep: exactly one of the two resolves the entry
				for i := r.Intn(40); i > 0; i-- {
					runtime.Gosched()
				}
				h.do(t, M{"f": "ack", "s": "s0", "id": 1, "ty": "PUBACK", "kind": "", "d": 0, "tag": 0, "now": 0}, func(o M) {
					o["ok"] = q.Ack("s0", mkAck("PUBACK", 1)) == nil
				})
				return
			}
			if t == 0 {
				for i := 0; i < nops*3; i++ {
					ty := []string{"PUBREC", "PUBREL", "PUBCOMP"}[r.Intn(3)]
					h.do(t, M{"f": "ack", "s": "s0", "id": 1, "ty": ty, "kind": "", "d": 0, "tag": 0, "now": 0}, func(o M) {
						o["ok"] = q.Ack("s0", mkAck(ty, 1)) == nil
					})
				}
				return
			}
			for i := r.Intn(40); i > 0; i-- { // start the sweep somewhere inside the burst
				runtime.Gosched()
			}
			h.do(t, M{"f": "sweep", "now": 0, "s": "", "id": 0, "ty": "", "kind": "", "d": 0, "tag": 0, "ok": true}, func(o M) {
				q.Expire(base)
			})
		})
		h.do(0, M{"f": "sweep", "now": 0, "s": "", "id": 0, "ty": "", "kind": "", "d": 0, "tag": 0, "ok": true}, func(o M) {
			q.Expire(base)
		})
		threads = 0
	}
	run(threads, seed, func(t int, r *rand.Rand) {
		for i := 0; i < nops; i++ {
			s := "s" + strconv.Itoa(r.Intn(2))
			id := int32(1 + r.Intn(2))
			kl := keyLock(s, id)
			switch r.Intn(6) {
			case 0, 1, 2:
				kind := kinds[r.Intn(4)]
				// deadlines are either long past or far ahead of every sweep instant: must/may is never ambiguous
				d := int64(-60000)
				if r.Intn(2) == 0 {
					d = 3600000
				}
				tg := int(atomic.AddInt64(&tag, 1))
				kl.Lock()
				h.do(t, M{"f": "insert", "s": s, "id": id, "kind": kind, "d": d, "tag": tg, "ty": "", "now": 0}, func(o M) {
					err := q.Insert(s, mkInsert(kind, id), base.Add(time.Duration(d)*time.Millisecond), func(expired bool, stored, received packet.Packet) {
						cbmu.Lock()
						cbs = append(cbs, cbEv{tag: tg, expired: expired, at: tick()})
						cbmu.Unlock()
					})
					o["ok"] = err == nil
				})
				kl.Unlock()
			case 3, 4:
				ty := acks[r.Intn(4)]
				kl.Lock()
				h.do(t, M{"f": "ack", "s": s, "id": id, "ty": ty, "kind": "", "d": 0, "tag": 0, "now": 0}, func(o M) {
					o["ok"] = q.Ack(s, mkAck(ty, id)) == nil
				})
				kl.Unlock()
			default:
				sweepMu.Lock()
				h.do(t, M{"f": "sweep", "now": 0, "s": "", "id": 0, "ty": "", "kind": "", "d": 0, "tag": 0, "ok": true}, func(o M) {
					q.Expire(base)
				})
				sweepMu.Unlock()
			}
		}
	})
	// attribute every callback to the operation that ran it; a sweep is split into one "fire" per callback
	// (between the sweep's call and the callback) and a closing "sweepend" (after the last callback)
	for _, o := range h.ops {
		o["cbs"] = []M{}
	}
	var ops []M
	orphans := 0
	last := map[int64]int64{} // sweep call -> tick of its last callback
	for _, c := range cbs {
		placed := false
		for _, o := range h.ops {
			if o["call"].(int64) < c.at && c.at < o["ret"].(int64) {
				if c.expired && o["f"] == "sweep" {
					ops = append(ops, M{"t": o["t"], "f": "fire", "call": o["call"], "ret": c.at, "scall": o["call"], "sret": o["ret"], "tag": c.tag,
						"expired": true, "now": 0, "s": "", "id": 0, "ty": "", "kind": "", "d": 0, "ok": true, "cbs": []M{}})
					if c.at > last[o["call"].(int64)] {
						last[o["call"].(int64)] = c.at
					}
					placed = true
					break
				}
				if !c.expired && o["f"] == "ack" && o["ok"] == true && len(o["cbs"].([]M)) == 0 {
					o["cbs"] = append(o["cbs"].([]M), M{"tag": c.tag, "expired": c.expired})
					placed = true
					break
				}
			}
		}
		if !placed {
			orphans++
		}
	}
	for _, o := range h.ops {
		if o["f"] == "sweep" {
			call := o["call"].(int64)
			if l, ok := last[call]; ok {
				call = l
			}
			ops = append(ops, M{"t": o["t"], "f": "sweepend", "call": call, "ret": o["ret"], "scall": o["call"], "sret": o["ret"], "now": 0,
				"s": "", "id": 0, "ty": "", "kind": "", "d": 0, "tag": 0, "ok": true, "cbs": []M{}, "expired": false})
		} else {
			ops = append(ops, o)
		}
	}
	h.ops = ops
	if orphans > 0 {
		// a callback that no operation accounts for: recorded as an operation no specification step explains
		h.ops = append(h.ops, M{"t": 0, "call": tick(), "ret": tick(), "f": "ack", "s": "orphan-callback", "id": 0, "ty": "PUBACK", "ok": true,
			"cbs": []M{}, "kind": "", "d": 0, "tag": 0, "now": 0})
	}
	return M{"kind": "ackq", "n": n, "ops": h.ops}
}

// ---- local registry
func regHist(n, threads, nops int, seed int64) M {
	st := wasp.NewState(1)
	h := &hist{}
	mkS := func(id, v string) *sessions.Session {
		s, _ := sessions.NewSession(id, "mp", "t", nil, &packet.Connect{ClientId: []byte(v)})
		return s
	}
	val := func(s *sessions.Session) string {
		if s == nil {
			return ""
		}
		return s.ClientID()
	}
	run(threads, seed, func(t int, r *rand.Rand) {
		for i := 0; i < nops; i++ {
			k := "k" + strconv.Itoa(r.Intn(2))
			switch r.Intn(4) {
			case 0:
				v := fmt.Sprintf("v%d-%d", t, i)
				h.do(t, M{"f": "create", "k": k, "v": v, "rs": []string{}}, func(o M) { o["r"] = val(st.Create(k, mkS(k, v))) })
			case 1:
				h.do(t, M{"f": "delete", "k": k, "v": "", "rs": []string{}}, func(o M) { o["r"] = val(st.Delete(k)) })
			case 2:
				h.do(t, M{"f": "get", "k": k, "v": "", "rs": []string{}}, func(o M) { o["r"] = val(st.Get(k)) })
			default:
				h.do(t, M{"f": "list", "k": "", "v": "", "r": ""}, func(o M) {
					rs := []string{}
					for _, s := range st.ListSessions() {
						rs = append(rs, val(s))
					}
					sort.Strings(rs)
					o["rs"] = rs
				})
			}
		}
	})
	return M{"kind": "registry", "n": n, "ops": h.ops}
}

// ---- topic-keyed stores
func storeHist(n, threads, nops int, seed int64, which string) M {
	keys := []string{"a", "a/b", "a/b/c", "b"}
	var write func(k, v string)
	var remove func(k string)
	var get func(k string) string
	// snapshot: dump the store, load the dump into a fresh store, read every key there
	var snapshot func() ([]M, string)
	topicsGet := func(t topics.Store) func(k string) string {
		return func(k string) string {
			var out [][]byte
			t.Match([]byte(k), &out)
			parts := []string{}
			for _, b := range out {
				parts = append(parts, string(b))
			}
			return strings.Join(parts, ",")
		}
	}
	subsGet := func(t subscriptions.Tree) func(k string) string {
		return func(k string) string {
			parts := []string{}
			t.Walk([]byte(k), func(b []byte) {
				if len(b) > 0 {
					parts = append(parts, string(b))
				}
			})
			return strings.Join(parts, ",")
		}
	}
	read := func(g func(k string) string) []M {
		out := []M{}
		for _, k := range keys {
			if v := g(k); v != "" {
				out = append(out, M{"k": k, "v": v})
			}
		}
		return out
	}
	if which == "topics" {
		t := topics.NewTree()
		write = func(k, v string) { t.Insert([]byte(k), []byte(v)) }
		remove = func(k string) { t.Remove([]byte(k)) }
		get = topicsGet(t)
		snapshot = func() ([]M, string) {
			b, err := t.Dump()
			if err != nil {
				return []M{}, "dump: " + err.Error()
			}
			t2 := topics.NewTree()
			if err := t2.Load(b); err != nil {
				return []M{}, "load: " + err.Error()
			}
			return read(topicsGet(t2)), ""
		}
	} else {
		t := subscriptions.NewTree()
		write = func(k, v string) { t.Upsert([]byte(k), func([]byte) []byte { return []byte(v) }) }
		remove = func(k string) { t.Upsert([]byte(k), func([]byte) []byte { return nil }) }
		get = subsGet(t)
		snapshot = func() ([]M, string) {
			b, err := t.Dump()
			if err != nil {
				return []M{}, "dump: " + err.Error()
			}
			t2 := subscriptions.NewTree()
			if err := t2.Load(b); err != nil {
				return []M{}, "load: " + err.Error()
			}
			return read(subsGet(t2)), ""
		}
	}
	h := &hist{}
	run(threads, seed, func(t int, r *rand.Rand) {
		for i := 0; i < nops; i++ {
			k := keys[r.Intn(len(keys))]
			switch r.Intn(4) {
			case 3:
				h.do(t, M{"f": "snapshot", "k": "", "v": "", "r": ""}, func(o M) {
					var snap []M
					var e string
					o["panic"] = guard(func() { snap, e = snapshot() })
					if snap == nil {
						snap = []M{}
					}
					o["snap"] = snap
					o["err"] = e
				})
			case 0:
				// values of different lengths: a replaced value changes the size of the encoded node
				v := fmt.Sprintf("v%d-%d%s", t, i, strings.Repeat("x", r.Intn(3)*7))
				h.do(t, M{"f": "write", "k": k, "v": v, "r": ""}, func(o M) { o["panic"] = guard(func() { write(k, v) }) })
			case 1:
				h.do(t, M{"f": "remove", "k": k, "v": "", "r": ""}, func(o M) { o["panic"] = guard(func() { remove(k) }) })
			default:
				h.do(t, M{"f": "get", "k": k, "v": ""}, func(o M) {
					var v string
					o["panic"] = guard(func() { v = get(k) })
					o["r"] = v
				})
			}
		}
	})
	return M{"kind": "store", "n": n, "which": which, "ops": h.ops}
}

// ---- replicated maps: concurrent writers on two nodes while gossip and full-state pushes run;
// afterwards everything is exchanged and both nodes must list the same (order-free convergence)
func crdtRun(n, threads, nops int, seed int64) M {
	a, b := dstate.New(1), dstate.New(2)
	stop := make(chan struct{})
	var wg sync.WaitGroup
	wg.Add(1)
	go func() { // the network
		defer wg.Done()
		for {
			select {
			case <-stop:
				return
			default:
			}
			for _, m := range a.Drain() {
				b.State.Distributor().NotifyMsg(m)
			}
			for _, m := range b.Drain() {
				a.State.Distributor().NotifyMsg(m)
			}
			b.State.Distributor().MergeRemoteState(a.State.Distributor().LocalState(false), false)
		}
	}()
	run(threads, seed, func(t int, r *rand.Rand) {
		nd := a
		if t%2 == 1 {
			nd = b
		}
		for i := 0; i < nops; i++ {
			k := strconv.Itoa(r.Intn(3))
			switch r.Intn(7) {
			case 0:
				nd.State.SessionMetadatas().Create(fmt.Sprintf("s%d-%d", t, i), "c"+k, 1, nil, "mp")
			case 1:
				for _, s := range nd.State.SessionMetadatas().All() {
					if r.Intn(2) == 0 {
						nd.State.SessionMetadatas().Delete(s.SessionID)
						break
					}
				}
			case 2:
				nd.State.Subscriptions().Create("sess"+k, []byte("mp/t/"+k), int32(r.Intn(3)))
			case 3:
				nd.State.Subscriptions().Delete("sess"+k, []byte("mp/t/"+k))
			case 4:
				nd.State.Topics().Set(&packet.Publish{Header: &packet.Header{Retain: true}, Topic: []byte("mp/r/" + k), Payload: []byte(fmt.Sprintf("p%d-%d", t, i))})
			case 5:
				nd.State.Topics().Delete([]byte("mp/r/" + k))
			default:
				nd.State.Subscriptions().DeleteSession("sess" + k)
			}
		}
	})
	close(stop)
	wg.Wait()
	for round := 0; round < 2; round++ {
		for _, m := range a.Drain() {
			b.State.Distributor().NotifyMsg(m)
		}
		for _, m := range b.Drain() {
			a.State.Distributor().NotifyMsg(m)
		}
		b.State.Distributor().MergeRemoteState(a.State.Distributor().LocalState(false), false)
		a.State.Distributor().MergeRemoteState(b.State.Distributor().LocalState(false), false)
	}
	list := func(nd *dstate.Node) []string {
		out := []string{}
		for _, s := range nd.State.SessionMetadatas().All() {
			out = append(out, "S:"+s.SessionID+":"+s.ClientID)
		}
		for _, s := range nd.State.Subscriptions().All() {
			out = append(out, fmt.Sprintf("U:%s:%s:%d:%d", s.SessionID, s.Pattern, s.QoS, s.Peer))
		}
		msgs, _ := nd.State.Topics().Get([]byte("mp/#"))
		for _, m := range msgs {
			out = append(out, "R:"+string(m.Publish.Topic)+":"+string(m.Publish.Payload))
		}
		sort.Strings(out)
		return out
	}
	return M{"kind": "equal", "n": n, "ops": []M{{"t": 0, "call": tick(), "ret": tick(), "f": "equal", "a": list(a), "b": list(b)}}}
}

// ---- expiration lists under concurrent insert / delete / expire (race detector only + no lost entry)
func expRun(n, threads, nops int, seed int64) M {
	l := expiration.NewList()
	base := time.Unix(1700000000, 0)
	var mu sync.Mutex
	inserted, fired := map[string]bool{}, map[string]bool{}
	var sweep sync.Mutex
	run(threads, seed, func(t int, r *rand.Rand) {
		for i := 0; i < nops; i++ {
			if r.Intn(4) == 0 {
				sweep.Lock()
				for _, v := range l.Expire(base.Add(10 * time.Second)) {
					mu.Lock()
					fired[v.(string)] = true
					mu.Unlock()
				}
				sweep.Unlock()
				continue
			}
			id := fmt.Sprintf("e%d-%d", t, i)
			l.Insert(id, base.Add(time.Duration(r.Intn(3000))*time.Millisecond))
			mu.Lock()
			inserted[id] = true
			mu.Unlock()
		}
	})
	for _, v := range l.Expire(base.Add(time.Hour)) {
		fired[v.(string)] = true
	}
	a, b := []string{}, []string{}
	for k := range inserted {
		a = append(a, k)
	}
	for k := range fired {
		b = append(b, k)
	}
	sort.Strings(a)
	sort.Strings(b)
	return M{"kind": "equal", "n": n, "what": "every inserted timeout fires exactly once", "ops": []M{{"t": 0, "call": tick(), "ret": tick(), "f": "equal", "a": a, "b": b}}}
}

// expDeleteRun: all goroutines insert into the same, not yet existing second at the same moment (a barrier per step), then half of
// the timeouts are cancelled concurrently, then everything is swept: exactly the timeouts that were not cancelled fire, each once.
func expDeleteRun(n, threads, steps int, seed int64) M {
	l := expiration.NewList()
	base := time.Unix(1700000000, 0)
	type item struct {
		id string
		d  time.Time
	}
	items := make([][]item, threads)
	var wg sync.WaitGroup
	for step := 0; step < steps; step++ {
		start := make(chan struct{})
		for t := 0; t < threads; t++ {
			wg.Add(1)
			go func(t int) {
				defer wg.Done()
				r := rand.New(rand.NewSource(seed*7919 + int64(step*131+t)))
				it := item{fmt.Sprintf("d%d-%d", t, step), base.Add(time.Duration(step)*time.Second + time.Duration(r.Intn(400))*time.Millisecond)}
				<-start
				l.Insert(it.id, it.d)
				items[t] = append(items[t], it)
			}(t)
		}
		close(start)
		wg.Wait()
	}
	var mu sync.Mutex
	deleted := map[string]bool{}
	for t := 0; t < threads; t++ {
		wg.Add(1)
		go func(t int) {
			defer wg.Done()
			for i, it := range items[t] {
				if (i+t)%2 == 0 {
					l.Delete(it.id, it.d)
					mu.Lock()
					deleted[it.id] = true
					mu.Unlock()
				}
			}
		}(t)
	}
	wg.Wait()
	a, b := []string{}, []string{}
	for t := range items {
		for _, it := range items[t] {
			if !deleted[it.id] {
				a = append(a, it.id)
			}
		}
	}
	for _, v := range l.Expire(base.Add(time.Hour)) {
		b = append(b, v.(string))
	}
	sort.Strings(a)
	sort.Strings(b)
	return M{"kind": "equal", "n": n, "what": "exactly the timeouts that were not cancelled fire, each once", "ops": []M{{"t": 0, "call": tick(), "ret": tick(), "f": "equal", "a": a, "b": b}}}
}

func main() {
	out := flag.String("out", "hist.ndjson", "")
	n := flag.Int("n", 20, "histories per object")
	threads := flag.Int("threads", 4, "")
	nops := flag.Int("ops", 6, "operations per goroutine")
	only := flag.String("only", "", "store: only the histories on the two topic-keyed stores")
	flag.Parse()
	seed, _ := strconv.ParseInt(os.Getenv("VERIF_SEED"), 10, 64)
	f, err := os.Create(*out)
	if err != nil {
		panic(err)
	}
	w := bufio.NewWriter(f)
	emit := func(m M) {
		b, _ := json.Marshal(m)
		w.Write(b)
		w.WriteByte('\n')
	}
	k := 0
	for i := 0; i < *n; i++ {
		s := seed*100003 + int64(i)
		if *only == "pool" {
			for j := 0; j < 4; j++ {
				k++
				emit(poolHist(k, *threads, *nops+j, s*13+int64(j)))
			}
			continue
		}
		if *only == "store" {
			k++
			emit(storeHist(k, *threads, *nops, s, "topics"))
			k++
			emit(storeHist(k, *threads, *nops, s, "subs"))
			continue
		}
		k++
		emit(poolHist(k, *threads, *nops, s))
		k++
		emit(ackqHist(k, *threads, *nops, s, 0))
		for j := 0; j < 3; j++ {
			k++
			emit(ackqHist(k, *threads, *nops, s*7+int64(j), 1))
		}
		for j := 0; j < 6; j++ {
			k++
			emit(ackqHist(k, *threads, *nops, s*11+int64(j), 2))
		}
		k++
		emit(regHist(k, *threads, *nops, s))
		k++
		emit(storeHist(k, *threads, *nops, s, "topics"))
		k++
		emit(storeHist(k, *threads, *nops, s, "subs"))
		if i%4 == 0 {
			k++
			emit(crdtRun(k, *threads, *nops*4, s))
			k++
			emit(expRun(k, *threads, *nops*6, s))
			k++
			emit(expDeleteRun(k, *threads*2, 12, s))
		}
	}
	w.Flush()
	f.Close()
	fmt.Fprintf(os.Stderr, "histories=%d\n", k)
}
