------------------------------ MODULE MC_Session ------------------------------
EXTENDS Session
Spec == Init /\ [][Next]_vars
NodeOf1 == [c \in Conn |-> "n1"]
NodeOf2 == [c \in Conn |-> IF c = "c2" THEN "n2" ELSE "n1"]
SameClient == [c \in Conn |-> "a"]
DiffClient == [c \in Conn |-> c]
AllWill == [c \in Conn |-> TRUE]
Stable == /\ \A n \in Node : got[n] = {m.id : m \in net}
          /\ \A c \in Conn : phase[c] \in {"new", "live", "ended"}
\* nobody is displaced and not yet told
Quiet == Stable /\ \A c \in Conn : phase[c] = "live" => Resolve(NodeOf[c], ClientOf[c]) = {c}
VisSess(n) == {c \in Conn : Added(sess[n][c])}
VisSubs(n) == {k \in Conn \X Filter : Added(subs[n][k])}
\* C11: once the broadcasts are delivered nothing of an ended session is listed anywhere, and every listed
\* subscription belongs to a listed session that is being served on the node it names
NoTraceLeft == Quiet => \A n \in Node :
                 /\ \A c \in VisSess(n) : phase[c] = "live"
                 /\ \A k \in VisSubs(n) : phase[k[1]] = "live" /\ k[1] \in VisSess(n) /\ k[1] \in reg[NodeOf[k[1]]]
ClosedAtEnd == \A c \in Conn : phase[c] = "ended" => closed[c] /\ c \notin reg[NodeOf[c]]
\* C11: a session ends only for cause; in particular never while the client keeps within its keep-alive
EndsOnlyForCause == \A c \in Conn : phase[c] \in {"ending", "ended"} => cause[c] # "none"
NoEarlyExpiry == \A c \in Conn : (phase[c] \in {"ending", "ended"} /\ cause[c] = "keepalive") => now - lastpkt[c] > KA
\* C12: under the proviso every node resolves a client id to at most one session, a live one
Clients == {ClientOf[c] : c \in Conn}
OneResolved == (Stable /\ ok) => \A n \in Node, cl \in Clients : Cardinality(Resolve(n, cl)) <= 1
\* C12: tearing down a displaced session never removes its successor's record
SuccessorSpared == (Quiet /\ ok) => \A c \in Conn : phase[c] = "live" => \A n \in Node : c \in VisSess(n)
\* C13: the will is published exactly when the session ended without DISCONNECT
WillIffUnclean == \A c \in Conn : phase[c] = "ended" => ((c \in wills) <=> (HasWill[c] /\ ~disc[c]))
=============================================================================
