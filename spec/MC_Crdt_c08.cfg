CONSTANTS Node = {"n1", "n2", "n3"} Key = {"k1", "k2"} Vals = {"x"} MaxOps = 3
 Skew <- MCSkew SessOf <- MCSessOf
SPECIFICATION Spec
INVARIANTS Convergence Lww
CHECK_DEADLOCK FALSE
