CONSTANTS Keys <- RetKeys Queries <- RetQs Mode = "ret" PruneIgnoresValue = TRUE HashSkipsParent = FALSE Vals = {"v1", "v2"}
SPECIFICATION Spec
INVARIANTS PrefixClosed NoEmptyLeaf OnlyKeys MatchIsMatches
PROPERTY OneKey
CHECK_DEADLOCK FALSE
