// Package dstate builds a real distributed.State whose broadcast queue is owned by the
// harness (the harness is the gossip network).
package dstate

import (
	"context"
	"errors"
	"net"

	"github.com/hashicorp/memberlist"
	"github.com/vx-labs/wasp/v4/wasp/audit"
	"github.com/vx-labs/wasp/v4/wasp/distributed"
	"go.uber.org/zap"
	"google.golang.org/grpc"
)

type Node struct {
	ID    uint64
	State distributed.State
	Bcast *memberlist.TransmitLimitedQueue
}

func New(id uint64) *Node { return NewWithAudit(id, audit.NoneRecorder()) }

// DownAudit is the audit sink seam in its failed position: the real gRPC recorder of wasp/audit on a connection
// whose dialer always fails, so that every RecordEvent returns an error, as it does while the configured sink is
// unreachable.  Auditing is a side channel: whether it works must not change what is stored or broadcast (C09).
func DownAudit() audit.Recorder {
	cc, err := grpc.Dial("audit-sink-down", grpc.WithInsecure(),
		grpc.WithContextDialer(func(context.Context, string) (net.Conn, error) {
			return nil, errors.New("injected: audit sink unreachable")
		}))
	if err != nil {
		panic(err)
	}
	return audit.GRPCRecorder(cc, zap.NewNop())
}

func NewWithAudit(id uint64, a audit.Recorder) *Node {
	b := &memberlist.TransmitLimitedQueue{RetransmitMult: 1, NumNodes: func() int { return 1 }}
	return &Node{ID: id, Bcast: b, State: distributed.NewState(id, b, a)}
}

// Drain returns the broadcasts queued since the last call (each exactly once).
func (n *Node) Drain() [][]byte {
	var out [][]byte
	for {
		m := n.Bcast.GetBroadcasts(0, 1<<24)
		if len(m) == 0 {
			return out
		}
		out = append(out, m...)
	}
}
