// Driver for C08 / C09 / C10: real distributed.State replicas, the harness is the gossip
// network and the clock.  See lib/checks/c08.py for the scenario language.
package main

import (
	"bufio"
	"encoding/json"
	"flag"
	"fmt"
	"os"
	"sort"
	"strconv"
	"strings"
	"sync"

	"github.com/golang/protobuf/proto"
	"github.com/vx-labs/mqtt-protocol/packet"
	"github.com/vx-labs/wasp/v4/wasp/api"
	"github.com/vx-labs/wasp/v4/wasp/audit"
	"github.com/vx-labs/wasp/v4/wasp/distributed"
	"verifharness/internal/dstate"
	"verifharness/internal/rec"
)

type op struct {
	Op    string `json:"op"`
	N     int    `json:"n"`
	K     string `json:"k"`
	V     string `json:"v"`
	O     int    `json:"o"`
	S     string `json:"s"`
	Ts    int64  `json:"ts"`
	To    int    `json:"to"`
	From  int    `json:"from"`
	Ms    []int  `json:"ms"`
	Join  bool   `json:"join"`
	Batch bool   `json:"batch"`
	Max   int    `json:"max"`
	Quiet bool   `json:"quiet"` // no probes after this operation (bulk scenarios)
}
type scenario struct {
	Map  string              `json:"map"`  // sess | subs | ret
	Keys map[string][]string `json:"keys"` // generic key -> concrete: sess [id] ; subs [session, filter] ; ret [topic]
	Ops  []op                `json:"ops"`
	// AuditDown: the nodes' audit sink is unreachable for the whole scenario (every RecordEvent fails)
	AuditDown bool `json:"auditdown"`
	// KeepQueue: the nodes' transmit queues keep what they are handed (production behaviour: a broadcast is sent several
	// times and can be invalidated by a later one while it waits); the op "held" delivers what a queue still holds
	KeepQueue bool `json:"keepqueue"`
}
type entry struct {
	K   string `json:"k"`
	La  int64  `json:"la"`
	Ld  int64  `json:"ld"`
	V   string `json:"v"`
	Own int    `json:"own"`
}
type item struct {
	K   string `json:"k"`
	V   string `json:"v"`
	Own int    `json:"own"`
}

type world struct {
	s     scenario
	r     *rec.Recorder
	nodes map[int]*dstate.Node
	msgs  map[int][][]byte // message index -> raw broadcasts
	rev   map[string]string
	nmsg  int
	now   int64
}

func (w *world) node(n int) *dstate.Node {
	if x, ok := w.nodes[n]; ok {
		return x
	}
	var x *dstate.Node
	switch {
	case w.s.KeepQueue:
		x = dstate.NewKeeping(uint64(n), audit.NoneRecorder())
	case w.s.AuditDown:
		x = dstate.NewWithAudit(uint64(n), dstate.DownAudit())
	default:
		x = dstate.New(uint64(n))
	}
	w.nodes[n] = x
	return x
}

func (w *world) concrete(k string) []string {
	c, ok := w.s.Keys[k]
	if !ok {
		panic("unknown key " + k)
	}
	return c
}

func (w *world) generic(parts ...string) string {
	if g, ok := w.rev[strings.Join(parts, "\x00")]; ok {
		return g
	}
	return "?" + strings.Join(parts, "|")
}

func (w *world) decode(raw [][]byte) []entry {
	out := []entry{}
	for _, b := range raw {
		ev := &api.StateBroadcastEvent{}
		if err := proto.Unmarshal(b, ev); err != nil {
			out = append(out, entry{K: "?undecodable"})
			continue
		}
		for _, s := range ev.SessionMetadatas {
			out = append(out, entry{K: w.generic(s.SessionID), La: s.LastAdded, Ld: s.LastDeleted, V: s.ClientID, Own: int(s.Peer)})
		}
		for _, s := range ev.Subscriptions {
			out = append(out, entry{K: w.generic(s.SessionID, strings.TrimPrefix(string(s.Pattern), "mp/")), La: s.LastAdded, Ld: s.LastDeleted, V: strconv.Itoa(int(s.QoS)), Own: int(s.Peer)})
		}
		for _, m := range ev.RetainedMessages {
			t, p := "", ""
			if m.Publish != nil {
				t, p = string(m.Publish.Topic), string(m.Publish.Payload)
			}
			out = append(out, entry{K: w.generic(strings.TrimPrefix(t, "mp/")), La: m.LastAdded, Ld: m.LastDeleted, V: p, Own: 0})
		}
	}
	return out
}

func (w *world) listing(n *dstate.Node) []item {
	out := []item{}
	switch w.s.Map {
	case "sess":
		for _, s := range n.State.SessionMetadatas().All() {
			out = append(out, item{K: w.generic(s.SessionID), V: s.ClientID, Own: int(s.Peer)})
		}
	case "subs":
		for _, s := range n.State.Subscriptions().All() {
			out = append(out, item{K: w.generic(s.SessionID, strings.TrimPrefix(string(s.Pattern), "mp/")), V: strconv.Itoa(int(s.QoS)), Own: int(s.Peer)})
		}
	case "ret":
		msgs, err := n.State.Topics().Get([]byte("mp/#"))
		if err != nil {
			out = append(out, item{K: "?error " + err.Error()})
		}
		for _, m := range msgs {
			out = append(out, item{K: w.generic(strings.TrimPrefix(string(m.Publish.Topic), "mp/")), V: string(m.Publish.Payload)})
		}
	}
	sort.Slice(out, func(i, j int) bool {
		if out[i].K != out[j].K {
			return out[i].K < out[j].K
		}
		return out[i].V < out[j].V
	})
	return out
}

func (w *world) probe(n int) {
	w.r.Emit(rec.Ev{"op": "probe", "n": n, "listing": w.listing(w.node(n))})
}

func (w *world) local(o op) {
	n := w.node(o.N)
	w.now = o.Ts
	var err error
	func() {
		defer func() {
			if r := recover(); r != nil {
				err = fmt.Errorf("panic: %v", r)
			}
		}()
		switch w.s.Map {
		case "sess":
			switch o.Op {
			case "add":
				err = n.State.SessionMetadatas().Create(w.concrete(o.K)[0], o.V, 1, nil, "mp")
			case "del":
				err = n.State.SessionMetadatas().Delete(w.concrete(o.K)[0])
			case "delown":
				err = n.State.SessionMetadatas().DeletePeer(uint64(o.O))
			default:
				panic("op " + o.Op + " not defined for sessions")
			}
		case "subs":
			switch o.Op {
			case "add":
				q, _ := strconv.Atoi(o.V)
				c := w.concrete(o.K)
				err = n.State.Subscriptions().Create(c[0], []byte("mp/"+c[1]), int32(q))
			case "del":
				c := w.concrete(o.K)
				err = n.State.Subscriptions().Delete(c[0], []byte("mp/"+c[1]))
			case "delown":
				n.State.Subscriptions().DeletePeer(uint64(o.O))
			case "delsess":
				n.State.Subscriptions().DeleteSession(o.S)
			}
		case "ret":
			switch o.Op {
			case "add":
				err = n.State.Topics().Set(&packet.Publish{Header: &packet.Header{Retain: true}, Topic: []byte("mp/" + w.concrete(o.K)[0]), Payload: []byte(o.V)})
			case "del":
				err = n.State.Topics().Delete([]byte("mp/" + w.concrete(o.K)[0]))
			default:
				panic("op " + o.Op + " not defined for retained messages")
			}
		}
	}()
	var raw [][]byte
	if n.Keeping() {
		raw = n.New()
	} else {
		raw = n.Drain()
	}
	w.nmsg++
	w.msgs[w.nmsg] = raw
	w.r.Emit(rec.Ev{"op": "local", "n": o.N, "kind": o.Op, "k": o.K, "v": o.V, "o": o.O, "s": o.S, "ts": o.Ts,
		"err": err != nil, "mid": w.nmsg, "nraw": len(raw), "entries": w.decode(raw)})
}

func (w *world) deliver(to int, ms []int, batch bool) {
	n := w.node(to)
	var all []byte
	for _, m := range ms {
		for _, raw := range w.msgs[m] {
			if batch {
				all = append(all, raw...) // concatenated protobuf messages merge their repeated fields
			} else {
				n.State.Distributor().NotifyMsg(raw)
			}
		}
	}
	if batch {
		n.State.Distributor().NotifyMsg(all)
	}
	if ms == nil {
		ms = []int{}
	}
	w.r.Emit(rec.Ev{"op": "deliver", "to": to, "ms": ms, "batch": batch})
}

func perms(a []int, f func([]int)) {
	var rec func(int)
	rec = func(i int) {
		if i == len(a) {
			f(append([]int{}, a...))
			return
		}
		for j := i; j < len(a); j++ {
			a[i], a[j] = a[j], a[i]
			rec(i + 1)
			a[i], a[j] = a[j], a[i]
		}
	}
	rec(0)
}

// permute: every order x every batching (composition) of the messages produced so far,
// plus duplication families, each applied to a fresh replica that is then probed.
func (w *world) permute(max int) {
	ids := []int{}
	for i := 1; i <= w.nmsg; i++ {
		if len(w.msgs[i]) > 0 {
			ids = append(ids, i)
		}
	}
	if len(ids) > max {
		ids = ids[len(ids)-max:]
	}
	fresh := 100
	perms(ids, func(p []int) {
		k := len(p)
		for comp := 0; comp < 1<<uint(maxi(k-1, 0)); comp++ {
			fresh++
			w.r.Emit(rec.Ev{"op": "fresh", "n": fresh})
			start := 0
			for i := 0; i < k; i++ {
				if i == k-1 || comp&(1<<uint(i)) != 0 {
					w.deliver(fresh, p[start:i+1], i+1-start > 1)
					start = i + 1
				}
			}
			w.probe(fresh)
			if comp == 0 && k > 0 {
				// duplication: everything again in reverse, then the first one once more
				rev := []int{}
				for i := k - 1; i >= 0; i-- {
					rev = append(rev, p[i])
				}
				w.deliver(fresh, rev, false)
				w.deliver(fresh, p[:1], false)
				w.probe(fresh)
			}
		}
	})
}
func maxi(a, b int) int {
	if a > b {
		return a
	}
	return b
}

func run(r *rec.Recorder, idx int, s scenario) {
	w := &world{s: s, r: r, nodes: map[int]*dstate.Node{}, msgs: map[int][][]byte{}, rev: map[string]string{}}
	for g, c := range s.Keys {
		w.rev[strings.Join(c, "\x00")] = g
	}
	calls := int64(0)
	distributed.VerifSetClock(func() int64 { calls++; return w.now + calls - 1 })
	r.Emit(rec.Ev{"op": "new", "scn": idx, "map": s.Map})
	seenNodes := map[int]bool{}
	probeAll := func() {
		ns := []int{}
		for n := range seenNodes {
			ns = append(ns, n)
		}
		sort.Ints(ns)
		for _, n := range ns {
			w.probe(n)
		}
	}
	for _, o := range s.Ops {
		calls = 0
		switch o.Op {
		case "add", "del", "delown", "delsess":
			seenNodes[o.N] = true
			w.local(o)
			if !o.Quiet {
				probeAll()
			}
		case "pardeliver":
			// node o.To receives the gossip messages o.Ms one by one (memberlist's gossip goroutine: NotifyMsg) while, at the same
			// time, it merges the full state of node o.From (memberlist's push/pull goroutine: MergeRemoteState).  What it lists
			// afterwards must not depend on how the two interleave; the trace records them as a delivery and a push.
			seenNodes[o.To] = true
			seenNodes[o.From] = true
			to := w.node(o.To)
			buf := w.node(o.From).State.Distributor().LocalState(false)
			var wg sync.WaitGroup
			start := make(chan struct{})
			wg.Add(2)
			go func() {
				defer wg.Done()
				<-start
				for _, m := range o.Ms {
					for _, raw := range w.msgs[m] {
						to.State.Distributor().NotifyMsg(raw)
					}
				}
			}()
			go func() {
				defer wg.Done()
				<-start
				to.State.Distributor().MergeRemoteState(buf, false)
			}()
			close(start)
			wg.Wait()
			w.r.Emit(rec.Ev{"op": "deliver", "to": o.To, "ms": o.Ms, "batch": false})
			w.r.Emit(rec.Ev{"op": "push", "from": o.From, "to": o.To})
			probeAll()
		case "deliver":
			seenNodes[o.To] = true
			w.deliver(o.To, o.Ms, o.Batch)
			probeAll()
		case "held":
			// node o.To receives what node o.From's transmit queue still holds; the trace says "everything o.From ever
			// queued" (o.Ms): that is what the queue owes its peers (C09), whatever was queued after it
			seenNodes[o.To] = true
			to := w.node(o.To)
			for _, raw := range w.node(o.From).Held() {
				to.State.Distributor().NotifyMsg(raw)
			}
			w.r.Emit(rec.Ev{"op": "deliver", "to": o.To, "ms": o.Ms, "batch": false})
			probeAll()
		case "push":
			seenNodes[o.To] = true
			seenNodes[o.From] = true
			// memberlist passes join = true for the push/pull exchanges of a Join (with every seed, in both directions)
			buf := w.node(o.From).State.Distributor().LocalState(o.Join)
			w.node(o.To).State.Distributor().MergeRemoteState(buf, o.Join)
			w.r.Emit(rec.Ev{"op": "push", "from": o.From, "to": o.To})
			probeAll()
		case "permute":
			w.permute(o.Max)
		}
	}
}

func main() {
	scn := flag.String("scenarios", "", "scenario file (NDJSON)")
	out := flag.String("out", "trace.ndjson", "trace output")
	flag.Parse()
	f, err := os.Create(*out)
	if err != nil {
		panic(err)
	}
	defer f.Close()
	r := rec.New(f)
	defer r.Flush()
	in, err := os.Open(*scn)
	if err != nil {
		panic(err)
	}
	sc := bufio.NewScanner(in)
	sc.Buffer(make([]byte, 1<<20), 1<<28)
	n := 0
	for sc.Scan() {
		var s scenario
		if err := json.Unmarshal(sc.Bytes(), &s); err != nil {
			panic(err)
		}
		n++
		run(r, n, s)
	}
	fmt.Fprintf(os.Stderr, "scenarios=%d\n", n)
}
