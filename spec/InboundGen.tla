------------------------------ MODULE InboundGen ------------------------------
(* Publisher scripts for C05/C14: PUBLISH at QoS 0/1/2 with fresh and repeated        *)
(* identifiers, PUBREL (matching, repeated, unknown), handshake time-outs, and         *)
(* failures of destinations toggled between the steps.  The worker steps are taken     *)
(* eagerly (run to completion) so that only environment actions are enumerated.        *)
EXTENDS Inbound, Json
CONSTANTS Depth, GQos      \* GQos: the QoS levels the scripts publish at
VARIABLES hist
Rec(r) == hist' = Append(hist, r)
GHosts == [m \in Msgs |-> CASE m = "m1" -> {1, 2} [] m = "m2" -> {2} [] m = "m3" -> {1} [] m = "m5" -> {2, 3} \cap Node [] OTHER -> {}]
GNodeOf == [c \in Client |-> IF c = "c1" THEN 1 ELSE 2]
Busy == reqs # {}
GInit == Init /\ hist = <<>>
GNext ==
  \/ /\ Busy /\ UNCHANGED hist                                     \* let the workers finish
     /\ \E r \in reqs : Resolve(r) \/ AckOrWithhold(r) \/ \E d \in Node : Store(r, d)
  \/ /\ ~Busy /\ Len(hist) < Depth
     /\ \/ \E c \in Client, q \in GQos, id \in Ids, m \in Msgs :
             /\ Publish(c, q, id, m) /\ Rec([op |-> "pub", c |-> c, q |-> q, id |-> id, m |-> m, d |-> 0, how |-> ""])
        \/ \E c \in Client, id \in Ids :
             /\ (<<c, id>> \in Dom(hs) \/ id = 1)
             /\ Pubrel(c, id) /\ Rec([op |-> "pubrel", c |-> c, q |-> 2, id |-> id, m |-> "", d |-> 0, how |-> ""])
        \/ /\ Dom(hs) # {} /\ \E k \in Dom(hs) : HsTimeout(k[1], k[2])
           /\ Rec([op |-> "sweep", c |-> "", q |-> 0, id |-> 0, m |-> "", d |-> 0, how |-> ""])
        \/ \E d \in Node, how \in {"log", "rpc"} :
             /\ Toggle(d) /\ Rec([op |-> "toggle", c |-> "", q |-> 0, id |-> 0, m |-> "", d |-> d, how |-> how])
GSpec == GInit /\ [][GNext]_<<vars, hist>>
Dump == (Len(hist) = Depth /\ ~Busy) => PrintT(<<"BEHAV", ToJson(hist)>>)
=============================================================================
