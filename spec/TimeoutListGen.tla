--------------------------- MODULE TimeoutListGen ---------------------------
(* Call sequences for the bare expiry structure (expiration.List): Insert / Delete /  *)
(* Expire over deadlines that share a second, differ below the second, sit on the      *)
(* rounding boundary and in the next second; sweeps before, between and after.  A      *)
(* sequence starts with Pre preloaded items (in every order the constant lists), so    *)
(* that exhaustive depth is spent on what happens to a populated structure.            *)
EXTENDS Integers, Sequences, TLC, Json
CONSTANTS Vals, Deadlines, Nows, Depth, Pre
VARIABLES hist
Calls == {[op |-> "ins", v |-> v, d |-> d, now |-> 0] : v \in Vals, d \in Deadlines}
         \cup {[op |-> "del", v |-> v, d |-> d, now |-> 0] : v \in Vals, d \in Deadlines}
         \cup {[op |-> "exp", v |-> "", d |-> 0, now |-> n] : n \in Nows}
Init == hist \in Pre
Next == Len(hist) < Depth /\ \E c \in Calls : hist' = Append(hist, c)
Spec == Init /\ [][Next]_hist
Dump == (Len(hist) = Depth) => PrintT(<<"BEHAV", ToJson(hist)>>)
\* preloads: nothing; three same-second items with distinct sub-second deadlines in every order; two values on one deadline
I(v, d) == [op |-> "ins", v |-> v, d |-> d, now |-> 0]
Pre0 == {<<>>}
Pre3 == {s \in {<<I("a", x), I("b", y), I("c", z)>> : x, y, z \in {1400, 1450, 1499}} :
            s[1].d # s[2].d /\ s[2].d # s[3].d /\ s[1].d # s[3].d}
PreSame == {<<I("a", 1450), I("b", 1450), I("c", 1450)>>, <<I("a", 1499), I("b", 1500), I("c", 1499)>>}
=============================================================================
