// Driver for C16 (credential-store level): materialises credential tables as files in the
// format of auth.FileHandler ("username:sha256(password)[:mountpoint]"), loads them with the
// real handler and records every Authenticate outcome. Also the static handler.
//
// Scenario: {"kind":"file"|"static","table":[{"u":"alice","p":"pw","m":""}],"order":[2,0,1],
//
//	"queries":[{"u":"alice","p":"pw"}]}
package main

import (
	"bufio"
	"context"
	"crypto/sha256"
	"encoding/json"
	"flag"
	"fmt"
	"io/ioutil"
	"os"
	"path/filepath"
	"sync"

	"github.com/vx-labs/wasp/v4/wasp/auth"
	"verifharness/internal/rec"
)

type ent struct {
	U string `json:"u"`
	P string `json:"p"`
	M string `json:"m"`
	T bool   `json:"t"` // three-field line even when the mount point is empty ("user:hash:")
}
type scenario struct {
	Kind    string `json:"kind"`
	Table   []ent  `json:"table"`
	Order   []int  `json:"order"`
	Queries []ent  `json:"queries"`
	// Storm: that many goroutines put the queries to the (one, shared) handler at the same time, Rounds times over - the
	// broker authenticates on 20 concurrent workers.  Every outcome must be what the table implies, whoever else is asking.
	Storm  int `json:"storm"`
	Rounds int `json:"rounds"`
}

func main() {
	scn := flag.String("scenarios", "", "scenario file (NDJSON)")
	out := flag.String("out", "trace.ndjson", "trace output")
	flag.Parse()
	f, err := os.Create(*out)
	if err != nil {
		panic(err)
	}
	defer f.Close()
	r := rec.New(f)
	defer r.Flush()
	in, err := os.Open(*scn)
	if err != nil {
		panic(err)
	}
	dir, _ := ioutil.TempDir("", "authdrv")
	defer os.RemoveAll(dir)
	sc := bufio.NewScanner(in)
	sc.Buffer(make([]byte, 1<<20), 1<<28)
	n := 0
	for sc.Scan() {
		var s scenario
		if err := json.Unmarshal(sc.Bytes(), &s); err != nil {
			panic(err)
		}
		n++
		var h auth.AuthenticationHandler
		var lerr error
		panicked := false
		func() {
			defer func() {
				if recover() != nil {
					panicked = true
				}
			}()
			if s.Kind == "static" {
				h, lerr = auth.StaticHandler(s.Table[0].U, s.Table[0].P)
				return
			}
			path := filepath.Join(dir, "creds")
			buf := ""
			for _, i := range s.Order {
				e := s.Table[i]
				line := fmt.Sprintf("%s:%x", e.U, sha256.Sum256([]byte(e.P)))
				if e.M != "" || e.T {
					line += ":" + e.M
				}
				buf += line + "\n"
			}
			ioutil.WriteFile(path, []byte(buf), 0600)
			h, lerr = auth.FileHandler(path)
		}()
		tbl := s.Table
		if tbl == nil {
			tbl = []ent{}
		}
		r.Emit(rec.Ev{"op": "new", "scn": n, "kind": s.Kind, "table": tbl, "order": s.Order, "loaded": lerr == nil && !panicked, "panic": panicked})
		if lerr != nil || panicked {
			continue
		}
		if s.Storm > 0 {
			var wg sync.WaitGroup
			start := make(chan struct{})
			ids := make([][]string, s.Storm) // the session identifiers the handler hands out, per goroutine
			evs := make([][]rec.Ev, s.Storm)
			for g := 0; g < s.Storm; g++ {
				wg.Add(1)
				go func(g int) {
					defer wg.Done()
					<-start
					for round := 0; round < s.Rounds; round++ {
						for k := range s.Queries {
							q := s.Queries[(k+g)%len(s.Queries)]
							var p auth.Principal
							var aerr error
							pn := false
							func() {
								defer func() {
									if recover() != nil {
										pn = true
									}
								}()
								p, aerr = h.Authenticate(context.Background(), auth.ApplicationContext{ClientID: []byte("c"), Username: []byte(q.U), Password: []byte(q.P)}, auth.TransportContext{})
							}()
							// recorded after the storm: a shared recorder lock between the calls would order them (and hide from the race
							// detector whatever the handler shares between calls)
							evs[g] = append(evs[g], rec.Ev{"op": "auth", "u": q.U, "p": q.P, "ok": aerr == nil && !pn, "mount": p.MountPoint, "idlen": len(p.ID), "panic": pn})
							if aerr == nil && !pn {
								ids[g] = append(ids[g], p.ID)
							}
						}
					}
				}(g)
			}
			close(start)
			wg.Wait()
			// every admitted CONNECT becomes a session under the identifier handed out here: two equal ones are one session
			for _, l := range evs {
				for _, e := range l {
					r.Emit(e)
				}
			}
			seen := map[string]bool{}
			total := 0
			for _, l := range ids {
				for _, id := range l {
					seen[id] = true
					total++
				}
			}
			r.Emit(rec.Ev{"op": "ids", "n": total, "distinct": len(seen)})
			continue
		}
		for _, q := range s.Queries {
			var p auth.Principal
			var aerr error
			pn := false
			func() {
				defer func() {
					if recover() != nil {
						pn = true
					}
				}()
				p, aerr = h.Authenticate(context.Background(), auth.ApplicationContext{ClientID: []byte("c"), Username: []byte(q.U), Password: []byte(q.P)}, auth.TransportContext{})
			}()
			r.Emit(rec.Ev{"op": "auth", "u": q.U, "p": q.P, "ok": aerr == nil && !pn, "mount": p.MountPoint, "idlen": len(p.ID), "panic": pn})
		}
	}
	fmt.Fprintf(os.Stderr, "scenarios=%d\n", n)
}
