------------------------------ MODULE CrdtTrace ------------------------------
(* Trace validation for C08 / C09 / C10.  State: per replica the set of update        *)
(* entries it has applied (seen), and the content of every queued broadcast (net).    *)
(*  - a local mutator must queue a message carrying every entry it touched (C09) and  *)
(*    is itself an application of exactly those entries;                              *)
(*  - deliveries (any order, any multiplicity, batched or not) and full-state pushes   *)
(*    add to `seen`;                                                                  *)
(*  - every probe of a replica must list exactly, per key, the value of the update    *)
(*    with the greatest timestamp among those it has seen, if that update is an       *)
(*    addition (C08, C10).                                                            *)
(* A removal stamped by a clock that runs behind the entry's addition cannot win      *)
(* under LWW; that is clock skew, not a broadcast defect: only ld >= the issuing      *)
(* clock is required of a removal's entries.                                          *)
EXTENDS Integers, FiniteSets, Sequences, TLC, Json
VARIABLES l, seen, net, sessof
C == INSTANCE Crdt WITH Node <- {}, Key <- {}, Vals <- {}, MaxOps <- 0, Skew <- <<>>, SessOf <- <<>>,
                        st <- 0, tick <- 0, nops <- 0
Trace == ndJsonDeserialize("trace.ndjson")
Ev == Trace[l]
ToSet(s) == {s[i] : i \in 1..Len(s)}
Conv(e) == <<e.k, [la |-> e.la, ld |-> e.ld, v |-> e.v, own |-> e.own]>>
Seen(n) == IF n \in DOMAIN seen THEN seen[n] ELSE {}
Lst(n)  == C!ListingOf(Seen(n))                         \* what node n must list
VisKeys(n) == {x[1] : x \in Lst(n)}
OwnOf(n, k) == (CHOOSE x \in Lst(n) : x[1] = k)[3]
E == {Conv(Ev.entries[i]) : i \in 1..Len(Ev.entries)}
TInit == TLCSet(1, 0) /\ l = 1 /\ seen = <<>> /\ net = <<>> /\ sessof = <<>>
LocalOK ==
  CASE Ev.kind = "add" ->
         IF Ev.err THEN E = {} /\ Ev.k \in VisKeys(Ev.n)                    \* refused: the entry exists already
         ELSE Cardinality(E) = 1 /\ \A u \in E : u[1] = Ev.k /\ u[2].la >= Ev.ts /\ u[2].ld = 0 /\ u[2].v = Ev.v
    [] Ev.kind = "del" ->
         /\ ~Ev.err /\ Cardinality(E) <= 1
         /\ \A u \in E : u[1] = Ev.k /\ u[2].ld >= Ev.ts
         /\ (Ev.k \in VisKeys(Ev.n) => E # {})
    [] Ev.kind = "delown" ->
         /\ ~Ev.err /\ Len(Ev.entries) = Cardinality(E)
         /\ {u[1] : u \in E} = {k \in VisKeys(Ev.n) : OwnOf(Ev.n, k) = Ev.o}   \* every entry touched, nothing else
         /\ \A u \in E : u[2].ld >= Ev.ts
    [] Ev.kind = "delsess" ->
         /\ ~Ev.err /\ Len(Ev.entries) = Cardinality(E)
         /\ {u[1] : u \in E} = {k \in VisKeys(Ev.n) : sessof[k] = Ev.s}
         /\ \A u \in E : u[2].ld >= Ev.ts
Step ==
  /\ l <= Len(Trace) /\ l' = l + 1
  /\ \/ Ev.op = "new" /\ seen' = <<>> /\ net' = <<>> /\ sessof' = Ev.sessof
     \/ /\ Ev.op = "local" /\ LocalOK
        /\ seen' = (Ev.n :> (Seen(Ev.n) \cup E)) @@ seen
        /\ net' = (Ev.mid :> E) @@ net
        /\ UNCHANGED sessof
     \/ /\ Ev.op = "deliver"
        /\ seen' = (Ev.to :> (Seen(Ev.to) \cup UNION {net[m] : m \in ToSet(Ev.ms)})) @@ seen
        /\ UNCHANGED <<net, sessof>>
     \/ /\ Ev.op = "push"
        /\ seen' = (Ev.to :> (Seen(Ev.to) \cup Seen(Ev.from))) @@ seen
        /\ UNCHANGED <<net, sessof>>
     \/ Ev.op = "fresh" /\ seen' = (Ev.n :> {}) @@ seen /\ UNCHANGED <<net, sessof>>
     \/ /\ Ev.op = "probe"
        /\ Len(Ev.listing) = Cardinality(ToSet(Ev.listing))
        /\ {<<x.k, x.v, x.own>> : x \in ToSet(Ev.listing)} = Lst(Ev.n)
        /\ UNCHANGED <<seen, net, sessof>>
TSpec == TInit /\ [][Step]_<<l, seen, net, sessof>>
HighWater == TLCSet(1, IF TLCGet(1) > l THEN TLCGet(1) ELSE l)
Accepted == IF TLCGet(1) - 1 = Len(Trace) THEN PrintT("TRACE_ACCEPTED")
            ELSE PrintT(<<"REJECTED_AT_LINE", TLCGet(1), Trace[TLCGet(1)]>>) /\ FALSE
=============================================================================
