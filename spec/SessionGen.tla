------------------------------ MODULE SessionGen ------------------------------
(* Client scripts for the session life cycle (C11, C12, C13, C17): the environment     *)
(* actions of Session.tla - connect (possibly with a client identifier already in use, *)
(* on the same or another node, in the same or another tenant), subscribe, ping, idle  *)
(* for a fraction or a multiple of the keep-alive at any position (also right after    *)
(* CONNECT), DISCONNECT, connection loss, protocol violation, a watcher's publish,     *)
(* failure of a node - in every order up to Depth.  Minimal state keeps the scripts    *)
(* well-formed; what the broker does is left to the broker.                            *)
EXTENDS Integers, Sequences, FiniteSets, TLC, Json
CONSTANTS Conn, Nodes, NodeOf, Depth, Idles, Enders, MaxIdle, AllowPeerFail
VARIABLES phase, hist, nidle, failed
gvars == <<phase, hist, nidle, failed>>
Init == phase = [c \in Conn |-> "new"] /\ hist = <<>> /\ nidle = 0 /\ failed = {}
Rec(r) == hist' = Append(hist, r)
Ev(op, c, x) == [op |-> op, c |-> c, x |-> x]
Alive(c) == phase[c] = "live" /\ NodeOf[c] \notin failed
Next ==
  /\ Len(hist) < Depth
  /\ \/ \E c \in Conn : /\ phase[c] = "new" /\ NodeOf[c] \notin failed
                        /\ phase' = [phase EXCEPT ![c] = "live"] /\ Rec(Ev("connect", c, "")) /\ UNCHANGED <<nidle, failed>>
     \/ \E c \in Conn : /\ Alive(c) /\ Rec(Ev("ping", c, "")) /\ UNCHANGED <<phase, nidle, failed>>
     \/ \E c \in Conn : /\ Alive(c) /\ Rec(Ev("sub", c, "")) /\ UNCHANGED <<phase, nidle, failed>>
     \/ \E k \in Idles : /\ nidle < MaxIdle /\ (\E c \in Conn : Alive(c))
                         /\ nidle' = nidle + 1 /\ Rec(Ev("idle", 0, k))
                         \* after a long silence the broker may have ended every connection: the script treats them as possibly gone
                         /\ phase' = IF k \in {"long", "verylong"} THEN [c \in Conn |-> IF phase[c] = "live" THEN "maybe" ELSE phase[c]] ELSE phase
                         /\ UNCHANGED failed
     \/ \E c \in Conn, e \in Enders : /\ Alive(c) /\ phase' = [phase EXCEPT ![c] = "gone"] /\ Rec(Ev("end", c, e)) /\ UNCHANGED <<nidle, failed>>
     \/ /\ Rec(Ev("publish", 0, "")) /\ UNCHANGED <<phase, nidle, failed>>
     \/ \E n \in Nodes : /\ AllowPeerFail /\ n \notin failed /\ failed = {} /\ (\E c \in Conn : phase[c] = "live" /\ NodeOf[c] = n)
                         /\ failed' = failed \cup {n} /\ Rec(Ev("peerfail", n, "")) /\ UNCHANGED <<phase, nidle>>
Spec == Init /\ [][Next]_gvars
Dump == (Len(hist) = Depth) => PrintT(<<"BEHAV", ToJson(hist)>>)
N11 == [c \in Conn |-> 1]
N12 == [c \in Conn |-> IF c = 1 THEN 1 ELSE 2]
N121 == [c \in Conn |-> IF c = 2 THEN 2 ELSE 1]
=============================================================================
