// Package node assembles real wasp brokers in-process the way cmd/wasp/main.go does,
// from the exported constructors only, with a recording (and fault-injecting) wrapper at
// every injected dependency. The harness is the network (client pipes, gossip, inter-node
// RPC over bufconn), the clock of connection deadlines, and the source of expiry sweeps.
package node

import (
	"bytes"
	"context"
	"encoding/binary"
	"errors"
	"fmt"
	"hash/crc32"
	"io/ioutil"
	"net"
	"os"
	"path/filepath"
	"sort"
	"strings"
	"sync"
	"time"

	"github.com/golang/protobuf/proto"
	"github.com/hashicorp/memberlist"
	"github.com/vx-labs/cluster/membership"
	"github.com/vx-labs/commitlog/stream"
	"github.com/vx-labs/mqtt-protocol/packet"
	"github.com/vx-labs/wasp/v4/rpc"
	"github.com/vx-labs/wasp/v4/wasp"
	"github.com/vx-labs/wasp/v4/wasp/ack"
	"github.com/vx-labs/wasp/v4/wasp/api"
	"github.com/vx-labs/wasp/v4/wasp/audit"
	"github.com/vx-labs/wasp/v4/wasp/auth"
	"github.com/vx-labs/wasp/v4/wasp/distributed"
	"github.com/vx-labs/wasp/v4/wasp/messages"
	"github.com/vx-labs/wasp/v4/wasp/sessions"
	"github.com/vx-labs/wasp/v4/wasp/transport"
	"go.uber.org/zap"
	"google.golang.org/grpc"
	"google.golang.org/grpc/test/bufconn"

	"verifharness/internal/dstate"
	"verifharness/internal/mq"
	"verifharness/internal/rec"
	"verifharness/internal/vpipe"
)

// World is one scenario: a set of nodes, their client connections, the gossip network,
// the virtual clock and the recorder.
type World struct {
	R     *rec.Recorder
	Clock *vpipe.Clock
	Epoch time.Time

	mu          sync.Mutex
	rpcFailures int
	Nodes       map[int]*Node
	Conns       map[int]*Client
	Topics      map[string][]string // client-facing topic string -> level sequence (ground truth)
	Auth        wasp.AuthenticationHandler
	Reverse     bool   // the gossip network delivers pending broadcasts newest first
	Dup         bool   // at-least-once gossip: after every round of deliveries every earlier broadcast is delivered again, newest first
	MemLog      bool   // nodes use an in-memory message log (race-detector runs)
	Quiet       bool   // seams do not record (stress runs): only what the driver emits itself
	AuditDown   bool   // the nodes' audit sink is unreachable: every RecordEvent fails (it is a side channel and must not matter)
	RealRPC     bool   // nodes talk to each other through the project's rpc package (TLS, interceptors) instead of a bare gRPC connection
	Gates       *Gates // scheduler gates at the replicated-state calls (only with build tag "gates")

	cnt    map[string]int // hook counters
	cntCh  chan struct{}
	gossip []*GossipMsg
	mounts map[string]bool
	sentTo map[[2]int]bool
	ngoss  int
}

type GossipMsg struct {
	ID   int
	From int
	Raw  []byte
}

func NewWorld(r *rec.Recorder) *World {
	w := &World{R: r.Child(), Clock: vpipe.NewClock(), Epoch: time.Now(), Nodes: map[int]*Node{}, Conns: map[int]*Client{},
		Topics: map[string][]string{}, cnt: map[string]int{}, cntCh: make(chan struct{}, 1), Gates: newGates()}
	wasp.VerifHook = w.hook
	return w
}

// PayloadID is how payloads appear in traces: short payloads verbatim; padded ones ("id|xxxx") as
// "id#<length>:<crc32>", which still identifies the message and proves the padding intact.
func PayloadID(b []byte) string {
	i := bytes.IndexByte(b, '|')
	if i < 0 {
		return string(b)
	}
	return fmt.Sprintf("%s#%d:%08x", b[:i], len(b), crc32.ChecksumIEEE(b))
}

func (w *World) Ms(t time.Time) int64 { return int64(t.Sub(w.Epoch) / time.Millisecond) }

func (w *World) hook(point string, args ...interface{}) {
	// the counter that settle() observes and the event are one critical section of the recorder: whoever sees the
	// counter has its own later events ordered after this one (a counter bumped before its event was written let a
	// "quiescent" overtake a "shutdown.done" on a loaded machine)
	w.R.Do(func() rec.Ev {
		w.mu.Lock()
		w.cnt[point]++
		switch point {
		case "conn.pkt.done", "conn.read.err", "shutdown.done":
			if len(args) > 0 {
				w.cnt[point+":"+fmt.Sprint(args[0])]++
			}
		}
		w.mu.Unlock()
		switch point {
		case "shutdown.done":
			return rec.Ev{"op": "shutdown.done", "s": fmt.Sprint(args[0])}
		case "publish.done":
			return rec.Ev{"op": "publish.done", "s": fmt.Sprint(args[0]), "ok": args[1] == nil}
		case "writer.done":
			return rec.Ev{"op": "writer.done", "off": args[0], "ok": args[1] == nil}
		}
		return nil
	})
	select {
	case w.cntCh <- struct{}{}:
	default:
	}
}

func (w *World) Count(k string) int {
	w.mu.Lock()
	defer w.mu.Unlock()
	return w.cnt[k]
}

// WaitFor polls cond (re-evaluated on every hook) until it holds or the timeout passes.
func (w *World) WaitFor(cond func() bool, timeout time.Duration) bool {
	deadline := time.Now().Add(timeout)
	for {
		if cond() {
			return true
		}
		if time.Now().After(deadline) {
			return false
		}
		select {
		case <-w.cntCh:
		case <-time.After(2 * time.Millisecond):
		}
	}
}

func (w *World) Levels(topic string) []string {
	w.mu.Lock()
	defer w.mu.Unlock()
	if l, ok := w.Topics[topic]; ok {
		return l
	}
	return []string{"?unknown topic", topic}
}

// SplitMounted splits a broker-internal topic "<mount>/<topic>" into the mount point and the
// level sequence of the client-facing topic.
func (w *World) SplitMounted(mounted string) (string, []string) {
	// mount points may themselves contain '/': prefer the longest mount point some session was placed in
	w.mu.Lock()
	best := ""
	for m := range w.mounts {
		if len(m) > len(best) && strings.HasPrefix(mounted, m+"/") {
			best = m
		}
	}
	w.mu.Unlock()
	if best != "" {
		return best, w.Levels(mounted[len(best)+1:])
	}
	i := strings.IndexByte(mounted, '/')
	if i < 0 {
		return "", []string{"?no mount point", mounted}
	}
	return mounted[:i], w.Levels(mounted[i+1:])
}
func (w *World) Register(levels []string) string {
	s := strings.Join(levels, "/")
	w.mu.Lock()
	w.Topics[s] = levels
	w.mu.Unlock()
	return s
}

// ---------------------------------------------------------------- node

type Node struct {
	W      *World
	ID     int
	Dir    string
	ctx    context.Context
	cancel context.CancelFunc

	Bcast   *memberlist.TransmitLimitedQueue
	State   distributed.State
	Local   *localState
	Log     *logWrap
	Queue   *queueWrap
	Writer  wasp.Writer
	Dist    *wasp.PublishDistributor
	PP      wasp.PacketProcessor
	Mgr     wasp.Manager
	Members wasp.NodeMemberManager
	srv     *grpc.Server
	lis     *bufconn.Listener
	cc      *grpc.ClientConn
	Down    bool

	failRPC map[int]bool // destinations that are unreachable from this node
}

type noTaps struct{}

func (noTaps) Run(ctx context.Context)                                 {}
func (noTaps) Dispatch(context.Context, string, *packet.Publish) error { return nil }

type netTransport struct{ n *Node }

func (t netTransport) Call(id uint64, f func(*grpc.ClientConn) error) error {
	n := t.n
	n.W.mu.Lock()
	peer, ok := n.W.Nodes[int(id)]
	fail := n.failRPC[int(id)]
	n.W.mu.Unlock()
	var err error
	switch {
	case fail:
		// what the production transport (the membership pool of vx-labs/cluster) answers for a peer it cannot call, in turn:
		// the peer failed its health checks, the connection is broken
		n.W.mu.Lock()
		n.W.rpcFailures++
		k := n.W.rpcFailures
		n.W.mu.Unlock()
		if k%2 == 1 {
			err = membership.ErrPeerDisabled
		} else {
			err = errors.New("rpc error: code = Unavailable desc = injected: destination unreachable")
		}
	case !ok || peer.Down:
		err = membership.ErrPeerNotFound // the pool has dropped the peer
	default:
		err = f(peer.cc)
	}
	n.W.R.Emit(rec.Ev{"op": "rpc.call", "from": n.ID, "to": int(id), "ok": err == nil})
	return err
}

// Prefill describes a message log that already holds entries (and a consumer offset) when the node starts.
type Prefill struct {
	Count    int
	Consumed int
}

func (w *World) AddNode(id int) (*Node, error) { return w.AddNodePrefilled(id, nil) }

func (w *World) AddNodePrefilled(id int, pre *Prefill) (*Node, error) {
	dir, err := ioutil.TempDir("", fmt.Sprintf("waspnode%d-", id))
	if err != nil {
		return nil, err
	}
	if pre != nil {
		l, err := messages.New(dir)
		if err != nil {
			return nil, err
		}
		for i := 0; i < pre.Count; i++ {
			if err := l.Append(&packet.Publish{Header: &packet.Header{}, Topic: []byte("_prefill/x"), Payload: []byte(fmt.Sprintf("pre-%d", i))}); err != nil {
				return nil, err
			}
		}
		l.Close()
		buf := make([]byte, 8)
		binary.BigEndian.PutUint64(buf, uint64(pre.Consumed))
		if err := ioutil.WriteFile(filepath.Join(dir, "publish_distributor.state"), buf, 0650); err != nil {
			return nil, err
		}
	}
	n := &Node{W: w, ID: id, Dir: dir, failRPC: map[int]bool{}}
	ctx := wasp.StoreLogger(context.Background(), zap.NewNop())
	n.ctx, n.cancel = context.WithCancel(ctx)
	var real messages.Log
	if w.MemLog {
		real = newMemLog()
	} else if real, err = messages.New(dir); err != nil {
		return nil, err
	}
	n.Log = &logWrap{n: n, real: real}
	if pre != nil {
		n.Log.next = uint64(pre.Count)
		n.Log.appended = pre.Count - pre.Consumed // the consumer re-reads from the stored offset (inclusive)
		if pre.Count == 0 {
			n.Log.appended = 0
		}
	}
	n.Bcast = &memberlist.TransmitLimitedQueue{RetransmitMult: 1, NumNodes: func() int { return 1 }}
	n.Local = &localState{n: n, real: wasp.NewState(uint64(id))}
	if w.AuditDown {
		n.State = distributed.NewState(uint64(id), n.Bcast, dstate.DownAudit())
	} else {
		n.State = distributed.NewState(uint64(id), n.Bcast, audit.NoneRecorder())
	}
	n.State = wrapState(n.State, w.Gates)
	n.Dist = &wasp.PublishDistributor{ID: uint64(id), State: n.State.Subscriptions(), Storage: n.Log, Logger: zap.NewNop(), Transport: netTransport{n}}
	n.Queue = &queueWrap{n: n, real: ack.NewQueue()}
	n.Writer = wasp.NewWriter(uint64(id), n.State.Subscriptions(), n.Local, n.Queue)
	n.Members = wasp.NewNodeMemberManager(uint64(id), n.Log, n.State)
	n.PP = wasp.NewPacketProcessor(n.Local, n.State, n.Writer, noTaps{}, n.Dist, n.Queue)
	n.Mgr = wasp.NewConnectionManager(authWrap{w}, n.Local, n.State, n.Writer, n.PP, n.Queue)
	go wasp.SchedulePublishes(uint64(id), n.Writer, n.Log)(n.ctx)
	go n.Writer.Run(n.ctx, n.Log)
	go n.PP.Run(n.ctx)
	go n.Mgr.Run(n.ctx)
	// inter-node RPC
	n.lis = bufconn.Listen(1 << 20)
	bufDialer := grpc.WithContextDialer(func(context.Context, string) (net.Conn, error) { return n.lis.Dial() })
	if w.RealRPC {
		// the project's own RPC layer on both ends (server options and interceptors, client options and interceptors, TLS with
		// the self-signed certificate the server generates), as cmd/wasp wires it - only the socket is an in-memory one
		n.srv = rpc.Server(rpc.ServerConfig{})
	} else {
		n.srv = grpc.NewServer()
	}
	wasp.NewMQTTServer(n.State, n.Local, n.Log, n.Dist, nil).Serve(n.srv)
	go n.srv.Serve(n.lis)
	if w.RealRPC {
		n.cc, err = rpc.GRPCDialer(rpc.ClientConfig{InsecureSkipVerify: true})("bufnet", bufDialer)
	} else {
		n.cc, err = grpc.DialContext(n.ctx, "bufnet", bufDialer, grpc.WithInsecure())
	}
	if err != nil {
		return nil, err
	}
	w.mu.Lock()
	w.Nodes[id] = n
	w.mu.Unlock()
	return n, nil
}

func (n *Node) Stop() {
	n.cancel()
	n.srv.Stop()
	n.cc.Close()
	time.Sleep(5 * time.Millisecond)
	n.Log.real.Close()
	os.RemoveAll(n.Dir)
}

func (w *World) Close() {
	w.R.Off()
	for _, n := range w.Nodes {
		n.Stop()
	}
	wasp.VerifHook = func(string, ...interface{}) {}
}

func (n *Node) FailRPC(to int, on bool) {
	n.W.mu.Lock()
	n.failRPC[to] = on
	n.W.mu.Unlock()
}

// ---------------------------------------------------------------- auth seam

type authWrap struct{ w *World }

func (a authWrap) Authenticate(ctx context.Context, m auth.ApplicationContext, t auth.TransportContext) (auth.Principal, error) {
	h := a.w.Auth
	var p auth.Principal
	var err error
	if h == nil {
		// default: user "tenant:<mp>" selects mount point <mp>, anything else the default mount point
		p = auth.Principal{MountPoint: auth.DefaultMountPoint}
		if u := string(m.Username); strings.HasPrefix(u, "tenant:") {
			p.MountPoint = strings.TrimPrefix(u, "tenant:")
		}
		if string(m.Password) == "wrong" {
			err = auth.ErrAuthenticationFailed
		}
	} else {
		p, err = h.Authenticate(ctx, m, t)
	}
	// deterministic session identifiers: the harness names the connection in RemoteAddress
	p.ID = "s" + strings.TrimPrefix(t.RemoteAddress, "c")
	if err == nil {
		a.w.mu.Lock()
		if a.w.mounts == nil {
			a.w.mounts = map[string]bool{}
		}
		a.w.mounts[p.MountPoint] = true
		a.w.mu.Unlock()
	}
	a.w.R.Emit(rec.Ev{"op": "auth", "s": p.ID, "user": string(m.Username), "ok": err == nil, "mount": p.MountPoint})
	return p, err
}

// ---------------------------------------------------------------- registry seam

type localState struct {
	n    *Node
	real wasp.LocalState
}

func (l *localState) Get(id string) *sessions.Session   { return l.real.Get(id) }
func (l *localState) ListSessions() []*sessions.Session { return l.real.ListSessions() }
func (l *localState) Create(id string, s *sessions.Session) *sessions.Session {
	l.n.W.Gates.at("reg.create")
	var old *sessions.Session
	l.n.W.R.Do(func() rec.Ev {
		old = l.real.Create(id, s)
		l.n.W.mu.Lock()
		l.n.W.cnt["reg.create:"+id]++
		l.n.W.mu.Unlock()
		return rec.Ev{"op": "reg.create", "n": l.n.ID, "s": id, "mount": s.MountPoint(), "client": s.ClientID()}
	})
	return old
}
func (l *localState) Delete(id string) *sessions.Session {
	l.n.W.Gates.at("reg.delete")
	var old *sessions.Session
	l.n.W.R.Do(func() rec.Ev {
		old = l.real.Delete(id)
		return rec.Ev{"op": "reg.delete", "n": l.n.ID, "s": id, "found": old != nil}
	})
	return old
}

// ---------------------------------------------------------------- message log seam

type logWrap struct {
	n        *Node
	real     messages.Log
	mu       sync.Mutex
	next     uint64
	failNext int
	slowNext int
	slowFor  time.Duration
	appended int
	consumed int
}

func (l *logWrap) Close() error { return l.real.Close() }
func (l *logWrap) Append(p *packet.Publish) error {
	l.mu.Lock()
	defer l.mu.Unlock()
	var err error
	if l.slowNext > 0 {
		// a disk that answers late: the append succeeds, after a while (outside the recorder's critical section)
		l.slowNext--
		time.Sleep(l.slowFor)
	}
	mount, lv := l.n.W.SplitMounted(string(p.Topic))
	// the append and its event are one critical section of the recorder: the log consumer runs on another goroutine and
	// may hand the entry to the writer at once - whatever it records then (log.consume, srv.write) comes after this event
	l.n.W.R.Do(func() rec.Ev {
		if l.failNext > 0 {
			l.failNext--
			err = errors.New("injected: log append failed")
		} else {
			err = l.real.Append(p)
		}
		off := int64(-1)
		if err == nil {
			off = int64(l.next)
			l.next++
			l.appended++
		}
		return rec.Ev{"op": "log.append", "n": l.n.ID, "off": off, "mount": mount, "t": lv, "p": PayloadID(p.Payload), "q": p.Header.Qos,
			"r": p.Header.Retain, "ok": err == nil}
	})
	return err
}
func (l *logWrap) FailNext(k int) { l.mu.Lock(); l.failNext = k; l.mu.Unlock() }

// SlowNext makes the next k appends take d longer (and still succeed).
func (l *logWrap) SlowNext(k int, d time.Duration) {
	l.mu.Lock()
	l.slowNext, l.slowFor = k, d
	l.mu.Unlock()
}
func (l *logWrap) Counts() (int, int) {
	l.mu.Lock()
	defer l.mu.Unlock()
	return l.appended, l.consumed
}
func (l *logWrap) Get(off uint64) (*packet.Publish, error) {
	p, err := l.real.Get(off)
	l.n.W.R.Emit(rec.Ev{"op": "log.get", "n": l.n.ID, "off": off, "ok": err == nil})
	return p, err
}
func (l *logWrap) Consume(ctx context.Context, name string, f func(uint64, *packet.Publish) error) error {
	return l.real.Consume(ctx, name, func(off uint64, p *packet.Publish) error {
		l.n.W.R.Emit(rec.Ev{"op": "log.consume", "n": l.n.ID, "off": off})
		err := f(off, p)
		l.mu.Lock()
		l.consumed++
		l.mu.Unlock()
		return err
	})
}
func (l *logWrap) Stream(ctx context.Context, c stream.Consumer, f func(*packet.Publish) error) error {
	return l.real.Stream(ctx, c, f)
}

// memLog is an in-memory stand-in for messages.Log, used for runs under the race detector (the
// commitlog dependency has data races of its own between WriteEntry and its cursors, which are
// outside the repository and would drown the signal).
type memLog struct {
	mu   sync.Mutex
	cond *sync.Cond
	ents []*packet.Publish
}

func newMemLog() *memLog       { m := &memLog{}; m.cond = sync.NewCond(&m.mu); return m }
func (m *memLog) Close() error { return nil }
func (m *memLog) Append(p *packet.Publish) error {
	m.mu.Lock()
	m.ents = append(m.ents, p)
	m.cond.Broadcast()
	m.mu.Unlock()
	return nil
}
func (m *memLog) Get(off uint64) (*packet.Publish, error) {
	m.mu.Lock()
	defer m.mu.Unlock()
	if off >= uint64(len(m.ents)) {
		return nil, errors.New("offset out of range")
	}
	return m.ents[off], nil
}
func (m *memLog) Consume(ctx context.Context, name string, f func(uint64, *packet.Publish) error) error {
	go func() { <-ctx.Done(); m.mu.Lock(); m.cond.Broadcast(); m.mu.Unlock() }()
	next := 0
	for {
		m.mu.Lock()
		for next >= len(m.ents) && ctx.Err() == nil {
			m.cond.Wait()
		}
		if ctx.Err() != nil {
			m.mu.Unlock()
			return nil
		}
		p := m.ents[next]
		m.mu.Unlock()
		if err := f(uint64(next), p); err != nil {
			return err
		}
		next++
	}
}
func (m *memLog) Stream(ctx context.Context, c stream.Consumer, f func(*packet.Publish) error) error {
	<-ctx.Done()
	return nil
}

// ---------------------------------------------------------------- in-flight table seam

type queueWrap struct {
	n    *Node
	real ack.Queue
	mu   sync.Mutex
	tag  int
}

func kindOf(p packet.Packet) (string, int32) {
	switch x := p.(type) {
	case *packet.Publish:
		return fmt.Sprintf("pub%d", x.Header.Qos), x.MessageId
	case *packet.PubRec:
		return "pubrec", x.MessageId
	case *packet.PubRel:
		return "pubrel", x.MessageId
	case *packet.PubAck:
		return "puback", x.MessageId
	case *packet.PubComp:
		return "pubcomp", x.MessageId
	}
	return fmt.Sprintf("type%d", p.Type()), 0
}

var ackNames = map[string]string{"puback": "PUBACK", "pubrec": "PUBREC", "pubrel": "PUBREL", "pubcomp": "PUBCOMP"}

func (q *queueWrap) Insert(prefix string, pkt packet.Packet, deadline time.Time, cb ack.Callback) error {
	q.mu.Lock()
	q.tag++
	tag := q.n.ID*1000000 + q.tag // unique across the nodes of a scenario
	q.mu.Unlock()
	kind, id := kindOf(pkt)
	wrapped := func(expired bool, stored, received packet.Packet) {
		q.n.W.R.Emit(rec.Ev{"op": "ack.cb", "n": q.n.ID, "s": prefix, "id": id, "tag": tag, "expired": expired})
		cb(expired, stored, received)
	}
	// the entry becomes visible to Ack and Expire inside Insert: the event is written in the same critical section of the recorder,
	// so that a callback racing with the registration (an acknowledgement already on its way when a sweep re-arms the entry) can
	// never be recorded ahead of the registration it answers
	var err error
	done := false
	q.n.W.R.Do(func() rec.Ev {
		done = true
		err = q.real.Insert(prefix, pkt, deadline, wrapped)
		return rec.Ev{"op": "ack.insert", "n": q.n.ID, "s": prefix, "id": id, "kind": kind, "d": q.n.W.Ms(deadline), "tag": tag, "ok": err == nil}
	})
	if !done { // recorder switched off (scenario over): the table still has to work
		err = q.real.Insert(prefix, pkt, deadline, wrapped)
	}
	return err
}
func (q *queueWrap) Ack(prefix string, pkt packet.Packet) error {
	kind, id := kindOf(pkt)
	q.n.W.R.Emit(rec.Ev{"op": "ack.ack.call", "n": q.n.ID, "s": prefix, "id": id, "ty": ackNames[kind]})
	err := q.real.Ack(prefix, pkt)
	q.n.W.R.Emit(rec.Ev{"op": "ack.ack.ret", "n": q.n.ID, "s": prefix, "id": id, "ty": ackNames[kind], "ok": err == nil})
	return err
}
func (q *queueWrap) Expire(now time.Time) {
	q.n.W.R.Emit(rec.Ev{"op": "ack.expire.call", "n": q.n.ID, "now": q.n.W.Ms(now)})
	q.real.Expire(now)
	q.n.W.R.Emit(rec.Ev{"op": "ack.expire.ret", "n": q.n.ID, "now": q.n.W.Ms(now)})
}

// ---------------------------------------------------------------- client connections

// Client is the harness side of one client connection.
type Client struct {
	W    *World
	C    int
	Node *Node
	Conn *vpipe.Conn

	mu          sync.Mutex
	buf         []byte
	recv        []mq.Packet
	closed      bool // closed by the broker
	AutoAck     string
	sent        int // packets written after CONNECT
	established bool
	hostile     bool
	ended       bool
	OnPkt       func(p mq.Packet)
	hold        chan struct{}
}

func (w *World) Open(c int, nodeID int) *Client {
	w.mu.Lock()
	n := w.Nodes[nodeID]
	w.mu.Unlock()
	cl := &Client{W: w, C: c, Node: n, AutoAck: "all"}
	k := w.Clock.NewConn(c)
	cl.Conn = k
	k.OnWrite = cl.onWrite
	k.WriteGate = func([]byte) {
		cl.mu.Lock()
		h := cl.hold
		cl.mu.Unlock()
		if h != nil {
			<-h
		}
	}
	k.OnClose = func() {
		w.R.Do(func() rec.Ev { // flag and event together, see hook()
			cl.mu.Lock()
			cl.closed = true
			cl.mu.Unlock()
			return rec.Ev{"op": "srv.close", "c": c}
		})
		w.poke()
	}
	k.OnDeadline = func(ms int64) { w.R.Emit(rec.Ev{"op": "conn.deadline", "c": c, "ms": ms}) }
	k.OnTimeout = func() { w.R.Emit(rec.Ev{"op": "conn.timeout", "c": c}) }
	w.mu.Lock()
	w.Conns[c] = cl
	w.mu.Unlock()
	w.R.Emit(rec.Ev{"op": "conn.open", "c": c, "n": nodeID, "s": fmt.Sprintf("s%d", c)})
	go n.Mgr.Setup(n.ctx, transport.Metadata{Name: "vpipe", RemoteAddress: fmt.Sprintf("c%d", c), Channel: k})
	return cl
}

// SetGate closes or opens the client's receive gate: while closed, the broker's writes to this
// connection block (a slow consumer), which makes the writer lag behind the log consumer.
func (cl *Client) SetGate(closed bool) {
	cl.mu.Lock()
	defer cl.mu.Unlock()
	if closed && cl.hold == nil {
		cl.hold = make(chan struct{})
	} else if !closed && cl.hold != nil {
		close(cl.hold)
		cl.hold = nil
	}
}

func (w *World) poke() {
	select {
	case w.cntCh <- struct{}{}:
	default:
	}
}

// onWrite: bytes written by the broker. Complete packets are decoded and recorded here, i.e.
// at the moment of the write, in the order of the writes.
func (cl *Client) onWrite(b []byte) {
	if cl.Node.Down {
		return // the hosting node has failed: nothing it still does reaches anybody
	}
	cl.mu.Lock()
	cl.buf = append(cl.buf, b...)
	var pkts []mq.Packet
	for {
		n, err := mq.Split(cl.buf)
		if err != nil {
			break
		}
		p, derr := mq.Decode(append([]byte{}, cl.buf[:n]...))
		cl.buf = cl.buf[n:]
		if derr != nil {
			p.Type = -1
		}
		pkts = append(pkts, p)
	}
	cl.mu.Unlock()
	for _, p := range pkts {
		ev := rec.Ev{"op": "srv.write", "c": cl.C, "kind": p.Name()}
		switch p.Type {
		case mq.CONNACK:
			ev["code"] = p.Code
		case mq.PUBLISH:
			ev["t"] = cl.W.Levels(p.Topic)
			ev["p"] = PayloadID(p.Payload)
			ev["q"] = p.QoS
			ev["r"] = p.Retain
			ev["dup"] = p.Dup
			ev["id"] = p.ID
		case mq.PUBACK, mq.PUBREC, mq.PUBREL, mq.PUBCOMP, mq.UNSUBACK:
			ev["id"] = p.ID
		case mq.SUBACK:
			ev["id"] = p.ID
			ev["qs"] = p.QoSes
		}
		cl.W.R.Emit(ev)
		cl.mu.Lock()
		cl.recv = append(cl.recv, p)
		cb := cl.OnPkt
		cl.mu.Unlock()
		if cb != nil {
			cb(p)
		}
	}
	cl.W.poke()
}

// Send records and writes one client packet.
func (cl *Client) Send(ev rec.Ev, raw []byte) error {
	ev["op"] = "cli.send"
	ev["c"] = cl.C
	var err error
	cl.W.R.Do(func() rec.Ev {
		if cl.Node.Down {
			err = errors.New("node is down")
		} else {
			err = cl.Conn.ClientWrite(raw)
		}
		if err != nil {
			ev["dropped"] = true
		}
		return ev
	})
	if ev["kind"] == "RAW" {
		cl.mu.Lock()
		cl.hostile = true
		cl.mu.Unlock()
	} else { // raw bytes may be half a packet or several: they are not counted as one packet to process
		cl.mu.Lock()
		cl.sent++
		cl.mu.Unlock()
	}
	return err
}

func (cl *Client) Close() {
	cl.W.R.Emit(rec.Ev{"op": "cli.close", "c": cl.C})
	cl.Conn.ClientClose()
}

func (cl *Client) ClosedByBroker() bool {
	cl.mu.Lock()
	defer cl.mu.Unlock()
	return cl.closed
}

// Received returns the packets received so far.
func (cl *Client) Received() []mq.Packet {
	cl.mu.Lock()
	defer cl.mu.Unlock()
	return append([]mq.Packet{}, cl.recv...)
}

func (cl *Client) CountRecv(t int) int {
	cl.mu.Lock()
	defer cl.mu.Unlock()
	n := 0
	for _, p := range cl.recv {
		if p.Type == t {
			n++
		}
	}
	return n
}

// ---------------------------------------------------------------- gossip network

// Collect drains the broadcast queues of all nodes; each broadcast gets an id.
func (w *World) Collect() []*GossipMsg {
	var out []*GossipMsg
	w.mu.Lock()
	nodes := make([]*Node, 0, len(w.Nodes))
	for _, n := range w.Nodes {
		nodes = append(nodes, n)
	}
	w.mu.Unlock()
	for _, n := range nodes {
		if n.Down {
			continue
		}
		for {
			m := n.Bcast.GetBroadcasts(0, 1<<24)
			if len(m) == 0 {
				break
			}
			for _, raw := range m {
				w.mu.Lock()
				w.ngoss++
				g := &GossipMsg{ID: w.ngoss, From: n.ID, Raw: raw}
				w.gossip = append(w.gossip, g)
				w.mu.Unlock()
				w.R.Emit(rec.Ev{"op": "gossip.out", "n": n.ID, "mid": g.ID, "subs": decodeSubs(raw)})
				out = append(out, g)
			}
		}
	}
	return out
}

// decodeSubs lists the subscription changes a broadcast carries (ViewTrace.tla follows what each node knows): session, hosting
// node, filter levels (mount point first), and whether the entry says "subscribed".
func decodeSubs(raw []byte) []map[string]interface{} {
	out := []map[string]interface{}{}
	ev := &api.StateBroadcastEvent{}
	if proto.Unmarshal(raw, ev) != nil {
		return out
	}
	for _, s := range ev.Subscriptions {
		out = append(out, map[string]interface{}{"s": s.SessionID, "peer": s.Peer, "f": strings.Split(string(s.Pattern), "/"),
			"on": s.LastAdded > 0 && s.LastAdded > s.LastDeleted})
	}
	return out
}

func (w *World) Deliver(g *GossipMsg, to int) {
	w.mu.Lock()
	n := w.Nodes[to]
	if w.sentTo == nil {
		w.sentTo = map[[2]int]bool{}
	}
	w.sentTo[[2]int{g.ID, to}] = true
	w.mu.Unlock()
	if n == nil || n.Down || to == g.From {
		return
	}
	n.State.Distributor().NotifyMsg(g.Raw)
	w.R.Emit(rec.Ev{"op": "gossip.deliver", "to": to, "mid": g.ID})
}

// WasSent reports whether broadcast mid has been delivered to node to.
func (w *World) WasSent(mid, to int) bool {
	w.mu.Lock()
	defer w.mu.Unlock()
	return w.sentTo[[2]int{mid, to}]
}

func (w *World) Msg(id int) *GossipMsg {
	w.mu.Lock()
	defer w.mu.Unlock()
	for _, g := range w.gossip {
		if g.ID == id {
			return g
		}
	}
	return nil
}

// PumpAll delivers every broadcast that some node has not received yet, in the order of their ids.
func (w *World) PumpAll() int {
	k := 0
	for {
		w.Collect()
		w.mu.Lock()
		var todo [][2]int
		for _, g := range w.gossip {
			for id, n := range w.Nodes {
				if id != g.From && !n.Down && !w.sentTo[[2]int{g.ID, id}] {
					todo = append(todo, [2]int{g.ID, id})
				}
			}
		}
		w.mu.Unlock()
		if len(todo) == 0 {
			return k
		}
		if w.Reverse { // newest first: removals overtake the creations they refer to
			for i, j := 0, len(todo)-1; i < j; i, j = i+1, j-1 {
				todo[i], todo[j] = todo[j], todo[i]
			}
		}
		for _, t := range todo {
			w.Deliver(w.Msg(t[0]), t[1])
			k++
		}
		if w.Dup {
			// memberlist hands a broadcast out several times: retransmissions of old broadcasts arrive after newer ones
			w.mu.Lock()
			all := append([]*GossipMsg{}, w.gossip...)
			ids := []int{}
			for id := range w.Nodes {
				ids = append(ids, id)
			}
			w.mu.Unlock()
			sort.Ints(ids)
			for i := len(all) - 1; i >= 0; i-- {
				for _, id := range ids {
					w.Deliver(all[i], id)
				}
			}
		}
	}
}

// ---- client bookkeeping used by the scenario driver
func (cl *Client) SendConnect(ev rec.Ev, raw []byte) error {
	ev["op"] = "cli.send"
	ev["c"] = cl.C
	var err error
	cl.W.R.Do(func() rec.Ev {
		err = cl.Conn.ClientWrite(raw)
		return ev
	})
	return err
}
func (cl *Client) Hostile() bool { cl.mu.Lock(); defer cl.mu.Unlock(); return cl.hostile }
func (cl *Client) Sent() int {
	cl.mu.Lock()
	defer cl.mu.Unlock()
	return cl.sent
}
func (cl *Client) MarkEstablished()  { cl.mu.Lock(); cl.established = true; cl.mu.Unlock() }
func (cl *Client) Established() bool { cl.mu.Lock(); defer cl.mu.Unlock(); return cl.established }
func (cl *Client) MarkEnded()        { cl.mu.Lock(); cl.ended = true; cl.mu.Unlock() }
func (cl *Client) Ended() bool       { cl.mu.Lock(); defer cl.mu.Unlock(); return cl.ended }
