module github.com/vx-labs/commitlog

go 1.15

require (
	github.com/pkg/errors v0.9.1
	github.com/stretchr/testify v1.6.1
	github.com/tysontate/gommap v0.0.0-20190103205956-899e1273fb5c
	go.uber.org/zap v1.16.0
)
