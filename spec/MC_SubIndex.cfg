CONSTANTS Sessions = {"s1", "s2"}
 Filters <- MCFilters
 QoSes = {0, 1}
 TopicDomain <- MCTopics
SPECIFICATION Spec
INVARIANT OneEntryPerKey
PROPERTY NoInterference
CHECK_DEADLOCK FALSE
