"""C11  Sessions end only for cause, and ending one removes every trace of it.

(M) Session.tla model-checked (EndsOnlyForCause, ClosedAtEnd, NoTraceLeft) - see MC_Session_*.cfg.
(G) SessionGen: scripts of two connections on two nodes: connect, subscribe, ping, idle for
    0.5 / 0.95 keep-alives (must survive - also right after CONNECT, also repeated) or 2.1 / 10
    keep-alives (may end), then DISCONNECT / connection loss / malformed packet / second
    CONNECT, a publish after the end, hosting-node failure (thorough).
(T) real nodes on virtual-time connections; BrokerTrace validates: no time-out within the
    keep-alive of the last client packet, no unregistration without cause, the connection closed at
    the end, nothing written to an ended session, and at quiescence every node lists exactly the
    live sessions and their subscriptions, the registries hold exactly the sessions being served.
"""
import vlib
from checks import brokerlib, racelib, sessionlib

CAST = {
    "nodes": [1, 2], "ka": 10,
    "conns": {1: {"n": 1, "client": "a", "filters": [{"f": ["x", "#"], "q": 1}, {"f": ["x", "y"], "q": 0}]},
              2: {"n": 2, "client": "b", "filters": [{"f": ["x", "+"], "q": 0}, {"f": ["#"], "q": 1}]}},
    "publishers": [{"c": 8, "n": 1, "topics": [["x", "y"], ["x"]], "q": 1}],
}

# round 8: legal filters and topics that are not plain ASCII words - characters outside ASCII (whose UTF-8 encoding contains bytes of
# every range), a level of 300 bytes, a level with a space, a '$' level below the first: none of them is a reason to end a session
CAST_U = {
    "nodes": [1, 2], "ka": 10,
    "conns": {1: {"n": 1, "client": "a", "filters": [{"f": ["Stra\u00dfe", "+", "Gr\u00f6\u00dfe"], "q": 1}, {"f": ["\u5317", "#"], "q": 0}, {"f": ["L" * 300, "+"], "q": 1}]},
              2: {"n": 2, "client": "b", "filters": [{"f": ["\u20ac \u00c4", "+"], "q": 0}, {"f": ["home", "$state", "#"], "q": 1}]}},
    "publishers": [{"c": 8, "n": 1, "topics": [["Stra\u00dfe", "x", "Gr\u00f6\u00dfe"], ["\u5317"], ["\u20ac \u00c4", "\u00e9"], ["home", "$state"], ["L" * 300, "z"]], "q": 1}],
}


def takeover_then_failure():
    """A subscribed session on node 2 is displaced by a session of the same client id on node 1 and has not noticed yet (it would
    at its next PINGREQ) when node 2 fails: its subscriptions name a dead node and belong to no listed session - they must go."""
    out = []
    for nsubs in (1, 2):
        for newsub in (False, True):
            for other in (False, True):
                ops = [{"op": "connect", "c": 8, "n": 1, "client": "pub8", "user": "", "ka": 60000},
                       {"op": "connect", "c": 1, "n": 2, "client": "same", "ka": 10},
                       {"op": "sub", "c": 1, "id": 4, "fs": [{"f": ["x", "#"], "q": 1}] + ([{"f": ["x", "y"], "q": 0}] if nsubs == 2 else [])}]
                if other:
                    ops += [{"op": "connect", "c": 3, "n": 2, "client": "bystander", "ka": 10},
                            {"op": "sub", "c": 3, "id": 4, "fs": [{"f": ["x", "+"], "q": 0}]}]
                ops += [{"op": "connect", "c": 2, "n": 1, "client": "same", "ka": 10}]
                if newsub:
                    ops.append({"op": "sub", "c": 2, "id": 5, "fs": [{"f": ["x", "y"], "q": 1}]})
                ops += [{"op": "peerfail", "n": 2, "ms": 3300},
                        {"op": "send", "c": 2, "kind": "PINGREQ"},
                        {"op": "pub", "c": 8, "t": ["x", "y"], "p": "after", "q": 1, "id": 7},
                        {"op": "quiesce"}]
                out.append({"nodes": [1, 2], "ops": ops})
    return out


def check(run):
    thorough = run.tier == "thorough"
    run.model_check("MC_Session", "MC_Session_cleanup.cfg")
    hs = sessionlib.gen(run, "c11", [1, 2], [1, 2], "N12", 5 if not thorough else 6, ["short", "edge", "long", "verylong"],
                        ["disconnect", "close", "malformed", "second-connect"], maxidle=3)
    hs = [h for h in hs if h[0]["op"] == "connect"]
    # idling must be exercised directly after CONNECT too: keep those, sample the rest
    first_idle = [h for h in hs if len(h) > 1 and h[1]["op"] == "idle"]
    rest = [h for h in hs if not (len(h) > 1 and h[1]["op"] == "idle")]
    if not thorough:
        first_idle = first_idle[:: max(1, len(first_idle) // 90)]
        rest = rest[:: max(1, len(rest) // 160)]
    else:
        first_idle = first_idle[:: max(1, len(first_idle) // 1200)]
        rest = rest[:: max(1, len(rest) // 2500)]
    scns = [sessionlib.build(h, CAST_U if i % 3 == 1 else CAST) for i, h in enumerate(first_idle + rest)]
    pf = sessionlib.gen(run, "c11pf", [1, 2], [1, 2], "N12", 4, ["short"], ["disconnect", "close"], maxidle=1, peerfail=True)
    pf = [h for h in pf if any(e["op"] == "peerfail" for e in h) and h[0]["op"] == "connect"]
    pf = pf[:: max(1, len(pf) // (60 if thorough else 8))]
    scns += [sessionlib.build(h, CAST) for h in pf]
    # the same kind of scripts with every broadcast held back and then delivered newest first (removals overtake the creations
    # they refer to); without cross-node publishes, whose routing needs the publisher's view to be current
    held = [h for h in rest if not any(e["op"] == "publish" for e in h) and any(e["op"] == "sub" for e in h) and any(e["op"] == "end" for e in h)]
    held = held[:: max(1, len(held) // (400 if thorough else 40))]
    for h in held:
        s0 = sessionlib.build(h, dict(CAST, publishers=[]))
        ops = s0["ops"]
        tail = [o for o in ops if o["op"] == "quiesce" or (o["op"] == "send" and o.get("kind") == "PINGREQ" and o is not None and ops.index(o) >= len(ops) - 3)]
        body = ops[:len(ops) - len(tail)]
        s0["ops"] = [{"op": "gossip", "mode": "hold"}] + body + [{"op": "gossip", "mode": "reverse"}, {"op": "settle"}] + tail
        scns.append(s0)
    # "however long it idles in between": long-lived well-behaved clients - random walks of 14 steps of one connection that
    # subscribes, is delivered to, pings, and idles for 0.5 / 0.95 keep-alives many times over; a client packet (PINGREQ) is
    # inserted after every idle period, so the client is within its keep-alive throughout and must be served to the end
    lg = sessionlib.gen(run, "c11long", [1], [1], "N11", 14, ["short", "edge"], [], maxidle=14, simulate="num=%d" % (400 if thorough else 40))
    lg = [h for h in lg if h[0]["op"] == "connect" and sum(1 for e in h if e["op"] == "idle") >= 5]
    nlong = 0
    for h in lg:
        h2 = []
        for e in h:
            h2.append(e)
            if e["op"] == "idle":
                h2.append({"op": "ping", "c": 1, "x": ""})
        scns.append(sessionlib.build(h2, CAST))
        nlong += 1
    scns += takeover_then_failure()
    # the audit sink is a side channel: a share of the scripts runs with it unreachable on every node
    for i, s in enumerate(scns):
        if i % 6 == 5:
            s["auditdown"] = True
    run.log("%d session scripts from TLC (%d idle right after CONNECT, %d with a node failure, %d long-lived)" % (len(scns), len(first_idle), len(pf), nlong))
    tpath, crashes = brokerlib.execute(run, scns, "c11", shards=14, timeout=3000)
    if crashes:
        raise vlib.Inconclusive("broker driver died: %s" % crashes[0][2][-2000:])
    v = vlib.Verdict(run)
    nev, nscn, validated, rejected, tstates = brokerlib.validate(run, "C11", scns, tpath, v)
    # a client that hangs up (or pipelines DISCONNECT) inside its own CONNECT, and
    # a SUBSCRIBE whose sender hangs up while its handler is parked half-way (before the subscription is registered / before the
    # retained lookup): the session ends for cause and every trace of it goes, whatever the handler got done
    rn, rparked, rnev, rval, rrej, rts = racelib.check_family(
        run, "C11", v, keep=lambda s: any(o["op"] == "race" and ((o["a"]["op"] == "sub" and o["b"][0]["op"] == "close") or
                                                              (o["a"]["op"] == "connect" and o["a"].get("client") == "hasty")) for o in s["ops"]), tag="abort")
    validated += rval
    tstates += rts
    rc = v.finish()
    vlib.write_evidence(run, {
        "aborted_subscribes": {"interleavings": rn, "parked_at_their_gate": rparked, "events": rnev, "rejections": rrej},
        "traces_validated_against_impl": validated,
        "evaluations": len(scns),
        "distinct_nontrivial": len(scns),
        "rule": "scenario = TLC-generated script of depth %d for two connections on two nodes over connect / subscribe / ping / idle 0.5, 0.95, 2.1, 10 "
                "keep-alives (max 3 per script, at any position incl. right after CONNECT) / DISCONNECT / close / malformed packet / second CONNECT / "
                "publish, sampled evenly; plus scripts with a hosting-node failure (real 3.3 s purge wait); plus long-lived single-connection walks of 14 "
                "steps with >= 5 idle periods of 0.5 / 0.95 keep-alives each followed by a PINGREQ; one scenario in six with the audit sink "
                "unreachable; 8 schedules in which a displaced, still subscribed session's node fails before the session notices; every scenario ends with a probe of all nodes"
                % (6 if thorough else 5),
        "events_validated": nev, "trace_spec_states": tstates, "rejections": len(rejected),
        "samples": [first_idle[0] if first_idle else hs[0], rest[len(rest) // 2], {"scenario": scns[-1]}],
    }, ["'within its keep-alive' = the client's silence since its last packet (CONNECT included) is at most the keep-alive it asked for; how much "
        "longer the broker waits (it arms twice the keep-alive) is not constrained",
        "gossip is fully delivered between steps; connection deadlines run on the harness' virtual clock"],
        violations=v.n_new)
    run.log("validated %d scripts (%d events), %d rejected (%d known)" % (validated, nev, len(rejected), v.n_known))
    return rc


def replay(run, path):
    import json
    if json.load(open(path)).get("kind") == "race":
        return racelib.replay(run, "C11", path)
    return brokerlib.replay(run, "C11", path)
