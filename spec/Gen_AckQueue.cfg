CONSTANTS Sess = {"s1", "s2"} Ids = {1, 2} Deadlines = {5000, 5300, 1000} Sweeps = {2500, 5200, 9000}
 Sec = 1000 Depth = 3 GenKinds = {"pub1", "pubrec"} GenAcks = {"PUBACK", "PUBREC", "PUBREL", "PUBCOMP"} Pre <- NoPre
SPECIFICATION GSpec
CONSTRAINT Dump
CHECK_DEADLOCK FALSE
