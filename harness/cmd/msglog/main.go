// Driver for C15: the real messages.Log with its real mmap'd consumer state file, consumed by
// child processes that are SIGKILLed at exact points (inside the callback, after the callback
// returned, after the offset was written, after the truncation check) and restarted.
//
// parent:  msglog -scenarios file -out trace.ndjson [-jobs N]
//
//	scenario = {"rounds":[{"append":700,"kill":{"point":"cb.ret","off":9}}, {"append":0,"kill":{"point":"incb","off":11}},
//	            {"append":50,"at":{"off":20,"n":30}, "clean":true}]}
//
// child:   msglog -child -dir D -run R -len L -append N [-at off:n] (-kill point:off | -clean)
//
//	writes one JSON event per line to stdout with unbuffered writes.
package main

import (
	"bufio"
	"bytes"
	"context"
	"encoding/binary"
	"encoding/json"
	"errors"
	"flag"
	"fmt"
	"io/ioutil"
	"os"
	"os/exec"
	"path/filepath"
	"strconv"
	"sync"
	"syscall"
	"time"

	"github.com/hashicorp/memberlist"
	"github.com/vx-labs/mqtt-protocol/packet"
	"github.com/vx-labs/wasp/v4/wasp"
	"github.com/vx-labs/wasp/v4/wasp/ack"
	"github.com/vx-labs/wasp/v4/wasp/audit"
	"github.com/vx-labs/wasp/v4/wasp/distributed"
	"github.com/vx-labs/wasp/v4/wasp/messages"
)

type killSpec struct {
	Point string `json:"point"`
	Off   uint64 `json:"off"`
}
type atSpec struct {
	Off uint64 `json:"off"`
	N   int    `json:"n"`
}
type round struct {
	Append int       `json:"append"`
	At     *atSpec   `json:"at"`
	Kill   *killSpec `json:"kill"`
	Clean  bool      `json:"clean"`
	// Refuse: after the round's appends the log is offered one message it must refuse (larger than the 20 000 000 bytes an
	// entry of the commit log may hold), then two ordinary messages.  A refused append is not an append.
	Refuse bool `json:"refuse"`
}
type scenario struct {
	Rounds []round `json:"rounds"`
	// Sched: the log is consumed through wasp.SchedulePublishes (what cmd/wasp runs) with a writer that records what is
	// handed to it, instead of a bare Consume call
	Sched bool `json:"sched"`
}

// handWriter is a wasp.Writer whose Schedule is the hand-over point; everything else is the embedded real writer's
// (the interface names an unexported type, so it can only be satisfied by embedding).
type handWriter struct {
	wasp.Writer
	f func(off uint64)
}

func (h handWriter) Schedule(ctx context.Context, offset uint64) { h.f(offset) }

func emit(v map[string]interface{}) {
	b, _ := json.Marshal(v)
	os.Stdout.Write(append(b, '\n'))
}

func child(dir string, run int, length uint64, nappend int, at *atSpec, kill *killSpec, clean bool, sched bool, refuse bool) {
	persisted := uint64(0)
	if b, err := ioutil.ReadFile(filepath.Join(dir, "publish_distributor.state")); err == nil && len(b) == 8 {
		persisted = binary.BigEndian.Uint64(b)
	}
	log, err := messages.New(dir)
	if err != nil {
		emit(map[string]interface{}{"op": "openfail", "run": run, "err": err.Error()})
		os.Exit(3)
	}
	emit(map[string]interface{}{"op": "start", "run": run, "persisted": persisted})
	next := length
	appendN := func(n int) {
		for i := 0; i < n; i++ {
			err := log.Append(&packet.Publish{Header: &packet.Header{Qos: 1}, Topic: []byte("mp/t"), Payload: []byte(strconv.FormatUint(next, 10))})
			if err != nil {
				emit(map[string]interface{}{"op": "appendfail", "err": err.Error()})
				os.Exit(3)
			}
			next++
		}
		if n > 0 {
			emit(map[string]interface{}{"op": "append", "n": n})
		}
	}
	appendN(nappend)
	if refuse {
		big := make([]byte, 20000100)
		copy(big, strconv.FormatUint(next, 10))
		err := log.Append(&packet.Publish{Header: &packet.Header{Qos: 1}, Topic: []byte("mp/t"), Payload: big})
		if err == nil {
			next++ // accepted after all: an entry like any other (its payload is its offset, padded)
			emit(map[string]interface{}{"op": "append", "n": 1})
		} else {
			emit(map[string]interface{}{"op": "append.refused", "err": err.Error()})
		}
		appendN(2)
	}
	die := func(point string, off uint64) {
		emit(map[string]interface{}{"op": "kill", "point": point, "off": off})
		syscall.Kill(os.Getpid(), syscall.SIGKILL)
		select {}
	}
	ctx, cancel := context.WithCancel(context.Background())
	messages.VerifHook = func(point string, off uint64) {
		p := point[len("consume."):]
		emit(map[string]interface{}{"op": p, "off": off})
		if kill != nil && kill.Point == p && kill.Off == off {
			die(p, off)
		}
		if clean && p == "truncated" && off+1 == next {
			cancel()
		}
		if kill != nil && kill.Point == "stop" && p == "truncated" && off == kill.Off {
			cancel() // a graceful stop in the middle of a backlog: the process ends by itself, deferred clean-ups run
		}
		if kill != nil && kill.Point != "stop" && kill.Point != "fail" && p == "truncated" && off+1 == next && off >= kill.Off {
			// the kill point lies behind the resume offset: a harness mistake, not a defect
			emit(map[string]interface{}{"op": "kill-not-reached", "run": run})
			cancel()
		}
	}
	stall := time.AfterFunc(20*time.Second, func() {
		emit(map[string]interface{}{"op": "stall", "run": run})
		os.Exit(0)
	})
	defer stall.Stop()
	if clean && persisted+1 >= next && next > 0 {
		// nothing new to consume beyond the replay of the stored offset: still run the consumer once
	}
	handOver := func(off uint64, p *packet.Publish) error {
		ok := p != nil && bytes.Equal(bytes.TrimRight(p.Payload, "\x00"), []byte(strconv.FormatUint(off, 10)))
		emit(map[string]interface{}{"op": "handed", "off": off, "intact": ok})
		if kill != nil && kill.Point == "incb" && kill.Off == off {
			die("incb", off)
		}
		if at != nil && at.Off == off {
			appendN(at.N)
			at = nil
		}
		if kill != nil && kill.Point == "fail" && kill.Off == off {
			// the scheduler refuses this message: Consume gives up with that error, the process ends by itself
			emit(map[string]interface{}{"op": "cb.fail", "off": off})
			return errors.New("hand-over refused")
		}
		return nil
	}
	if sched {
		st := distributed.NewState(1, &memberlist.TransmitLimitedQueue{RetransmitMult: 1, NumNodes: func() int { return 1 }}, audit.NoneRecorder())
		w := handWriter{Writer: wasp.NewWriter(1, st.Subscriptions(), wasp.NewState(1), ack.NewQueue()), f: func(off uint64) {
			p, gerr := log.Get(off)
			if gerr != nil {
				p = nil
			}
			handOver(off, p)
		}}
		wasp.SchedulePublishes(1, w, log)(ctx)
	} else {
		err = log.Consume(ctx, "publish_distributor", handOver)
	}
	log.Close()
	emit(map[string]interface{}{"op": "exit", "run": run, "err": fmt.Sprint(err)})
}

func runScenario(self string, idx int, s scenario) [][]byte {
	dir, _ := ioutil.TempDir("", "msglog")
	defer os.RemoveAll(dir)
	var out [][]byte
	add := func(v map[string]interface{}) {
		b, _ := json.Marshal(v)
		out = append(out, b)
	}
	add(map[string]interface{}{"op": "new", "scn": idx})
	length := uint64(0)
	for r, rd := range s.Rounds {
		args := []string{"-child", "-dir", dir, "-run", strconv.Itoa(r + 1), "-len", strconv.FormatUint(length, 10), "-append", strconv.Itoa(rd.Append)}
		if rd.At != nil {
			args = append(args, "-at", fmt.Sprintf("%d:%d", rd.At.Off, rd.At.N))
		}
		if rd.Kill != nil {
			args = append(args, "-kill", fmt.Sprintf("%s:%d", rd.Kill.Point, rd.Kill.Off))
		}
		if rd.Clean {
			args = append(args, "-clean")
		}
		if s.Sched {
			args = append(args, "-sched")
		}
		if rd.Refuse {
			args = append(args, "-refuse")
		}
		cmd := exec.Command(self, args...)
		var buf bytes.Buffer
		cmd.Stdout = &buf
		cmd.Stderr = &buf
		done := make(chan error, 1)
		cmd.Start()
		go func() { done <- cmd.Wait() }()
		select {
		case <-done:
		case <-time.After(40 * time.Second):
			cmd.Process.Kill()
			<-done
			add(map[string]interface{}{"op": "harness-timeout", "run": r + 1})
		}
		sc := bufio.NewScanner(&buf)
		sc.Buffer(make([]byte, 1<<20), 1<<26)
		killed := false
		for sc.Scan() {
			line := append([]byte{}, sc.Bytes()...)
			var e map[string]interface{}
			if json.Unmarshal(line, &e) != nil {
				add(map[string]interface{}{"op": "child-output", "text": string(line)})
				continue
			}
			if e["op"] == "append" {
				length += uint64(e["n"].(float64))
			}
			if e["op"] == "kill" {
				killed = true
			}
			out = append(out, line)
		}
		if rd.Kill != nil && !killed && rd.Kill.Point != "stop" && rd.Kill.Point != "fail" {
			// the kill point was not reached in this round (e.g. offset beyond the log): stop the consumer
			add(map[string]interface{}{"op": "kill-not-reached", "run": r + 1})
		}
	}
	add(map[string]interface{}{"op": "end", "len": length})
	return out
}

func main() {
	isChild := flag.Bool("child", false, "")
	dir := flag.String("dir", "", "")
	run := flag.Int("run", 1, "")
	length := flag.Uint64("len", 0, "")
	nappend := flag.Int("append", 0, "")
	atS := flag.String("at", "", "")
	killS := flag.String("kill", "", "")
	clean := flag.Bool("clean", false, "")
	schedF := flag.Bool("sched", false, "")
	refuseF := flag.Bool("refuse", false, "")
	scn := flag.String("scenarios", "", "")
	outp := flag.String("out", "trace.ndjson", "")
	jobs := flag.Int("jobs", 8, "")
	flag.Parse()
	if *isChild {
		var at *atSpec
		var kill *killSpec
		if *atS != "" {
			at = &atSpec{}
			fmt.Sscanf(*atS, "%d:%d", &at.Off, &at.N)
		}
		if *killS != "" {
			kill = &killSpec{}
			var i int
			for i = 0; i < len(*killS) && (*killS)[i] != ':'; i++ {
			}
			kill.Point = (*killS)[:i]
			kill.Off, _ = strconv.ParseUint((*killS)[i+1:], 10, 64)
		}
		child(*dir, *run, *length, *nappend, at, kill, *clean, *schedF, *refuseF)
		return
	}
	self, _ := os.Executable()
	in, err := os.Open(*scn)
	if err != nil {
		panic(err)
	}
	var scns []scenario
	sc := bufio.NewScanner(in)
	sc.Buffer(make([]byte, 1<<20), 1<<26)
	for sc.Scan() {
		var s scenario
		if err := json.Unmarshal(sc.Bytes(), &s); err != nil {
			panic(err)
		}
		scns = append(scns, s)
	}
	results := make([][][]byte, len(scns))
	var wg sync.WaitGroup
	sem := make(chan struct{}, *jobs)
	for i := range scns {
		wg.Add(1)
		sem <- struct{}{}
		go func(i int) {
			defer wg.Done()
			defer func() { <-sem }()
			results[i] = runScenario(self, i+1, scns[i])
		}(i)
	}
	wg.Wait()
	f, _ := os.Create(*outp)
	w := bufio.NewWriter(f)
	for _, r := range results {
		for _, l := range r {
			w.Write(l)
			w.WriteByte('\n')
		}
	}
	w.Flush()
	f.Close()
	fmt.Fprintf(os.Stderr, "scenarios=%d\n", len(scns))
}
