------------------------------- MODULE MC_Trie -------------------------------
EXTENDS Trie
Spec == Init /\ [][Next]_vars
SubKeys  == { <<"a">>, <<"a", "#">>, <<"a", "+">>, <<"#">>, <<"a", "b">>, <<"+", "b">>, <<"a", "">> }
SubQs    == { <<"a">>, <<"a", "b">>, <<"a", "">>, <<"b">>, <<"a", "b", "c">>, <<"", "b">> }
RetKeys  == { <<"a">>, <<"a", "b">>, <<"a", "b", "c">>, <<"a", "">>, <<"b">> }
RetQs    == { <<"#">>, <<"a", "#">>, <<"a", "+">>, <<"+">>, <<"a">>, <<"a", "b", "#">>, <<"+", "+">>, <<"a", "">>, <<"+", "b", "#">> }
Stored == {p \in nodes : val[p] # ""}
\* C19: the tree is a map over full keys: what is stored is exactly what the last write per key left
PrefixClosed == \A p \in nodes : Prefixes(p) \subseteq nodes
NoEmptyLeaf  == Mode = "subs" => \A p \in nodes : (p # <<>> /\ Children(nodes, p) = {}) => val[p] # ""
OnlyKeys     == Stored \subseteq Keys
\* C01: what a topic's walk reaches is exactly the stored filters that match it
WalkIsMatches == \A t \in Queries : Walk(t) = {f \in Stored : Matches(f, t)}
\* C07: what a filter matches is exactly the stored topics it matches
MatchIsMatches == \A f \in Queries : Match(f) = {t \in Stored : Matches(f, t)}
\* C19: one operation changes one key
OneKey == [][Cardinality({k \in Keys : (IF k \in nodes THEN val[k] ELSE "") # (IF k \in nodes' THEN val'[k] ELSE "")}) <= 1]_vars
=============================================================================
