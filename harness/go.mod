module verifharness

go 1.14

require (
	github.com/golang/protobuf v1.4.3
	github.com/gorilla/websocket v1.4.1
	github.com/hashicorp/memberlist v0.2.2
	github.com/vx-labs/cluster v1.7.10
	github.com/vx-labs/commitlog v1.2.4
	github.com/vx-labs/mqtt-protocol v5.1.1+incompatible
	github.com/vx-labs/wasp/v4 v4.0.0
	go.uber.org/zap v1.16.0
	google.golang.org/grpc v1.33.2
)

replace github.com/vx-labs/wasp/v4 => /repo
