//go:build !gates

package node

import "github.com/vx-labs/wasp/v4/wasp/distributed"

// Without the build tag "gates" the replicated state is used as it is (see stategate.go).
type Gates struct{}

const GatesBuilt = false

func newGates() *Gates                                          { return &Gates{} }
func (g *Gates) Arm(point string)                               {}
func (g *Gates) Parked(point string) <-chan struct{}            { return nil }
func (g *Gates) Release(point string)                           {}
func (g *Gates) at(point string)                                {}
func wrapState(s distributed.State, g *Gates) distributed.State { return s }
