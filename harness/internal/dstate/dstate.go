// Package dstate builds a real distributed.State whose broadcast queue is owned by the
// harness (the harness is the gossip network).
package dstate

import (
	"github.com/hashicorp/memberlist"
	"github.com/vx-labs/wasp/v4/wasp/audit"
	"github.com/vx-labs/wasp/v4/wasp/distributed"
)

type Node struct {
	ID    uint64
	State distributed.State
	Bcast *memberlist.TransmitLimitedQueue
}

func New(id uint64) *Node {
	b := &memberlist.TransmitLimitedQueue{RetransmitMult: 1, NumNodes: func() int { return 1 }}
	return &Node{ID: id, Bcast: b, State: distributed.NewState(id, b, audit.NoneRecorder())}
}

// Drain returns the broadcasts queued since the last call (each exactly once).
func (n *Node) Drain() [][]byte {
	var out [][]byte
	for {
		m := n.Bcast.GetBroadcasts(0, 1<<24)
		if len(m) == 0 {
			return out
		}
		out = append(out, m...)
	}
}
