-------------------------------- MODULE Crdt --------------------------------
(* The three gossip-replicated last-writer-wins element sets of                       *)
(* wasp/distributed (sessions by id, subscriptions by (session, filter), retained     *)
(* messages by topic), modelled as one generic LWW map per node; C08, C09, C10.       *)
(*                                                                                    *)
(*   st[n]   : Key -> [la, ld, v, own]   LastAdded, LastDeleted, value, owning peer   *)
(*   net     : set of messages; a message is [id, es] with es a set of <<key, entry>> *)
(*             messages are never consumed: duplication and re-ordering for free      *)
(*   seen[n] : set of <<key, entry>> updates applied at n, locally or remotely        *)
(*   tick[n] : local logical time, strictly increasing; node clocks are skewed        *)
(*                                                                                    *)
(* Local mutators stamp with the node's clock, merge locally like any remote update   *)
(* and queue ONE message that carries every entry they touched.  Deliver merges a     *)
(* batch of messages, Push merges a node's complete state (tombstones included).      *)
EXTENDS Integers, FiniteSets, Sequences, TLC
CONSTANTS Node, Key, Vals, MaxOps, Skew, SessOf     \* Skew \in [Node -> Int]; SessOf \in [Key -> STRING] (bulk group)
VARIABLES st, tick, net, seen, nops
vars == <<st, tick, net, seen, nops>>
None == [la |-> 0, ld |-> 0, v |-> "", own |-> ""]
\* ---- the LWW core (crdt/entry.go)
Ts(e)        == IF e.la > e.ld THEN e.la ELSE e.ld
Added(e)     == e.la > 0 /\ e.la > e.ld
Merge(o, n)  == IF Ts(n) > Ts(o) THEN n ELSE o                  \* replace only if strictly newer
\* what a node lists for a set of applied updates: per key the value of the greatest timestamp
MaxOf(es)    == CHOOSE u \in es : \A w \in es : Ts(u[2]) >= Ts(w[2])
KeysOf(S)    == {u[1] : u \in S}
ListingOf(S) == {<<k, (MaxOf({u \in S : u[1] = k}))[2].v, (MaxOf({u \in S : u[1] = k}))[2].own>> :
                    k \in {kk \in KeysOf(S) : Added((MaxOf({u \in S : u[1] = kk}))[2])}}
\* ---- model
NodeSeq == CHOOSE s \in [1..Cardinality(Node) -> Node] : \A i, j \in 1..Cardinality(Node) : i # j => s[i] # s[j]
Pos(n) == CHOOSE i \in 1..Cardinality(Node) : NodeSeq[i] = n
Stamp(n) == (tick[n] + Skew[n]) * Cardinality(Node) + Pos(n)     \* unique across nodes
Visible(n) == {k \in Key : Added(st[n][k])}
Listing(n) == {<<k, st[n][k].v, st[n][k].own>> : k \in Visible(n)}
Init == /\ st = [n \in Node |-> [k \in Key |-> None]]
        /\ tick = [n \in Node |-> 3]
        /\ net = {} /\ seen = [n \in Node |-> {}] /\ nops = 0
ApplyAll(s, m) == [k \in Key |-> LET es == {u \in m : u[1] = k} IN
                     IF es = {} THEN s[k] ELSE Merge(s[k], (MaxOf(es))[2])]
Local(n, upd) == /\ nops < MaxOps /\ nops' = nops + 1
                 /\ tick' = [tick EXCEPT ![n] = @ + 1]
                 /\ st' = [st EXCEPT ![n] = ApplyAll(@, upd)]
                 /\ net' = net \cup {[id |-> nops + 1, es |-> upd]}
                 /\ seen' = [seen EXCEPT ![n] = @ \cup upd]
Tomb(n, k)   == <<k, [la |-> st[n][k].la, ld |-> Stamp(n), v |-> st[n][k].v, own |-> st[n][k].own]>>
Add(n, k, v) == Local(n, {<<k, [la |-> Stamp(n), ld |-> 0, v |-> v, own |-> n]>>})
Del(n, k)    == Local(n, {Tomb(n, k)})
DelOwner(n, o) == Local(n, {Tomb(n, k) : k \in {kk \in Visible(n) : st[n][kk].own = o}})     \* DeletePeer
DelSess(n, s)  == Local(n, {Tomb(n, k) : k \in {kk \in Visible(n) : SessOf[kk] = s}})        \* DeleteSession
Deliver(n, ms) == /\ ms # {} /\ ms \subseteq net
                  /\ LET m == UNION {x.es : x \in ms} IN
                     /\ st' = [st EXCEPT ![n] = ApplyAll(@, m)]
                     /\ seen' = [seen EXCEPT ![n] = @ \cup m]
                  /\ UNCHANGED <<tick, net, nops>>
FullState(a) == {<<k, st[a][k]>> : k \in {kk \in Key : st[a][kk] # None}}     \* tombstones included
Push(a, b) == /\ a # b
              /\ st' = [st EXCEPT ![b] = ApplyAll(@, FullState(a))]
              /\ seen' = [seen EXCEPT ![b] = @ \cup FullState(a)]
              /\ UNCHANGED <<tick, net, nops>>
Next == \/ \E n \in Node, k \in Key, v \in Vals : Add(n, k, v)
        \/ \E n \in Node, k \in Key : Del(n, k)
        \/ \E n \in Node, o \in Node : DelOwner(n, o)
        \/ \E n \in Node, s \in {SessOf[k] : k \in Key} : DelSess(n, s)
        \/ \E n \in Node, ms \in SUBSET net : Cardinality(ms) <= 2 /\ Deliver(n, ms)
        \/ \E a, b \in Node : Push(a, b)
=============================================================================
