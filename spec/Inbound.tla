------------------------------- MODULE Inbound -------------------------------
(* Publishes from clients and their distribution to the message logs of the nodes     *)
(* that host matching subscribers (wasp/packets.go Process + worker loop,              *)
(* wasp/publish.go Distribute, wasp/grpc.go ScheduleMessage): C05 and C14.             *)
(*   hs    : (client, id) -> msg     inbound QoS 2 handshakes (PUBREC sent, PUBREL due) *)
(*   reqs  : set of publish requests in the worker pool, each                          *)
(*           [m, c, id, q, todo (destinations not yet tried), failed (any failure)]     *)
(*   logs  : node -> sequence of msgs                                                  *)
(*   acks  : set of <<client, id, msg>> acknowledged (PUBACK / PUBCOMP written)         *)
(*   fwd   : msg -> number of times it was resolved for distribution                   *)
(*   down  : set of destinations whose log / RPC currently fails (fault oracle)        *)
(* The worker is split as the code splits it: Resolve (destination set = nodes that     *)
(* host a matching subscription), one Store step per destination (each may fail,        *)
(* failures do not stop the others), then AckOrWithhold.                                *)
EXTENDS Integers, FiniteSets, Sequences, TLC
CONSTANTS Node, Client, Msgs, Ids, HostsOf, NodeOf    \* HostsOf \in [Msgs -> SUBSET Node] ; NodeOf \in [Client -> Node]
VARIABLES hs, reqs, logs, acks, fwd, down, sent
vars == <<hs, reqs, logs, acks, fwd, down, sent>>
Dom(f) == DOMAIN f
Init == hs = <<>> /\ reqs = {} /\ logs = [n \in Node |-> <<>>] /\ acks = {} /\ fwd = [m \in Msgs |-> 0] /\ down = {} /\ sent = {}
InLog(n, m) == \E i \in 1..Len(logs[n]) : logs[n][i] = m
NewReq(c, id, q, m) == [m |-> m, c |-> c, id |-> id, q |-> q, todo |-> {}, failed |-> FALSE, resolved |-> FALSE]
\* PUBLISH from client c
Publish(c, q, id, m) ==
  /\ m \notin sent /\ sent' = sent \cup {m}
  /\ IF q < 2 THEN reqs' = reqs \cup {NewReq(c, id, q, m)} /\ UNCHANGED hs
     ELSE IF <<c, id>> \in Dom(hs) THEN UNCHANGED <<reqs, hs>>          \* repeated PUBLISH on an open handshake: never forwarded
     ELSE hs' = (<<c, id>> :> m) @@ hs /\ UNCHANGED reqs                   \* PUBREC; forwarding waits for PUBREL
  /\ UNCHANGED <<logs, acks, fwd, down>>
Pubrel(c, id) ==
  /\ IF <<c, id>> \in Dom(hs)
     THEN /\ reqs' = reqs \cup {NewReq(c, id, 2, hs[<<c, id>>])}
          /\ hs' = [k \in Dom(hs) \ {<<c, id>>} |-> hs[k]]
     ELSE UNCHANGED <<reqs, hs>>                                          \* unknown or repeated PUBREL: nothing is forwarded
  /\ UNCHANGED <<logs, acks, fwd, down, sent>>
HsTimeout(c, id) == /\ <<c, id>> \in Dom(hs) /\ hs' = [k \in Dom(hs) \ {<<c, id>>} |-> hs[k]]
                    /\ UNCHANGED <<reqs, logs, acks, fwd, down, sent>>
Resolve(r) == /\ r \in reqs /\ ~r.resolved
              /\ reqs' = (reqs \ {r}) \cup {[r EXCEPT !.resolved = TRUE, !.todo = HostsOf[r.m]]}
              /\ fwd' = [fwd EXCEPT ![r.m] = @ + 1]
              /\ UNCHANGED <<hs, logs, acks, down, sent>>
Store(r, d) == /\ r \in reqs /\ r.resolved /\ d \in r.todo
               /\ IF d \in down
                  THEN /\ reqs' = (reqs \ {r}) \cup {[r EXCEPT !.todo = @ \ {d}, !.failed = TRUE]} /\ UNCHANGED logs
                  ELSE /\ reqs' = (reqs \ {r}) \cup {[r EXCEPT !.todo = @ \ {d}]}
                       /\ logs' = [logs EXCEPT ![d] = Append(@, r.m)]
               /\ UNCHANGED <<hs, acks, fwd, down, sent>>
AckOrWithhold(r) == /\ r \in reqs /\ r.resolved /\ r.todo = {}
                    /\ reqs' = reqs \ {r}
                    /\ acks' = IF ~r.failed /\ r.q > 0 THEN acks \cup {<<r.c, r.id, r.m>>} ELSE acks
                    /\ UNCHANGED <<hs, logs, fwd, down, sent>>
Toggle(d) == down' = (IF d \in down THEN down \ {d} ELSE down \cup {d}) /\ UNCHANGED <<hs, reqs, logs, acks, fwd, sent>>
Next == \/ \E c \in Client, q \in 0..2, id \in Ids, m \in Msgs : Publish(c, q, id, m)
        \/ \E c \in Client, id \in Ids : Pubrel(c, id) \/ HsTimeout(c, id)
        \/ \E r \in reqs : Resolve(r) \/ AckOrWithhold(r) \/ \E d \in Node : Store(r, d)
        \/ \E d \in Node : Toggle(d)
=============================================================================
