CONSTANTS Node = {"n1", "n2"} Key = {"k1", "k2"} Vals = {"x"} MaxOps = 4
 Skew <- MCSkew SessOf <- MCSessOf
SPECIFICATION Spec
INVARIANTS Lww
PROPERTIES BroadcastComplete
CHECK_DEADLOCK FALSE
