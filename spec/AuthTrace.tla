------------------------------ MODULE AuthTrace ------------------------------
(* Trace validation for C16: loading a well-formed credentials file must succeed,    *)
(* and every Authenticate / CONNECT outcome must be Admit with the entry's mount.    *)
EXTENDS Integers, FiniteSets, Sequences, TLC, Json
VARIABLES l, table
A == INSTANCE Auth WITH Users <- {}, Passwords <- {}, Mounts <- {}, sessions <- {}, replies <- <<>>
Trace == ndJsonDeserialize("trace.ndjson")
Ev == Trace[l]
ToSet(s) == {s[i] : i \in 1..Len(s)}
TInit == TLCSet(1, 0) /\ l = 1 /\ table = {}
Step == /\ l <= Len(Trace) /\ l' = l + 1
        /\ \/ /\ Ev.op = "new" /\ ~Ev.panic /\ Ev.loaded                     \* a valid table loads
              /\ table' = ToSet(Ev.table)
           \/ /\ Ev.op = "auth" /\ ~Ev.panic /\ UNCHANGED table
              /\ Ev.ok = A!Admit(table, Ev.u, Ev.p)
              /\ (Ev.ok => Ev.mount = A!MountOf(table, Ev.u, Ev.p))
           \/ /\ Ev.op = "ids" /\ UNCHANGED table                           \* sessions admitted at the same time are distinct sessions:
              /\ Ev.distinct = Ev.n                                       \* the identifiers handed out for them are pairwise different
           \/ /\ Ev.op = "connect" /\ UNCHANGED table                       \* broker level
              /\ (Ev.code = 0) = A!Admit(table, Ev.u, Ev.p)
              /\ (Ev.code # 0 => Ev.sessions = 0 /\ Ev.subs = 0 /\ Ev.local = 0)
              /\ (Ev.code = 0 => Ev.mount = A!MountOf(table, Ev.u, Ev.p))
TSpec == TInit /\ [][Step]_<<l, table>>
HighWater == TLCSet(1, IF TLCGet(1) > l THEN TLCGet(1) ELSE l)
Accepted == IF TLCGet(1) - 1 = Len(Trace) THEN PrintT("TRACE_ACCEPTED")
            ELSE PrintT(<<"REJECTED_AT_LINE", TLCGet(1), Trace[TLCGet(1)]>>) /\ FALSE
=============================================================================
