"""The broker behind its real listeners (TCP, TLS, WebSocket, WebSocket over TLS) on loopback ports, one process per scenario
(harness/cmd/transport); judged by TransportTrace.tla."""
import json
import os
import subprocess
from concurrent.futures import ThreadPoolExecutor

import vlib

TRANSPORTS = ["tcp", "tls", "ws", "wss"]


def scenarios(thorough):
    out = []
    for t in TRANSPORTS:
        out.append({"kind": "pubsub", "t": t, "k": 21 if not thorough else 63})
        out.append({"kind": "slowreader", "t": t})
        for what in ("tcp-reset-mid-packet" if t in ("tcp", "tls") else "tcp-reset-mid-message", "many-idle-connections"):
            out.append({"kind": "hostile", "t": t, "what": what, "k": 30})
    for t in ("ws", "wss"):
        for what, k in (("one-message", 0), ("byte-per-message", 0), ("chunks", 2), ("chunks", 3), ("chunks", 1024), ("empty-messages", 0),
                        ("control-frames", 0), ("fragmented-message", 0)) + ((("chunks", 5), ("chunks", 17), ("chunks", 1500)) if thorough else ()):
            out.append({"kind": "framing", "t": t, "what": what, "k": k})
        for what in ("text-message", "close-frame-mid-session", "close-frame-mid-packet", "huge-message", "no-upgrade", "wrong-path", "not-http"):
            out.append({"kind": "hostile", "t": t, "what": what})
    for t in ("tls", "wss"):
        out.append({"kind": "hostile", "t": t, "what": "bad-handshake"})
        # round 8: clients that present a (self-signed) client certificate: the listeners ask for one without requiring it
        out.append({"kind": "pubsub", "t": t, "k": 9, "cert": True})
        out.append({"kind": "hostile", "t": t, "what": "many-idle-connections", "k": 10, "cert": True})
    if thorough:
        out += [{"kind": "slowreader", "t": t} for t in TRANSPORTS for _ in range(3)]
    return out


def execute(run, scns, tag, jobs=8, timeout=300):
    drv = run.gobuild("transport")
    outs = [os.path.join(run.scratch, "transport-%s-%d.ndjson" % (tag, i)) for i in range(len(scns))]

    def one(i):
        try:
            p = subprocess.run([drv, "-scenario", json.dumps(scns[i]), "-out", outs[i], "-scn", str(i + 1)],
                               stdout=subprocess.PIPE, stderr=subprocess.PIPE, text=True, timeout=timeout, cwd=run.scratch)
            rc, err = p.returncode, p.stderr
        except subprocess.TimeoutExpired:
            rc, err = -9, "driver timed out after %d s" % timeout
        if rc != 0:
            # the broker runs inside the driver process: its death is the fact to record
            with open(outs[i], "a") as f:
                if os.path.getsize(outs[i]) == 0:
                    f.write(json.dumps({"op": "new", "scn": i + 1, "kind": scns[i]["kind"], "t": scns[i]["t"], "what": scns[i].get("what", "")}, separators=(",", ":")) + "\n")
                f.write(json.dumps({"op": "process.died", "exit": rc, "stderr": err[-3000:], "panic": _panic(err)}, separators=(",", ":")) + "\n")
    with ThreadPoolExecutor(max_workers=jobs) as ex:
        list(ex.map(one, range(len(scns))))
    tpath = os.path.join(run.scratch, "transport-%s.ndjson" % tag)
    with open(tpath, "w") as out:
        for o in outs:
            if os.path.exists(o):
                with open(o) as f:
                    for ln in f:
                        out.write(ln)
                os.unlink(o)
    return tpath


def _panic(err):
    for ln in err.splitlines():
        if ln.startswith(("panic:", "fatal error:")):
            return ln[:200]
    return ""


def classify(scn, line):
    e = scn[line - 1] if 0 < line <= len(scn) else {}
    head = scn[0]
    where = "%s/%s%s" % (head.get("kind"), head.get("t"), ("/" + head["what"]) if head.get("what") else "")
    if e.get("op") == "process.died":
        return "transport:%s:broker-process-died:%s" % (where, (e.get("panic") or "exit %s" % e.get("exit"))[:80])
    if e.get("op") == "witness":
        return "transport:%s:witness-not-served" % where
    if e.get("op") == "step":
        return "transport:%s:%s" % (where, e.get("what", "")[:60])
    return "transport:%s:%s" % (where, e.get("op"))


def check_family(run, prop, verdict, thorough, tag="transport"):
    scns = scenarios(thorough)
    tpath = execute(run, scns, tag)
    nev, nscn = vlib.count_lines(tpath, '"op":"new"')
    blocked = sum(1 for ln in open(tpath) if '"op":"note"' in ln and '"blocked":true' in ln)
    validated, rejected, tstates = vlib.validate_scenarios(run, "TransportTrace", "TransportTrace.cfg", tpath, timeout=1200, max_rejections=6)
    for rj in rejected:
        scn, line = rj["scenario"], rj["line"]
        idx = scn[0]["scn"] - 1
        e = scn[line - 1] if 0 < line <= len(scn) else {}
        verdict.add(classify(scn, line), "at the broker's real %s listener (%s): %s; trace: %s"
                    % (scn[0].get("t"), json.dumps(scns[idx]) if 0 <= idx < len(scns) else "?", json.dumps(e)[:1500], json.dumps(scn[max(0, line - 8):line])[:2500]),
                    {"kind": "transport", "scenario": scns[idx] if 0 <= idx < len(scns) else None, "rejected": e})
    run.log("transports: %d scenarios (%d events; the writer was blocked on the slow reader in %d), %d rejected" % (len(scns), nev, blocked, len(rejected)))
    return {"scenarios": len(scns), "events": nev, "validated": validated, "rejections": len(rejected), "slow_readers_that_blocked_the_writer": blocked,
            "trace_spec_states": tstates,
            "rule": "the real broker behind transport.NewTCPTransport / NewTLSTransport / NewWSTransport / NewWSSTransport on loopback ports, one process per "
                    "scenario: ordinary QoS 1 traffic with payloads of 4 B - 70 KB; a subscriber that stops reading until the writer is blocked on its socket, "
                    "then sends PINGREQ / SUBSCRIBE / PUBLISH and reads again; one MQTT stream cut into WebSocket messages in 8 ways; peers that misbehave "
                    "below MQTT (text messages, close frames, resets mid-message, 4 MB messages, plain HTTP, wrong path, raw MQTT or garbage on an HTTP/TLS "
                    "port, idle sockets); TransportTrace.tla: every entitled step succeeds, a witness is served after every hostile peer, the process lives"}


def replay(run, prop, path):
    rp = json.load(open(path))
    tpath = execute(run, [rp["scenario"]], "replay", jobs=1)
    ok, line, detail, _ = run.validate("TransportTrace", "TransportTrace.cfg", tpath)
    if ok:
        print("replay: accepted (no violation)")
        return 0
    print("replay: rejected at event %d" % line)
    print("VIOLATION property=%s replay=%s" % (prop, path))
    return 1
