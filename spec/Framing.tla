------------------------------ MODULE Framing ------------------------------
(* The byte-stream layer under the packet handlers: the network delivers each connection's stream in segments of its      *)
(* choosing, the per-connection decoder (decoder.Sync as coded: one byte of fixed header, remaining-length bytes one at a *)
(* time into a small header buffer, then the body) turns it back into packets.  Whatever the segmentation and whatever    *)
(* the other connections do meanwhile, the packets decoded on a connection are the packets its client sent, in order.     *)
(*                                                                                                                         *)
(* Only operators over explicit state (the convention of this suite): MC_Framing holds the specification and the          *)
(* properties, FramingGen prints delivery schedules for the broker driver.                                                 *)
(*                                                                                                                         *)
(* Abstraction: a packet is [ty, len]; its encoding is one "ty" byte, the remaining length in base Base with a            *)
(* continuation flag (one digit per byte, low digit first - Base = 128 in MQTT, 2 here: len < 2 takes one byte, len < 4   *)
(* two), and len opaque body bytes.                                                                                        *)
EXTENDS Integers, Sequences, FiniteSets
CONSTANTS Base

Digits(n) == IF n < Base THEN <<n>> ELSE <<(n % Base) + Base, n \div Base>>          \* at most two digits: n < Base * Base
Body(n) == [i \in 1..n |-> [k |-> "b", v |-> 0]]
Enc(p) == <<[k |-> "ty", v |-> p.ty]>> \o [i \in 1..Len(Digits(p.len)) |-> [k |-> "rl", v |-> Digits(p.len)[i]]] \o Body(p.len)
RECURSIVE EncAll(_)
EncAll(ps) == IF ps = <<>> THEN <<>> ELSE Enc(Head(ps)) \o EncAll(Tail(ps))

\* the decoder's registers: phase "ty" (expects a fixed header), "rl" (reading the remaining length; n bytes read so far),
\* "body" (n bytes still to read); ty = type of the packet being read
Idle == [phase |-> "ty", n |-> 0, ty |-> 0, len |-> 0]

\* the value of the header buffer as the decoder reads it back: little-endian digits, continuation flag stripped
RECURSIVE Value(_, _)
Value(buf, n) == IF n = 0 THEN 0 ELSE (buf[1] % Base) + Base * Value(Tail(buf), n - 1)

\* One byte b consumed by a decoder with registers r, header buffer hb (a sequence of two cells); -> <<registers', buffer', packets completed>>
Consume(r, hb, b) ==
  CASE r.phase = "ty" -> <<[phase |-> "rl", n |-> 0, ty |-> b.v, len |-> 0], hb, <<>>>>
    [] r.phase = "rl" ->
         LET hb2 == [hb EXCEPT ![r.n + 1] = b.v]
             n2  == r.n + 1 IN
         IF b.v >= Base /\ n2 < 2 THEN <<[r EXCEPT !.n = n2], hb2, <<>>>>
         ELSE LET len == Value(hb2, n2) IN                       \* computed from the buffer, as the code does
              IF len = 0 THEN <<Idle, hb2, <<[ty |-> r.ty, len |-> 0]>>>>
              ELSE <<[phase |-> "body", n |-> len, ty |-> r.ty, len |-> len], hb2, <<>>>>
    [] r.phase = "body" ->
         IF r.n = 1 THEN <<Idle, hb, <<[ty |-> r.ty, len |-> r.len]>>>>
         ELSE <<[r EXCEPT !.n = r.n - 1], hb, <<>>>>

IsPrefix(s, t) == Len(s) <= Len(t) /\ \A i \in 1..Len(s) : s[i] = t[i]
=============================================================================
