SPECIFICATION TSpec
INVARIANT InRange
CONSTRAINT HighWater
POSTCONDITION Accepted
CHECK_DEADLOCK FALSE
