------------------------------ MODULE MsgLogGen ------------------------------
(* Crash schedules for C15: every sequence of R kill points, each a (phase, offset   *)
(* class) pair, with offset classes in non-decreasing log order.  The phases are the *)
(* phases of MsgLog's consumer: inside the callback, after it returned, after the    *)
(* offset write, after the truncation check.                                         *)
EXTENDS Integers, Sequences, FiniteSets, TLC, Json
CONSTANTS R, Classes       \* Classes: sequence of offset-class names in log order
VARIABLE x
Points == {"incb", "cb.ret", "persisted", "truncated"}
Scheds == {s \in [1..R -> Points \X (1..Len(Classes))] : \A i \in 1..(R - 1) : s[i][2] <= s[i + 1][2]}
Init == x = 0
Next == x = 0 /\ x' = 1 /\ PrintT(<<"SCHEDS", ToJson({[i \in 1..R |-> [point |-> s[i][1], cls |-> Classes[s[i][2]]]] : s \in Scheds})>>)
Spec == Init /\ [][Next]_x
=============================================================================
