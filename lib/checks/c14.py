"""C14  A publish reaches matching subscribers on other nodes exactly once.

(M) Inbound.tla model-checked (OnlyDestinations, FailureIsolation, AckAfterStore) with
    destinations on two nodes.
(G) InboundGen with publishers on two different nodes and three nodes hosting different
    subsets of the topics (a topic hosted on both publishers' nodes, on the other node only,
    on one node only, nowhere), every subset of destinations failing (local log / RPC).
(T) three real nodes joined by the harness' gossip network and in-memory gRPC; BrokerTrace
    validates every log append (once per hosting node, nowhere else), every delivery on every
    node, the acknowledgement, and at quiescence that every reachable destination was served.
"""
import json

import vlib
from checks import brokerlib, inboundlib


def check(run):
    thorough = run.tier == "thorough"
    run.model_check("MC_Inbound", "MC_Inbound.cfg")
    hs = inboundlib.gen(run, "two", [1, 2, 3], ["c1", "c2"], ["m1", "m2", "m5"], [1], 3 if not thorough else 4)
    hs += inboundlib.gen(run, "sim", [1, 2, 3], ["c1", "c2"], ["m1", "m2", "m3", "m4", "m5"], [1, 2], 7, simulate="num=%d" % (300 if thorough else 15))
    hs = [h for h in hs if any(o["op"] == "pub" for o in h)]
    if not thorough:
        hs = hs[:: max(1, len(hs) // 240)]
    elif len(hs) > 6000:
        hs = hs[:: len(hs) // 6000]
    # a destination fails, recovers, and an unrelated publish follows: nothing of the failure may stick to later publishes
    hr = inboundlib.gen(run, "rec", [1, 2], ["c1"], ["m1", "m2", "m3"], [1], 4 if not thorough else 5, qos=(1,))
    hr = [h for h in hr if sum(1 for o in h if o["op"] == "pub") >= 2 and sum(1 for o in h if o["op"] == "toggle") >= 2
          and not any(o["op"] in ("pubrel", "sweep") for o in h)]
    if len(hr) > 2500:
        hr = hr[:: len(hr) // 2500 + 1]
    run.log("%d fail-and-recover scripts" % len(hr))
    hs += hr
    # every third script runs "dynamic": subscriptions made after each topic was published once, one removed before a last publish
    # round 8: four in seven scripts use topic names with a level that starts with '$' below the first level, subscribed through + or #
    scns = [inboundlib.scenario(h, [1, 2, 3], dynamic=(i % 3 == 2), empty=(i % 4 == 1), shape=[0, 1, 2, 3, 4, 1, 4][i % 7]) for i, h in enumerate(hs)]
    run.log("%d distribution scripts from TLC" % len(scns))
    tpath, crashes = brokerlib.execute(run, scns, "c14", shards=12)
    if crashes:
        raise vlib.Inconclusive("broker driver died: %s" % crashes[0][2][-2000:])
    v = vlib.Verdict(run)
    nev, nscn, validated, rejected, tstates = brokerlib.validate(run, "C14", scns, tpath, v)
    nlag, lagval, lagrej, lagstates = check_lag(run, v)
    validated += lagval
    rc = v.finish()
    faulty = sum(1 for h in hs if any(o["op"] == "toggle" for o in h))
    vlib.write_evidence(run, {
        "traces_validated_against_impl": validated,
        "evaluations": len(scns),
        "distinct_nontrivial": faulty,
        "rule": "scenario = TLC-generated script of publishes (QoS 0/1/2) from publishers on nodes 1 and 2 to topics hosted on {1,2}, {2}, {1}, {2,3}, {} of three "
                "real nodes, with failures of any destination's log or RPC toggled between steps; in every third scenario the subscriptions are made only "
                "after every topic has been published once, and one is removed before a last publish; every fourth scenario ends with a publish whose payload is empty; four in seven scenarios name the topics t/<m>/$s, t/$<m>/v, t/<m>/$s/z and subscribe through + / # (legal, unusual names); plus every QoS 1 script of depth 4 with >= 2 publishes and >= 2 failure toggles on two nodes (fail, recover, unrelated publish); non-trivial = contains an injected failure",
        "events_validated": nev, "trace_spec_states": tstates, "rejections": len(rejected),
        "samples": [hs[0], hs[len(hs) // 2], {"scenario": scns[-1]}],
    }, ["in the TLC-generated distribution scripts the publishing node's view of subscriptions is up to date (gossip is delivered between steps); "
        "the lagging-gossip family (ViewTrace.tla) covers a view that is behind, with broadcasts delivered in order per origin",
        "topic m5 is hosted on nodes 2 and 3 only (two remote destinations for a publisher on node 1), m4 nowhere"],
        violations=v.n_new)
    run.log("validated %d scripts (%d events), %d rejected (%d known)" % (validated, nev, len(rejected), v.n_known))
    return rc


def lag_scenarios(thorough):
    """round 8: what the publishing node KNOWS decides where a publish goes.  The harness holds every broadcast back and delivers it by
    hand: a subscription made on node 2 (and 3) is unknown to node 1 until its broadcast arrives, a removed one is still believed in
    until the removal arrives.  Publishes from node 1 at every stage; ViewTrace.tla follows each node's knowledge."""
    out = []
    stages = ["sub", "deliver", "sub3", "unsub", "deliver", "resub", "deliver"]
    for shape in (0, 1, 2):
        T = [["t", "x"], ["t", "$x", "v"], ["t", "x"]][shape]
        F = [["t", "x"], ["t", "+", "v"], ["t", "x", "#"]][shape]
        for pubq in (1, 0):
            ops = [{"op": "gossip", "mode": "hold"},
                   {"op": "connect", "c": 1, "n": 1, "client": "pub", "ka": 600},
                   {"op": "connect", "c": 12, "n": 2, "client": "sub2", "ka": 600},
                   {"op": "connect", "c": 13, "n": 3, "client": "sub3", "ka": 600},
                   {"op": "collect"}]
            k = 0

            def pub():
                nonlocal k
                k += 1
                return [{"op": "pub", "c": 1, "t": T, "p": "lag%d-%d-%d" % (shape, pubq, k), "q": pubq, "id": k if pubq else 0}]
            ops += pub()
            for st in stages:
                if st == "sub":
                    ops += [{"op": "sub", "c": 12, "id": 1, "fs": [{"f": F, "q": 1}]}, {"op": "collect"}]
                elif st == "sub3":
                    ops += [{"op": "sub", "c": 13, "id": 1, "fs": [{"f": F, "q": 0}]}, {"op": "collect"}]
                elif st == "unsub":
                    ops += [{"op": "unsub", "c": 12, "id": 2, "fs": [{"f": F, "q": 0}]}, {"op": "collect"}]
                elif st == "resub":
                    ops += [{"op": "sub", "c": 12, "id": 3, "fs": [{"f": F, "q": 1}]}, {"op": "collect"}]
                else:
                    ops += [{"op": "deliverfrom", "from": 2, "to": 1}, {"op": "deliverfrom", "from": 3, "to": 1},
                            {"op": "deliverfrom", "from": 2, "to": 3}, {"op": "deliverfrom", "from": 3, "to": 2}]
                ops += pub()
            ops.append({"op": "quiesce"})
            out.append({"nodes": [1, 2, 3], "lenient": True, "ops": ops})
    return out


def check_lag(run, v):
    scns = lag_scenarios(run.tier == "thorough")
    tpath, crashes = brokerlib.execute(run, scns, "c14lag", shards=6)
    if crashes:
        raise vlib.Inconclusive("broker driver died: %s" % crashes[0][2][-2000:])
    validated, rejected, tstates = vlib.validate_scenarios(run, "ViewTrace", "ViewTrace.cfg", tpath, timeout=1200, max_rejections=3)
    for rj in rejected:
        scn, line = rj["scenario"], rj["line"]
        e = scn[line - 1]
        idx = scn[0]["scn"] - 1
        sig = "lag:%s%s-unexplained" % (e.get("op"), (":" + e["kind"]) if e.get("kind") else "")
        v.add(sig, "lagging gossip: event %d %s is not a step of ViewTrace.tla (destinations are the nodes hosting a matching subscription known to the "
                   "publishing node); preceding events: %s" % (line, json.dumps(e), json.dumps(brokerlib.context(scn, line - 1))),
              {"kind": "broker", "tracespec": "ViewTrace", "scenario": scns[idx] if 0 <= idx < len(scns) else None, "rejected": e})
    run.log("lagging gossip: %d scripts, %d validated, %d rejected" % (len(scns), validated, len(rejected)))
    return len(scns), validated, len(rejected), tstates


def replay(run, path):
    return brokerlib.replay(run, "C14", path)
