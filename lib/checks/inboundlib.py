"""Scenario construction shared by C05 and C14 from InboundGen behaviours."""
import vlib

GEN = ('CONSTANTS Node = {%s} Client = {%s} Msgs = {%s} Ids = {%s} HostsOf <- GHosts NodeOf <- GNodeOf Depth = %d GQos = {%s}\n'
       'SPECIFICATION GSpec\nCONSTRAINT Dump\nCHECK_DEADLOCK FALSE\n')
HOSTS = {"m1": [1, 2], "m2": [2], "m3": [1], "m4": [], "m5": [2, 3]}   # m5: two destinations that are both remote for a publisher on node 1
PUBNODE = {"c1": 1, "c2": 2}
PUBCONN = {"c1": 1, "c2": 2}


def gen(run, name, nodes, clients, msgs, ids, depth, simulate=None, qos=(0, 1, 2)):
    return vlib.gen_behaviours(run, "InboundGen", "Gen_Inbound_%s.cfg" % name,
                               GEN % (", ".join(map(str, nodes)), ", ".join('"%s"' % c for c in clients),
                                      ", ".join('"%s"' % m for m in msgs), ", ".join(map(str, ids)), depth, ", ".join(map(str, qos))),
                               simulate=simulate, depth=(depth * 6) if simulate else None)


def _names(shape):
    """Topic and filter of message m.  shape 0: t/<m>, subscribed exactly.  Other shapes use names that are legal and unusual - levels
    that start with '$' below the first level (only a FIRST level starting with '$' is special in MQTT, and every stored name starts with
    the mount point) - reached through a wildcard that covers exactly that topic."""
    if shape == 1:
        return (lambda m: ["t", m, "$s"]), (lambda m: ["t", m, "+"])
    if shape == 2:
        return (lambda m: ["t", "$" + m, "v"]), (lambda m: ["t", "$" + m, "#"])
    if shape == 3:
        return (lambda m: ["t", m, "$s", "z"]), (lambda m: ["t", m, "#"])
    if shape == 4:   # the filter reaches the topic only through '#' standing for its parent level
        return (lambda m: ["t", m]), (lambda m: ["t", m, "#"])
    return (lambda m: ["t", m]), (lambda m: ["t", m])


def scenario(h, nodes, dupall=False, dynamic=False, empty=False, shape=0):
    """dynamic: the subscriptions are made AFTER every topic has been published once from every publishing node (so that whatever
    a node remembers about a topic stems from a time without subscribers), and at the end one remote subscriber unsubscribes
    and the topic is published once more: destinations follow what the publishing node knows NOW."""
    ops = []
    subs = []
    T, F = _names(shape)
    # one subscriber session per node, subscribed to the topics that node hosts
    for n in nodes:
        fs = [{"f": F(m), "q": 1} for m in sorted(HOSTS) if n in HOSTS[m]]
        subs.append({"op": "connect", "c": 10 + n, "n": n, "client": "sub%d" % n, "ka": 600})
        if fs:
            subs.append({"op": "sub", "c": 10 + n, "id": 1, "fs": fs})
    pubs = []
    pubconns = sorted({o["c"] for o in h if o.get("c")})
    for c in pubconns:
        pubs.append({"op": "connect", "c": PUBCONN[c], "n": PUBNODE[c], "client": "pub-" + c, "ka": 600, "auto": "none"})
    if dynamic:
        ops += pubs
        for c in pubconns:
            for m in sorted(HOSTS):
                ops.append({"op": "pub", "c": PUBCONN[c], "t": T(m), "p": "warm-%s-%s" % (c, m), "q": 0, "id": 0})
        ops += subs
    else:
        ops += subs + pubs
    down = set()
    used = set()
    for o in h:
        if o["op"] == "pub":
            # a QoS 1 PUBLISH that re-uses an identifier of this connection carries DUP = 1 in every other script (a client that
            # believes it is retransmitting): the flag must not change whether the message is stored before it is acknowledged
            dup = o["q"] == 1 and (o["c"], o["id"]) in used and (dupall or len(h) % 2 == 0)
            used.add((o["c"], o["id"]))
            ops.append({"op": "pub", "c": PUBCONN[o["c"]], "t": T(o["m"]), "p": o["m"], "q": o["q"], "id": o["id"] if o["q"] > 0 else 0, "dup": dup})
        elif o["op"] == "pubrel":
            ops.append({"op": "send", "c": PUBCONN[o["c"]], "kind": "PUBREL", "id": o["id"]})
        elif o["op"] == "sweep":
            for n in nodes:
                ops.append({"op": "sweep", "n": n, "ms": 4500})
        elif o["op"] == "toggle":
            key = (o["d"], o["how"])
            on = key not in down
            if on:
                down.add(key)
            else:
                down.discard(key)
            if o["how"] == "log":
                ops.append({"op": "faillog", "n": o["d"], "k": 100000 if on else 0})
            else:
                for f in nodes:
                    if f != o["d"]:
                        ops.append({"op": "failrpc", "from": f, "to": o["d"], "on": on})
    if dynamic and pubconns and not down:
        # node 2's subscriber leaves topic m2 (hosted on node 2 only); a publish from node 1 afterwards has no destination
        if 2 in nodes and "c1" in pubconns:
            ops.append({"op": "unsub", "c": 12, "id": 7, "fs": [{"f": F("m2"), "q": 0}]})
            ops.append({"op": "pub", "c": PUBCONN["c1"], "t": T("m2"), "p": "after-unsub", "q": 1, "id": 9})
    if empty and "c1" in pubconns and not down:
        # a publish with an empty payload (legal: a bare event) is distributed like any other
        ops.append({"op": "pub", "c": PUBCONN["c1"], "t": T("m5" if 3 in nodes else "m2"), "p": "", "q": 0, "id": 0})
    ops.append({"op": "quiesce"})
    return {"nodes": nodes, "ops": ops}
