----------------------------- MODULE RetainedGen -----------------------------
(* Histories for C07: every sequence of Depth retained publishes (payload different   *)
(* from the stored one, or empty = clear) over topics with shared prefixes.           *)
EXTENDS Retained, Json
CONSTANT Depth
VARIABLE hist
GTopics == { <<"a">>, <<"a", "b">>, <<"a", "b", "c">>, <<"a", "">>, <<"b">> }
Cur(t) == IF t \in DOMAIN ret THEN ret[t] ELSE ""
Other(p) == IF p = "p1" THEN "p2" ELSE "p1"
GInit == Init /\ hist = <<>>
GNext == /\ Len(hist) < Depth
         /\ \E t \in RTopics :
              \/ PublishRetained(t, Other(Cur(t))) /\ hist' = Append(hist, [op |-> "pub", t |-> t, p |-> Other(Cur(t))])
              \/ PublishRetained(t, "") /\ hist' = Append(hist, [op |-> "pub", t |-> t, p |-> ""])
GSpec == GInit /\ [][GNext]_<<ret, hist>>
Dump == (Len(hist) = Depth) => PrintT(<<"BEHAV", ToJson(hist)>>)
=============================================================================
