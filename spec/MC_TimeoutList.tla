--------------------------- MODULE MC_TimeoutList ---------------------------
(* The expiry structure as coded refines the bag of (value, deadline) pairs; the variants *)
(* that transcribe defects found in / seeded into wasp/expiration do not.                 *)
EXTENDS TimeoutList
Spec == Init /\ [][Next]_vars
Pos == {<<s, i>> : s \in Dom(buckets), i \in 1..MaxOps} \cap {p \in (Dom(buckets) \X (1..MaxOps)) : p[2] <= Len(buckets[p[1]])}
ItemAt(p) == <<buckets[p[1]][p[2]].v, buckets[p[1]][p[2]].d>>
CodeBag == [x \in {ItemAt(p) : p \in Pos} |-> Cardinality({p \in Pos : ItemAt(p) = x})]
\* the structure holds exactly the pairs inserted and not yet deleted or fired
Refines == CodeBag = bag
\* every bucket is sorted by deadline (what Delete's binary search relies on) and holds only items of its second
Sorted == \A s \in Dom(buckets) : \A i, j \in 1..Len(buckets[s]) : i < j => buckets[s][i].d <= buckets[s][j].d
InItsSecond == \A s \in Dom(buckets) : \A i \in 1..Len(buckets[s]) : Round(buckets[s][i].d) = s
\* a bucket that can be inserted into can also be popped
HeapIsDom == heap = Dom(buckets)
\* a sweep reports exactly the values whose (rounded) second has passed - no other entry is fired, delayed or lost (C04)
ExpireExact == [][\A now \in Nows : Expire(now) => SeqValBag(out') = ValBag(BagFired(bag, now))]_vars
\* one operation changes one pair: Insert adds one, Delete removes at most the one asked for
OneEntry == [][\A v \in Vals, d \in Deadlines :
                 /\ (Insert(v, d) => bag' = BagAdd(bag, <<v, d>>))
                 /\ (Delete(v, d) => bag' = BagDel(bag, <<v, d>>))]_vars
=============================================================================
