#!/usr/bin/env python3
# development aid (DESIGN.md 0.7): runs checks against patched copies of vx-labs/wasp in parallel "lanes".
# A lane is /var/tmp/lane/<k>/{repo,verif}: a git worktree of /repo's HEAD and a copy of /verif whose harness modules
# replace the wasp module by the lane's worktree (VERIF_REPO points there too).  /repo itself is never touched, so lanes
# can run while /repo is in use; the registered checks and the committed evidence never come from a lane.
"""lanes.py mut <nlanes> [names...]     run the kept mutants of /var/tmp/mut through the checks of their file
   lanes.py seed <nlanes> <id>...     run stored / fresh seeded changes (seeded/<id>/patch.diff or /tmp/wt/<id>-out/patch.diff) through bin/check <property>
   lanes.py clean                     remove all lanes"""
import json, os, subprocess, sys, time, threading, queue, shutil

BASE = "/var/tmp/lane"
OFF = int(os.environ.get("LANE_OFFSET", "0"))
FC = {"wasp/conn.go": ["C12", "C11", "C13", "C18"], "wasp/distributed/sessions.go": ["C12", "C09", "C10", "C08"],
      "wasp/distributed/state.go": ["C09", "C10", "C08"], "wasp/distributed/subscriptions.go": ["C09", "C10", "C01", "C08"],
      "wasp/distributed/topics.go": ["C09", "C07", "C10", "C08"], "wasp/expiration/bucket.go": ["C04", "C20"], "wasp/expiration/pqueue.go": ["C04", "C20"],
      "wasp/idpool.go": ["C06", "C03"], "wasp/nodes.go": ["C11", "C13"], "wasp/packets.go": ["C12", "C07", "C02", "C13", "C05"],
      "wasp/publish.go": ["C14", "C05", "C01"], "wasp/sessions/session.go": ["C17", "C11", "C13"], "wasp/state.go": ["C11", "C03"],
      "wasp/writer.go": ["C06", "C03", "C01", "C02"], "wasp/ack/queue.go": ["C04", "C03", "C05"], "wasp/messages/store.go": ["C15", "C02"],
      "wasp/auth/file.go": ["C16"], "wasp/auth/static.go": ["C16"], "wasp/auth/hash.go": ["C16"], "wasp/grpc.go": ["C14"],
      "topics/node.go": ["C19", "C07"], "topics/tree.go": ["C19", "C07"], "subscriptions/node.go": ["C19", "C01"],
      "wasp/format/topic.go": ["C01", "C07", "C19"], "crdt/entry.go": ["C08", "C10"]}


def sh(cmd, **kw):
    return subprocess.run(cmd, shell=True, text=True, capture_output=True, **kw)


def mklane(k):
    d = "%s/%d" % (BASE, k)
    if os.path.exists(d):
        sh("git -C /repo worktree remove --force %s/repo" % d)
        shutil.rmtree(d, ignore_errors=True)
    os.makedirs(d)
    sh("git -C /repo worktree prune")
    r = sh("git -C /repo worktree add -q --detach %s/repo HEAD" % d)
    assert r.returncode == 0, r.stderr
    sh("rsync -a --exclude .git --exclude out --exclude evidence /verif/ %s/verif/" % d)
    os.makedirs(d + "/verif/evidence", exist_ok=True)
    for gm in ("harness/go.mod", "harness/gated/go.mod"):
        p = "%s/verif/%s" % (d, gm)
        s = open(p).read().replace("=> /repo", "=> %s/repo" % d)
        open(p, "w").write(s)
    return d


def runcheck(d, prop, tier="quick"):
    env = dict(os.environ, VERIF_REPO=d + "/repo", VERIF_NO_MINIMISE="1", VERIF_SCRATCH=d + "/scratch")
    t = time.time()
    r = subprocess.run(["bin/check", prop, "--tier", tier], cwd=d + "/verif", capture_output=True, text=True, env=env)
    sig = [l.strip()[:200] for l in r.stdout.splitlines() if "signature:" in l][:2]
    tail = r.stdout.strip().splitlines()[-3:] if r.returncode == 2 else []
    return {"check": prop, "exit": r.returncode, "s": int(time.time() - t), "sig": sig, "tail": tail}


def worker(k, q, res, lock, res_path):
    d = mklane(k)
    while True:
        try:
            job = q.get_nowait()
        except queue.Empty:
            break
        name, patch, props, meta = job
        a = sh("git -C %s/repo apply %s" % (d, patch))
        if a.returncode != 0:
            out = {"error": "does not apply: " + a.stderr[:200]}
        else:
            caught, tried = None, []
            for p in props:
                t = runcheck(d, p)
                tried.append(t)
                if t["exit"] == 1:
                    caught = p
                    break
            out = dict(meta, caught=caught, tried=tried)
        sh("git -C %s/repo checkout -- . ; git -C %s/repo clean -fdq" % (d, d))
        with lock:
            res[name] = out
            json.dump(res, open(res_path, "w"), indent=1)
            print(name, meta.get("file", ""), meta.get("line", ""), meta.get("op", ""), "->", out.get("caught"),
                  [(t["check"], t["exit"], t["s"]) for t in out.get("tried", [])], out.get("error", ""), flush=True)
    sh("git -C /repo worktree remove --force %s/repo" % d)
    shutil.rmtree(d, ignore_errors=True)


def main():
    mode = sys.argv[1]
    if mode == "clean":
        for k in os.listdir(BASE) if os.path.exists(BASE) else []:
            sh("git -C /repo worktree remove --force %s/%s/repo" % (BASE, k))
        shutil.rmtree(BASE, ignore_errors=True)
        sh("git -C /repo worktree prune")
        return
    n = int(sys.argv[2])
    q = queue.Queue()
    if mode == "mut":
        idx = json.load(open("/var/tmp/mut/index.json"))
        res_path = "/var/tmp/mut/results.json"
        res = json.load(open(res_path)) if os.path.exists(res_path) else {}
        names = sys.argv[3:]
        import random
        random.Random(3).shuffle(idx)
        for m in idx:
            if (names and m["name"] not in names) or (not names and m["name"] in res):
                continue
            props = FC.get(m["file"], m["props"][:3])
            q.put((m["name"], "/var/tmp/mut/%s.diff" % m["name"], props,
                   {"file": m["file"], "line": m["line"], "op": m["op"], "orig": m["orig"], "new": m["new"]}))
    else:
        res_path = "/var/tmp/lane-seed-results.json"
        res = json.load(open(res_path)) if os.path.exists(res_path) else {}
        for sid in sys.argv[3:]:
            prop = sid[:3]
            if ":" in sid:
                sid, prop = sid.split(":")
            patch = "/verif/seeded/%s/patch.diff" % sid
            if not os.path.exists(patch):
                patch = "/tmp/wt/%s-out/patch.diff" % sid
            q.put((sid + ":" + prop, patch, [prop], {"file": sid}))
    lock = threading.Lock()
    ths = [threading.Thread(target=worker, args=(k, q, res, lock, res_path)) for k in range(OFF, OFF + n)]
    for t in ths:
        t.start()
    for t in ths:
        t.join()


main()
