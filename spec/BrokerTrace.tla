----------------------------- MODULE BrokerTrace -----------------------------
(* Trace validation of whole brokers (one or several real nodes assembled in-process  *)
(* by the harness): every recorded event - packets sent by clients, packets written   *)
(* by the broker, message-log appends, in-flight table callbacks, registry changes,   *)
(* connection deadlines and time-outs against the virtual clock, teardown completion, *)
(* probes of every node's replicated state - must be a step of the specification      *)
(* below, and `quiescent` is only a step when no obligation is outstanding.            *)
(*                                                                                     *)
(* One action per critical section of the code (names in brackets):                    *)
(*   Establish    [conn.go setup: auth, takeover delete, create record, register]       *)
(*   Refuse       [setup: CONNACK 5, nothing created]                                   *)
(*   ClientPkt    [conn.go processSession -> packets.go Process]                        *)
(*   Append       [publish.go Distribute / grpc.go ScheduleMessage / nodes.go]          *)
(*   AckInbound   [packets.go worker: ack callback only after successful distribution]  *)
(*   Deliver      [writer.go send / sendQoS1 / sendQoS2 / completeQoS2]                 *)
(*   Callback     [ack/queue.go Ack, Expire -> writer.go re-arm or release]             *)
(*   Unregister, TeardownDone, Close [conn.go serve / shutdownSession]                  *)
(*   PeerFail     [nodes.go NotifyGossipLeave on the survivors]                         *)
(* Properties decided here: C01 C02 C03 C05 C06(writer level) C07 C11 C12 C13 C14 C16   *)
(* C17 C18 at broker level.  Results the properties leave open are left open.           *)
EXTENDS Integers, FiniteSets, Sequences, TLC, Json
VARIABLES l, conn, vnow, subs, msgs, logs, acked, inq2, outf, deliv, need, owed, ret, tags, sweeps, dead, table, clears, faults, reach, faults, reach

T == INSTANCE Topics
R == INSTANCE Retained WITH RTopics <- {}, Payloads <- {}, ret <- <<>>
A == INSTANCE Auth WITH Users <- {}, Passwords <- {}, Mounts <- {}, sessions <- {}, replies <- <<>>, table <- {}
Q == INSTANCE AckQueue WITH Sess <- {}, Ids <- {}, Deadlines <- {}, Sweeps <- {}, Sec <- 1000, entries <- <<>>, outcome <- <<>>, ntag <- 0

Trace == ndJsonDeserialize("trace.ndjson")
Ev == Trace[l]
vars == <<l, conn, vnow, subs, msgs, logs, acked, inq2, outf, deliv, need, owed, ret, tags, sweeps, dead, table, clears, faults, reach>>
Dom(f) == DOMAIN f
ToSet(s) == {s[i] : i \in 1..Len(s)}
Range(s) == {s[i] : i \in 1..Len(s)}
Get(f, k, d) == IF k \in DOMAIN f THEN f[k] ELSE d
Upd(f, k, v) == (k :> v) @@ f
Del(f, K) == [x \in (DOMAIN f) \ K |-> f[x]]
Max(a, b) == IF a > b THEN a ELSE b

NoWill == [t |-> <<>>, p |-> "", q |-> 0, r |-> FALSE]
Fresh(c, n, s) == [n |-> n, s |-> s, phase |-> "open", client |-> "", user |-> "", pass |-> "", mount |-> "", ka |-> 0, will |-> "",
                   disc |-> FALSE, cause |-> "none", closed |-> FALSE, lastpkt |-> vnow, auth |-> "unknown", reg |-> FALSE,
                   displaced |-> FALSE, connack |-> -1, hostile |-> FALSE]
SC(s) == CHOOSE c \in Dom(conn) : conn[c].s = s
KnownS(s) == \E c \in Dom(conn) : conn[c].s = s
Live(c) == c \in Dom(conn) /\ conn[c].phase = "live"
Registered(c) == c \in Dom(conn) /\ conn[c].reg
\* ---- matching, per tenant
MatchingSubs(c, mount, t) == {s \in subs : s.c = c /\ conn[c].mount = mount /\ T!Matches(s.f, t)}
NMatch(c, p) == Cardinality(MatchingSubs(c, msgs[p].mount, msgs[p].t))
Deliv(c, p) == Get(deliv, <<c, p>>, 0)
Owed(c, p) == Get(Get(owed, c, <<>>), p, 0)
Hosts(n, mount, t) == \E s \in subs : conn[s.c].n = n /\ Registered(s.c) /\ conn[s.c].mount = mount /\ T!Matches(s.f, t)
Destinations(p) == {n \in Dom(logs) : Hosts(n, msgs[p].mount, msgs[p].t)}
InLog(n, p) == p \in Range(logs[n])
\* an offender (C18) may hold subscriptions the specification does not know of: its node may be a destination of anything
HostileOn(n) == \E c \in Dom(conn) : conn[c].hostile /\ conn[c].n = n
StoredEverywhere(p) == \A n \in Destinations(p) : InLog(n, p)
\* what every connected session is owed for message p, fixed when p is released for distribution
NeedOf(p) == [c \in {x \in Dom(conn) : Registered(x) /\ NMatch(x, p) > 0} |-> NMatch(c, p)]

TInit == /\ TLCSet(1, 0) /\ l = 1 /\ conn = <<>> /\ vnow = 0 /\ subs = {} /\ msgs = <<>> /\ logs = <<>> /\ acked = {}
         /\ inq2 = <<>> /\ outf = <<>> /\ deliv = <<>> /\ need = <<>> /\ owed = <<>> /\ ret = <<>> /\ tags = <<>> /\ sweeps = <<>>
         /\ dead = {} /\ table = {} /\ clears = {} /\ faults = {} /\ reach = <<>>


\* ------------------------------------------------------------------ session life cycle
New == /\ Ev.op = "new"
       /\ conn' = <<>> /\ vnow' = 0 /\ subs' = {} /\ msgs' = <<>> /\ acked' = {} /\ inq2' = <<>> /\ outf' = <<>> /\ deliv' = <<>>
       /\ need' = <<>> /\ owed' = <<>> /\ ret' = <<>> /\ tags' = <<>> /\ sweeps' = <<>> /\ dead' = {} /\ clears' = {} /\ faults' = {} /\ reach' = <<>>
       /\ logs' = [n \in ToSet(Ev.nodes) |->            \* a node may start on a log that already holds entries
                    LET pf == {x \in ToSet(Ev.prefill) : x.n = n} IN
                    IF pf = {} THEN <<>> ELSE [i \in 1..(CHOOSE x \in pf : TRUE).count |-> ""]]
       /\ table' = IF "table" \in DOMAIN Ev THEN ToSet(Ev.table) ELSE {}

Open == /\ Ev.op = "conn.open" /\ Ev.c \notin Dom(conn)
        /\ conn' = Upd(conn, Ev.c, Fresh(Ev.c, Ev.n, Ev.s))
        /\ UNCHANGED <<vnow, subs, msgs, logs, acked, inq2, outf, deliv, need, owed, ret, tags, sweeps, dead, table, clears, faults, reach>>

\* CONNECT sent on a fresh connection: remember what was asked for; the will becomes a (not yet released) message
SendConnect ==
  /\ Ev.op = "cli.send" /\ Ev.kind = "CONNECT" /\ Ev.c \in Dom(conn) /\ conn[Ev.c].phase = "open"
  /\ conn' = Upd(conn, Ev.c, [conn[Ev.c] EXCEPT !.phase = "setup", !.client = Ev.client, !.user = Ev.user, !.pass = Ev.pass,
                               !.ka = Ev.ka, !.will = IF Ev.haswill THEN Ev.will.p ELSE "", !.lastpkt = vnow])
  /\ msgs' = IF Ev.haswill
             THEN Upd(msgs, Ev.will.p, [c |-> Ev.c, id |-> 0, q |-> Ev.will.q, t |-> Ev.will.t, r |-> Ev.will.r, mount |-> "",
                                         kind |-> "will", released |-> FALSE, failed |-> FALSE])
             ELSE msgs
  /\ UNCHANGED <<vnow, subs, logs, acked, inq2, outf, deliv, need, owed, ret, tags, sweeps, dead, table, clears, faults, reach>>

\* the authentication seam: which tenant, or refusal.  With a configured credentials table (C16) the
\* outcome must be Admit / MountOf of that table.
AuthDone ==
  /\ Ev.op = "auth"
  /\ LET c == CHOOSE x \in Dom(conn) : conn[x].s = Ev.s IN
     /\ (conn[c].phase = "setup" \/ (conn[c].hostile /\ conn[c].phase = "open"))   \* raw bytes may happen to be a CONNECT
     /\ (table # {} /\ ~conn[c].hostile => /\ Ev.ok = A!Admit(table, conn[c].user, conn[c].pass)
                       /\ (Ev.ok => Ev.mount = A!MountOf(table, conn[c].user, conn[c].pass)))
     /\ conn' = Upd(conn, c, [conn[c] EXCEPT !.auth = IF Ev.ok THEN "ok" ELSE "refused", !.mount = Ev.mount, !.phase = "setup"])
     /\ msgs' = IF conn[c].will # "" THEN Upd(msgs, conn[c].will, [msgs[conn[c].will] EXCEPT !.mount = Ev.mount]) ELSE msgs
  /\ UNCHANGED <<vnow, subs, logs, acked, inq2, outf, deliv, need, owed, ret, tags, sweeps, dead, table, clears, faults, reach>>

\* Establish: the session is registered on its node; earlier live sessions of the same client
\* identifier in the same tenant are displaced (C12, C17)
Register ==
  /\ Ev.op = "reg.create" /\ KnownS(Ev.s)
  /\ LET c == SC(Ev.s) IN
     /\ conn[c].phase = "setup" /\ conn[c].auth = "ok" /\ conn[c].n = Ev.n /\ ~conn[c].reg
     /\ Ev.mount = conn[c].mount /\ (conn[c].hostile \/ Ev.client = conn[c].client)
     /\ conn' = [x \in Dom(conn) |->
                   IF x = c THEN [conn[c] EXCEPT !.reg = TRUE, !.client = Ev.client]
                   ELSE IF conn[x].client = Ev.client /\ conn[x].mount = conn[c].mount /\ conn[x].phase = "live"
                        THEN [conn[x] EXCEPT !.displaced = TRUE] ELSE conn[x]]
  /\ UNCHANGED <<vnow, subs, msgs, logs, acked, inq2, outf, deliv, need, owed, ret, tags, sweeps, dead, table, clears, faults, reach>>

ConnAck ==
  /\ Ev.op = "srv.write" /\ Ev.kind = "CONNACK" /\ Ev.c \in Dom(conn) /\ conn[Ev.c].phase = "setup"
  /\ IF Ev.code = 0
     THEN /\ conn[Ev.c].auth = "ok" /\ conn[Ev.c].reg                         \* accepted only after the session exists
          /\ conn' = Upd(conn, Ev.c, [conn[Ev.c] EXCEPT !.phase = "live", !.connack = 0])
     ELSE /\ conn[Ev.c].auth = "refused" /\ ~conn[Ev.c].reg /\ Ev.code # 0    \* refusal (any refusal code): nothing was created
          /\ conn' = Upd(conn, Ev.c, [conn[Ev.c] EXCEPT !.phase = "refused", !.connack = Ev.code])
  /\ UNCHANGED <<vnow, subs, msgs, logs, acked, inq2, outf, deliv, need, owed, ret, tags, sweeps, dead, table, clears, faults, reach>>

Tick == /\ Ev.op = "time" /\ vnow' = vnow + Ev.ms
        /\ UNCHANGED <<conn, subs, msgs, logs, acked, inq2, outf, deliv, need, owed, ret, tags, sweeps, dead, table, clears, faults, reach>>

\* a read timed out against the virtual clock.  The broker may give up on a client only when the client
\* has been silent for longer than the keep-alive it asked for (how much longer is the broker's choice).
Timeout ==
  /\ Ev.op = "conn.timeout" /\ Ev.c \in Dom(conn)
  /\ LET k == conn[Ev.c] IN
     /\ k.phase \in {"open", "setup", "live", "refused"}
     /\ (k.phase = "live" => vnow - k.lastpkt > k.ka * 1000)
     /\ (k.phase \in {"open", "setup"} => vnow - k.lastpkt >= 1000)
     /\ conn' = Upd(conn, Ev.c, [k EXCEPT !.cause = IF k.cause = "none" THEN "keepalive" ELSE k.cause])
  /\ UNCHANGED <<vnow, subs, msgs, logs, acked, inq2, outf, deliv, need, owed, ret, tags, sweeps, dead, table, clears, faults, reach>>

ClientClose ==
  /\ Ev.op = "cli.close" /\ Ev.c \in Dom(conn)
  /\ conn' = Upd(conn, Ev.c, [conn[Ev.c] EXCEPT !.cause = IF @ = "none" THEN "loss" ELSE @])
  /\ UNCHANGED <<vnow, subs, msgs, logs, acked, inq2, outf, deliv, need, owed, ret, tags, sweeps, dead, table, clears, faults, reach>>

\* ------------------------------------------------------------------ packets from established clients
Touch(c, k) == [k EXCEPT !.lastpkt = vnow]
WithCause(k, why) == [k EXCEPT !.cause = IF @ = "none" THEN why ELSE @]

\* releasing a message for distribution fixes who is owed a copy
MS(x, m, S) == {s \in S : s.c = x /\ conn[x].mount = m.mount /\ T!Matches(s.f, m.t)}
NeedFor(m, excl) == [c \in {x \in Dom(conn) \ excl : Registered(x) /\ MS(x, m, subs) # {}} |-> Cardinality(MS(c, m, subs))]
Faulty(from, d) == <<"log", d>> \in faults \/ <<"rpc", from, d>> \in faults \/ d \in dead
DestsOf(m) == {n \in Dom(logs) : Hosts(n, m.mount, m.t)}
Release(p, m) == /\ msgs' = Upd(msgs, p, [m EXCEPT !.released = TRUE])
                 /\ need' = Upd(need, p, NeedFor(m, {}))
                 /\ reach' = Upd(reach, p, {d \in DestsOf(m) : ~Faulty(conn[m.c].n, d)})   \* C14: these must be served whatever else fails
\* an empty payload has no identity of its own; in a log it is known by where it was published (scripts publish an
\* empty payload at most once per topic)
EmptyId(mount, t) == "empty@" \o ToString(<<mount, t>>)
RetainedAfter(m, p) == IF m.r THEN R!PublishNew(ret, <<m.mount, m.t>>, p) ELSE ret

SendPublish ==
  /\ Ev.op = "cli.send" /\ Ev.kind = "PUBLISH" /\ Live(Ev.c)
  /\ LET k == conn[Ev.c]
         m == [c |-> Ev.c, id |-> Ev.id, q |-> Ev.q, t |-> Ev.t, r |-> Ev.r, mount |-> k.mount, kind |-> "pub",
               released |-> FALSE, failed |-> FALSE] IN
     IF "dropped" \in DOMAIN Ev THEN UNCHANGED <<conn, msgs, need, ret, inq2, clears, faults, reach>>
     ELSE IF Ev.p = ""
     THEN \* an empty payload cannot be told apart from another one: only its effect on retained state is tracked
          /\ conn' = Upd(conn, Ev.c, Touch(Ev.c, k))
          /\ ret' = RetainedAfter(m, "") /\ clears' = clears \cup {<<k.mount, Ev.t>>}
          \* C14: like any publish it must reach the log of every destination node that can be reached
          /\ reach' = Upd(reach, EmptyId(k.mount, Ev.t), {d \in DestsOf(m) : ~Faulty(k.n, d)})
          /\ UNCHANGED <<msgs, need, inq2>>
     ELSE IF Ev.q = 2 /\ <<Ev.c, Ev.id>> \in Dom(inq2)
     THEN \* repeated PUBLISH on an open handshake: never forwarded again; the broker may end the session
          /\ conn' = Upd(conn, Ev.c, WithCause(Touch(Ev.c, k), "protocol"))
          /\ UNCHANGED <<msgs, need, ret, inq2, clears, faults, reach>>
     ELSE /\ Ev.p \notin Dom(msgs)
          /\ conn' = Upd(conn, Ev.c, Touch(Ev.c, k))
          /\ ret' = RetainedAfter(m, Ev.p) /\ UNCHANGED clears
          /\ IF Ev.q = 2
             THEN /\ msgs' = Upd(msgs, Ev.p, m) /\ inq2' = Upd(inq2, <<Ev.c, Ev.id>>, Ev.p) /\ UNCHANGED <<need, reach>>
             ELSE /\ Release(Ev.p, m) /\ UNCHANGED inq2
  /\ UNCHANGED <<vnow, subs, logs, acked, outf, deliv, owed, tags, sweeps, dead, table, faults>>

AddOwed(o, c, pairs) ==   \* pairs: set of <<<<mount,t>>, payload>>
  LET cur == Get(o, c, <<>>)
      ps  == {x[2] : x \in pairs} IN
  Upd(o, c, [p \in Dom(cur) \cup ps |-> Get(cur, p, 0) + Cardinality({x \in pairs : x[2] = p})])
RECURSIVE OwedAfter(_, _, _, _)
OwedAfter(o, c, mount, fs) ==
  IF fs = <<>> THEN o
  ELSE LET f == Head(fs).f
           hits == {<<k, ret[k]>> : k \in {x \in Dom(ret) : x[1] = mount /\ T!Matches(f, x[2])}} IN
       OwedAfter(AddOwed(o, c, hits), c, mount, Tail(fs))
RECURSIVE SubsAfter(_, _, _)
SubsAfter(S, c, fs) == IF fs = <<>> THEN S
                       ELSE SubsAfter({x \in S : ~(x.c = c /\ x.f = Head(fs).f)} \cup {[c |-> c, f |-> Head(fs).f, q |-> Head(fs).q]}, c, Tail(fs))
SendSubscribe ==
  /\ Ev.op = "cli.send" /\ Ev.kind = "SUBSCRIBE" /\ Live(Ev.c)
  /\ conn' = Upd(conn, Ev.c, Touch(Ev.c, conn[Ev.c]))
  /\ IF "dropped" \in DOMAIN Ev THEN UNCHANGED <<subs, owed>>
     ELSE /\ subs' = SubsAfter(subs, Ev.c, Ev.fs)
          /\ owed' = OwedAfter(owed, Ev.c, conn[Ev.c].mount, Ev.fs)     \* retained replay, once per matching topic and filter
  /\ UNCHANGED <<vnow, msgs, logs, acked, inq2, outf, deliv, need, ret, tags, sweeps, dead, table, clears, faults, reach>>
SendUnsubscribe ==
  /\ Ev.op = "cli.send" /\ Ev.kind = "UNSUBSCRIBE" /\ Live(Ev.c)
  /\ conn' = Upd(conn, Ev.c, Touch(Ev.c, conn[Ev.c]))
  /\ subs' = IF "dropped" \in DOMAIN Ev THEN subs ELSE {x \in subs : ~(x.c = Ev.c /\ x.f \in {Ev.fs[i].f : i \in 1..Len(Ev.fs)})}
  /\ UNCHANGED <<vnow, msgs, logs, acked, inq2, outf, deliv, need, owed, ret, tags, sweeps, dead, table, clears, faults, reach>>
SendOther ==
  /\ Ev.op = "cli.send" /\ Ev.kind \in {"PUBACK", "PUBREC", "PUBREL", "PUBCOMP", "PINGREQ", "DISCONNECT", "RAW", "CONNECT"}
  /\ Ev.c \in Dom(conn) /\ ~(Ev.kind = "CONNECT" /\ conn[Ev.c].phase = "open")
  /\ LET k == Touch(Ev.c, conn[Ev.c]) IN
     conn' = Upd(conn, Ev.c,
        CASE "dropped" \in DOMAIN Ev -> (IF Ev.kind = "RAW" THEN [conn[Ev.c] EXCEPT !.hostile = TRUE] ELSE conn[Ev.c])
          [] Ev.kind = "DISCONNECT" -> [WithCause(k, "disconnect") EXCEPT !.disc = (conn[Ev.c].phase = "live")]
          [] Ev.kind = "RAW" -> [WithCause(k, "protocol") EXCEPT !.hostile = TRUE]
          [] Ev.kind = "CONNECT" -> WithCause(k, "protocol")
          [] Ev.kind = "PINGREQ" /\ conn[Ev.c].displaced -> [WithCause(k, "displaced") EXCEPT !.disc = TRUE]
          [] OTHER -> k)
  /\ UNCHANGED <<vnow, subs, msgs, logs, acked, inq2, outf, deliv, need, owed, ret, tags, sweeps, dead, table, clears, faults, reach>>
\* packets sent on a connection that never got a session (refused, or before CONNECT): offender only
SendStray ==
  /\ Ev.op = "cli.send" /\ Ev.kind \in {"PUBLISH", "SUBSCRIBE", "UNSUBSCRIBE"} /\ Ev.c \in Dom(conn) /\ ~Live(Ev.c)
  /\ conn' = Upd(conn, Ev.c, WithCause(conn[Ev.c], "protocol"))
  /\ UNCHANGED <<vnow, subs, msgs, logs, acked, inq2, outf, deliv, need, owed, ret, tags, sweeps, dead, table, clears, faults, reach>>

\* ------------------------------------------------------------------ distribution
\* a message reaches a node's log: only released messages, only where a matching subscription is hosted,
\* at most once per node, under its mount-point-prefixed topic
LogAppend ==
  /\ Ev.op = "log.append" /\ Ev.n \in Dom(logs)
  /\ IF Ev.p = ""
     THEN /\ <<Ev.mount, Ev.t>> \in clears
          /\ logs' = (IF Ev.ok THEN Upd(logs, Ev.n, Append(logs[Ev.n], EmptyId(Ev.mount, Ev.t))) ELSE logs)
          /\ UNCHANGED msgs
     ELSE /\ Ev.p \in Dom(msgs)
          /\ LET m == msgs[Ev.p] IN
             /\ m.released
             /\ Ev.mount = m.mount /\ Ev.t = m.t                       \* stored under the tenant-prefixed topic
             /\ IF Ev.ok
                THEN /\ ~InLog(Ev.n, Ev.p)                              \* at most once per node
                     /\ (m.kind = "pub" => Hosts(Ev.n, m.mount, m.t) \/ HostileOn(Ev.n))   \* only where a matching subscription is hosted
                     /\ Ev.off = Len(logs[Ev.n])
                     /\ logs' = Upd(logs, Ev.n, Append(logs[Ev.n], Ev.p))
                     /\ UNCHANGED msgs
                ELSE /\ msgs' = Upd(msgs, Ev.p, [m EXCEPT !.failed = TRUE]) /\ UNCHANGED logs
  /\ UNCHANGED <<vnow, conn, subs, acked, inq2, outf, deliv, need, owed, ret, tags, sweeps, dead, table, clears, faults, reach>>

\* acknowledgement to the publisher: only after every destination's log has the message
AckInbound ==
  /\ Ev.op = "srv.write" /\ Ev.kind \in {"PUBACK", "PUBCOMP"} /\ Live(Ev.c)
  /\ \E p \in Dom(msgs) :
       /\ msgs[p].c = Ev.c /\ msgs[p].id = Ev.id /\ msgs[p].kind = "pub" /\ p \notin acked
       /\ msgs[p].q = (IF Ev.kind = "PUBACK" THEN 1 ELSE 2)
       /\ msgs[p].released /\ StoredEverywhere(p)
       /\ acked' = acked \cup {p}
  /\ UNCHANGED <<vnow, conn, subs, msgs, logs, inq2, outf, deliv, need, owed, ret, tags, sweeps, dead, table, clears, faults, reach>>
PubRecInbound ==
  /\ Ev.op = "srv.write" /\ Ev.kind = "PUBREC" /\ Live(Ev.c)
  /\ <<Ev.c, Ev.id>> \in Dom(inq2)
  /\ UNCHANGED <<vnow, conn, subs, msgs, logs, acked, inq2, outf, deliv, need, owed, ret, tags, sweeps, dead, table, clears, faults, reach>>

\* ------------------------------------------------------------------ the in-flight table (seam)
NodeIds(n) == {k[2] : k \in {x \in Dom(outf) : conn[x[1]].n = n}}
InsertSeam ==
  /\ Ev.op = "ack.insert" /\ KnownS(Ev.s)
  /\ LET c == SC(Ev.s) key == <<c, Ev.id>> IN
     IF ~Ev.ok THEN UNCHANGED <<outf, tags>>
     ELSE IF Ev.kind = "pubrec"
     THEN /\ tags' = Upd(tags, Ev.tag, [kind |-> "pubrec", key |-> key, d |-> Ev.d]) /\ UNCHANGED outf
     ELSE /\ tags' = Upd(tags, Ev.tag, [kind |-> Ev.kind, key |-> key, d |-> Ev.d])
          /\ IF key \in Dom(outf)
             THEN outf' = Upd(outf, key, [outf[key] EXCEPT !.tag = Ev.tag, !.d = Ev.d])       \* re-armed after expiry / PUBREL phase
             ELSE /\ Ev.kind \in {"pub1", "pub2"} /\ Ev.id # 0
                  /\ Ev.id \notin NodeIds(conn[c].n)                                        \* C06: differs from every outstanding id
                  /\ outf' = Upd(outf, key, [p |-> "", q |-> IF Ev.kind = "pub1" THEN 1 ELSE 2, phase |-> "pub", due |-> FALSE,
                                              tag |-> Ev.tag, d |-> Ev.d, r |-> FALSE])
  /\ UNCHANGED <<vnow, conn, subs, msgs, logs, acked, inq2, deliv, need, owed, ret, sweeps, dead, table, clears, faults, reach>>

Callback ==
  /\ Ev.op = "ack.cb" /\ Ev.tag \in Dom(tags)
  /\ LET tg == tags[Ev.tag] key == tg.key c == key[1] IN
     /\ tags' = Del(tags, {Ev.tag})
     /\ sweeps' = [s \in Dom(sweeps) |-> sweeps[s] \ {Ev.tag}]
     /\ IF tg.kind = "pubrec"
        THEN \* inbound QoS 2 handshake: PUBREL arrived (release for forwarding, exactly once) or it timed out (dropped)
             /\ (key \in Dom(inq2) \/ conn[c].hostile)
             /\ inq2' = Del(inq2, {key})
             /\ IF Ev.expired \/ key \notin Dom(inq2) THEN UNCHANGED <<msgs, need, reach>>
                ELSE Release(inq2[key], msgs[inq2[key]])
             /\ UNCHANGED outf
        ELSE /\ key \in Dom(outf) /\ outf[key].tag = Ev.tag
             /\ UNCHANGED <<inq2, msgs, need, reach>>
             /\ outf' =
                 IF ~Registered(c) THEN Del(outf, {key})                                   \* session gone: nothing further, id released
                 ELSE IF Ev.expired THEN Upd(outf, key, [outf[key] EXCEPT !.due = TRUE])    \* must be sent again, same identifier
                 ELSE IF tg.kind = "pub2" THEN Upd(outf, key, [outf[key] EXCEPT !.phase = "rel", !.due = TRUE])
                 ELSE Del(outf, {key})                                                     \* PUBACK / PUBCOMP: completed
  /\ UNCHANGED <<vnow, conn, subs, logs, acked, deliv, owed, ret, dead, table, clears, faults>>

SweepCall ==
  /\ Ev.op = "ack.expire.call"
  /\ sweeps' = Upd(sweeps, <<Ev.n, Ev.now>>, {t \in Dom(tags) : conn[tags[t].key[1]].n = Ev.n /\ Ev.now >= tags[t].d + 1000})
  /\ UNCHANGED <<vnow, conn, subs, msgs, logs, acked, inq2, outf, deliv, need, owed, ret, tags, dead, table, clears, faults, reach>>
SweepRet ==
  /\ Ev.op = "ack.expire.ret" /\ <<Ev.n, Ev.now>> \in Dom(sweeps)
  /\ sweeps[<<Ev.n, Ev.now>>] = {}                                   \* every entry past its deadline (to the second) was fired
  /\ sweeps' = Del(sweeps, {<<Ev.n, Ev.now>>})
  /\ UNCHANGED <<vnow, conn, subs, msgs, logs, acked, inq2, outf, deliv, need, owed, ret, tags, dead, table, clears, faults, reach>>

\* ------------------------------------------------------------------ deliveries to subscribers
DeliverEmpty ==
  /\ Ev.op = "srv.write" /\ Ev.kind = "PUBLISH" /\ Ev.p = "" /\ Registered(Ev.c)
  /\ <<conn[Ev.c].mount, Ev.t>> \in clears /\ ~Ev.r
  /\ \E x \in subs : x.c = Ev.c /\ T!Matches(x.f, Ev.t)
  /\ IF Ev.q > 0
     THEN /\ <<Ev.c, Ev.id>> \in Dom(outf)
          /\ outf' = Upd(outf, <<Ev.c, Ev.id>>, [outf[<<Ev.c, Ev.id>>] EXCEPT !.p = "(empty)", !.due = FALSE])
     ELSE UNCHANGED outf
  /\ UNCHANGED <<vnow, conn, subs, msgs, logs, acked, inq2, deliv, need, owed, ret, tags, sweeps, dead, table, clears, faults, reach>>
DeliverPublish ==
  /\ Ev.op = "srv.write" /\ Ev.kind = "PUBLISH" /\ Ev.c \in Dom(conn) /\ Ev.p # ""
  /\ Registered(Ev.c)                                                       \* nothing is written to an ended session
  /\ Ev.p \in Dom(msgs)
  /\ LET m == msgs[Ev.p] c == Ev.c key == <<Ev.c, Ev.id>> IN
     /\ m.mount = conn[c].mount                                             \* C17: same tenant only
     /\ Ev.t = m.t                                                          \* C17: exactly the name the publisher used
     /\ IF Ev.q > 0 /\ key \in Dom(outf) /\ outf[key].p = Ev.p
        THEN \* retransmission of a live flow: only when its deadline passed
             /\ outf[key].phase = "pub" /\ outf[key].due /\ Ev.q = outf[key].q
             /\ Ev.r = outf[key].r                                          \* C07: a replay stays flagged as retained when it is sent again (and a live copy unflagged)
             /\ outf' = Upd(outf, key, [outf[key] EXCEPT !.due = FALSE])
             /\ UNCHANGED <<deliv, owed>>
        ELSE /\ IF Ev.q > 0
                THEN /\ key \in Dom(outf) /\ outf[key].p = "" /\ outf[key].q = Ev.q
                     /\ outf' = Upd(outf, key, [outf[key] EXCEPT !.p = Ev.p, !.r = Ev.r])
                ELSE UNCHANGED outf
             /\ IF Ev.r
                THEN /\ Owed(c, Ev.p) > 0                                   \* C07: retained replay owed to this subscriber
                     /\ owed' = Upd(owed, c, Upd(owed[c], Ev.p, owed[c][Ev.p] - 1))
                     /\ UNCHANGED deliv
                ELSE /\ InLog(conn[c].n, Ev.p)                              \* a live copy comes from this node's log
                     /\ Deliv(c, Ev.p) < Max(NMatch(c, Ev.p), Get(Get(need, Ev.p, <<>>), c, 0))   \* C01: once per matching subscription
                     /\ deliv' = Upd(deliv, <<c, Ev.p>>, Deliv(c, Ev.p) + 1)
                     /\ UNCHANGED owed
  /\ UNCHANGED <<vnow, conn, subs, msgs, logs, acked, inq2, need, ret, tags, sweeps, dead, table, clears, faults, reach>>
DeliverPubRel ==
  /\ Ev.op = "srv.write" /\ Ev.kind = "PUBREL" /\ Registered(Ev.c)
  /\ LET key == <<Ev.c, Ev.id>> IN
     /\ key \in Dom(outf) /\ outf[key].phase = "rel" /\ outf[key].due
     /\ outf' = Upd(outf, key, [outf[key] EXCEPT !.due = FALSE])
  /\ UNCHANGED <<vnow, conn, subs, msgs, logs, acked, inq2, deliv, need, owed, ret, tags, sweeps, dead, table, clears, faults, reach>>
OtherWrite ==
  /\ Ev.op = "srv.write" /\ Ev.kind \in {"SUBACK", "UNSUBACK", "PINGRESP"} /\ Registered(Ev.c)
  /\ (Ev.kind = "PINGRESP" => ~conn[Ev.c].displaced)                        \* C12: a displaced session is not served at its next ping

\* C18: a connection that has sent bytes of the harness' choosing ("RAW") is an offender.  What the broker writes
\* to it, and messages it may have managed to publish, are not constrained - only that nobody else is affected:
\* such payloads may reach the log and the offender itself, never another session.
HostileWrite ==
  /\ Ev.op = "srv.write" /\ Ev.c \in Dom(conn) /\ conn[Ev.c].hostile /\ Ev.kind # "CONNACK"
  /\ outf' = IF Ev.kind = "PUBLISH" /\ <<Ev.c, Ev.id>> \in Dom(outf)
             THEN Upd(outf, <<Ev.c, Ev.id>>, [outf[<<Ev.c, Ev.id>>] EXCEPT !.p = Ev.p, !.due = FALSE])
             ELSE IF Ev.kind = "PUBREL" /\ <<Ev.c, Ev.id>> \in Dom(outf)
             THEN Upd(outf, <<Ev.c, Ev.id>>, [outf[<<Ev.c, Ev.id>>] EXCEPT !.due = FALSE]) ELSE outf
  /\ UNCHANGED <<vnow, conn, subs, msgs, logs, acked, inq2, deliv, need, owed, ret, tags, sweeps, dead, table, clears, faults, reach>>
HostileAppend ==
  /\ Ev.op = "log.append" /\ Ev.n \in Dom(logs) /\ Ev.p # "" /\ Ev.p \notin Dom(msgs)
  /\ \E c \in Dom(conn) : conn[c].hostile
  /\ logs' = IF Ev.ok THEN Upd(logs, Ev.n, Append(logs[Ev.n], Ev.p)) ELSE logs
  /\ UNCHANGED <<vnow, conn, subs, msgs, acked, inq2, outf, deliv, need, owed, ret, tags, sweeps, dead, table, clears, faults, reach>>

\* ------------------------------------------------------------------ teardown
WillOf(c) == conn[c].will
\* a newer session of the same client identifier (same tenant) is being set up or already registered: the broker may end
\* the older one at once, before or after it registers the new one
Superseded(c) == \/ conn[c].displaced
                 \/ \E x \in Dom(conn) : x # c /\ conn[x].phase = "setup" /\ conn[x].auth = "ok"
                                          /\ conn[x].client = conn[c].client /\ conn[x].mount = conn[c].mount
Unregister ==
  /\ Ev.op = "reg.delete" /\ KnownS(Ev.s)
  /\ LET c == SC(Ev.s) k == conn[c] IN
     /\ k.reg /\ k.n = Ev.n
     /\ (k.cause # "none" \/ Superseded(c))                                 \* C11: sessions end only for cause (displacement is one: the broker may end a displaced session at once)
     /\ conn' = Upd(conn, c, [k EXCEPT !.reg = FALSE, !.phase = "ending"])
     /\ subs' = {x \in subs : x.c # c}
     /\ UNCHANGED outf /\ owed' = Del(owed, {c})
     \* C13: the will is released exactly when the session dies without DISCONNECT.  Displacement by a newer
     \* session is not in C13's list of causes: publishing the will then is allowed, not required.
     /\ IF k.will # "" /\ ~k.disc /\ k.cause # "none"
        THEN /\ msgs' = Upd(msgs, k.will, [msgs[k.will] EXCEPT !.released = TRUE])
             /\ need' = Upd(need, k.will, NeedFor(msgs[k.will], {c})) /\ UNCHANGED reach
             /\ ret' = RetainedAfter(msgs[k.will], k.will)
        ELSE IF k.will # "" /\ (k.cause = "displaced" \/ (k.cause = "none" /\ Superseded(c)))
        THEN /\ msgs' = Upd(msgs, k.will, [msgs[k.will] EXCEPT !.released = TRUE]) /\ UNCHANGED <<need, ret, reach>>
        ELSE UNCHANGED <<msgs, need, ret, reach>>
  /\ UNCHANGED <<vnow, logs, acked, inq2, deliv, tags, sweeps, dead, table, clears, faults>>
TeardownDone ==
  /\ Ev.op = "shutdown.done" /\ KnownS(Ev.s)
  /\ LET c == SC(Ev.s) IN
     /\ ~conn[c].reg /\ conn[c].phase = "ending"
     /\ conn' = Upd(conn, c, [conn[c] EXCEPT !.phase = "ended"])
  /\ UNCHANGED <<vnow, subs, msgs, logs, acked, inq2, outf, deliv, need, owed, ret, tags, sweeps, dead, table, clears, faults, reach>>
\* teardown steps repeated for a session that is already gone change nothing (the properties do not forbid them;
\* what a repeated teardown must not do - publish the will again, touch a successor - is rejected where it shows)
Again ==
  /\ \/ Ev.op = "reg.delete" /\ ~Ev.found /\ KnownS(Ev.s) /\ ~conn[SC(Ev.s)].reg /\ conn[SC(Ev.s)].phase \in {"ending", "ended"}
     \/ Ev.op = "shutdown.done" /\ KnownS(Ev.s) /\ conn[SC(Ev.s)].phase = "ended"
  /\ UNCHANGED <<vnow, conn, subs, msgs, logs, acked, inq2, outf, deliv, need, owed, ret, tags, sweeps, dead, table, clears, faults, reach>>
Close ==
  /\ Ev.op = "srv.close" /\ Ev.c \in Dom(conn)
  /\ conn[Ev.c].phase \in {"open", "setup", "refused", "ending", "ended"}    \* never a live session's connection
  /\ conn' = Upd(conn, Ev.c, [conn[Ev.c] EXCEPT !.closed = TRUE])
  /\ UNCHANGED <<vnow, subs, msgs, logs, acked, inq2, outf, deliv, need, owed, ret, tags, sweeps, dead, table, clears, faults, reach>>

\* the hosting node fails: its sessions are gone; wills of those that never sent DISCONNECT are released
PeerFail ==
  /\ Ev.op = "peer.fail"
  /\ dead' = dead \cup {Ev.n}
  /\ LET gone == {c \in Dom(conn) : conn[c].n = Ev.n} IN
     /\ conn' = [c \in Dom(conn) |-> IF c \in gone THEN [conn[c] EXCEPT !.reg = FALSE, !.phase = "ended", !.closed = TRUE,
                                                                     !.cause = IF @ = "none" THEN "peerfail" ELSE @] ELSE conn[c]]
     /\ subs' = {x \in subs : x.c \notin gone}
     /\ LET ws == {conn[c].will : c \in {x \in gone : conn[x].will # "" /\ ~conn[x].disc /\ conn[x].phase = "live"}} IN
        /\ msgs' = [p \in Dom(msgs) |-> IF p \in ws THEN [msgs[p] EXCEPT !.released = TRUE] ELSE msgs[p]]
        /\ need' = [p \in Dom(need) \cup ws |->
                      IF p \in ws THEN [c \in {x \in Dom(conn) \ gone : Registered(x) /\ NMatch(x, p) > 0} |-> NMatch(c, p)] ELSE need[p]]
        /\ UNCHANGED reach
        \* a will registered with the retain flag is a retained publish like any other
        /\ LET rw == {w \in ws : msgs[w].r} IN
           ret' = [k \in Dom(ret) \cup {<<msgs[w].mount, msgs[w].t>> : w \in rw} |->
                     IF \E w \in rw : k = <<msgs[w].mount, msgs[w].t>> THEN CHOOSE w \in rw : k = <<msgs[w].mount, msgs[w].t>> ELSE ret[k]]
  /\ outf' = Del(outf, {k \in Dom(outf) : conn[k[1]].n = Ev.n})
  /\ UNCHANGED <<vnow, logs, acked, inq2, deliv, owed, tags, sweeps, table, clears, faults>>

Inject ==
  /\ Ev.op = "inject"
  /\ faults' = IF Ev.what = "slow.append" THEN faults          \* a late answer is not a failure
               ELSE IF Ev.what = "log.append"
               THEN (IF Ev.k > 0 THEN faults \cup {<<"log", Ev.n>>} ELSE faults \ {<<"log", Ev.n>>})
               ELSE (IF Ev.on THEN faults \cup {<<"rpc", Ev.from, Ev.to>>} ELSE faults \ {<<"rpc", Ev.from, Ev.to>>})
  /\ UNCHANGED <<vnow, conn, subs, msgs, logs, acked, inq2, outf, deliv, need, owed, ret, tags, sweeps, dead, table, clears, reach>>

\* ------------------------------------------------------------------ probes and quiescence
LiveNodes == Dom(logs) \ dead
Listed == {c \in Dom(conn) : conn[c].phase = "live" /\ ~conn[c].displaced}
NobodyInLimbo == \A c \in Dom(conn) : conn[c].phase = "live" => ~conn[c].displaced
Probe ==
  /\ Ev.op = "probe"
  \* the local registry holds exactly the sessions being served on this node
  /\ ToSet(Ev.local) = {conn[c].s : c \in {x \in Dom(conn) : conn[x].reg /\ conn[x].n = Ev.n}}
  \* C06 (writer level): identifiers held = identifiers of live outbound flows, nothing leaks
  /\ ToSet(Ev.held) = NodeIds(Ev.n)
  \* C12: once the broadcasts are delivered every node resolves a client identifier to its newest session - also while a
  \* displaced session has not noticed yet
  /\ Ev.synced =>
       \A r \in ToSet(Ev.resolve) : \A c \in Dom(conn) :
          (conn[c].phase = "live" /\ ~conn[c].displaced /\ ~conn[c].hostile /\ conn[c].n \notin dead
             /\ conn[c].client = r.client /\ conn[c].mount = r.mount) => r.s = conn[c].s
  /\ (Ev.synced /\ NobodyInLimbo) =>
       \* C11/C12: every node lists exactly the live sessions, with their tenant and hosting node ...
       /\ {[s |-> x.s, client |-> x.client, peer |-> x.peer, mount |-> x.mount] : x \in ToSet(Ev.sessions)}
            = {[s |-> conn[c].s, client |-> conn[c].client, peer |-> conn[c].n, mount |-> conn[c].mount] : c \in Listed}
       /\ Len(Ev.sessions) = Cardinality(Listed)
       \* ... and exactly their active subscriptions
       /\ {[s |-> x.s, mount |-> x.mount, f |-> x.f, q |-> x.q, peer |-> x.peer] : x \in ToSet(Ev.subs)}
            = {[s |-> conn[x.c].s, mount |-> conn[x.c].mount, f |-> x.f, q |-> x.q, peer |-> conn[x.c].n] : x \in subs}
       /\ Len(Ev.subs) = Cardinality(subs)
       \* C07: retained state
       /\ {<<<<x.mount, x.t>>, x.p>> : x \in ToSet(Ev.retained)} = {<<k, ret[k]>> : k \in Dom(ret)}

StillOwed(c, p) == Registered(c) /\ NMatch(c, p) >= need[p][c]
Quiescent ==
  /\ Ev.op = "quiescent"
  \* C01/C02/C13/C14: every stored message reached every session that was connected with a matching subscription
  /\ \A p \in Dom(need) : \A c \in Dom(need[p]) :
        (StillOwed(c, p) /\ InLog(conn[c].n, p)) => Deliv(c, p) >= need[p][c]
  /\ \A p \in Dom(need) : (msgs[p].kind = "will" /\ ~msgs[p].failed) =>
        \A c \in Dom(need[p]) : StillOwed(c, p) => InLog(conn[c].n, p)        \* C13: the will was actually published
  /\ \A p \in acked : \A c \in Dom(Get(need, p, <<>>)) : StillOwed(c, p) => Deliv(c, p) >= need[p][c]     \* C02
  \* C14: every destination that could be reached has the message, whatever happened to the others
  /\ \A p \in Dom(reach) : \A d \in reach[p] : InLog(d, p)
  \* C07: every owed retained replay arrived
  /\ \A c \in Dom(owed) : Registered(c) => \A p \in Dom(owed[c]) : owed[c][p] = 0
  \* C03: nothing that must be retransmitted is pending
  /\ \A k \in Dom(outf) : ~outf[k].due
  \* C11: an ended session's connection was closed by the broker
  /\ \A c \in Dom(conn) : conn[c].phase = "ended" => conn[c].closed
  /\ \A c \in Dom(conn) : conn[c].phase # "ending"
  \* C11/C13: silence exceeding the keep-alive allowance ends the session (and releases its will).  The allowance is the
  \* broker's choice (the code arms twice the keep-alive; MQTT says one and a half): four keep-alives is beyond any.  Only
  \* sessions without subscriptions are judged - nothing but answers to their own packets is ever written to them, so
  \* "silent" is exactly "no client packet" whatever the broker counts as activity.
  /\ \A c \in Dom(conn) :
        (conn[c].phase = "live" /\ ~conn[c].hostile /\ conn[c].n \notin dead /\ conn[c].ka > 0 /\ ~(\E x \in subs : x.c = c))
          => vnow - conn[c].lastpkt <= 4 * conn[c].ka * 1000

Ignored == Ev.op \in {"log.consume", "log.get", "writer.done", "publish.done", "gossip.out", "gossip.deliver", "conn.deadline", "rpc.call",
                      "ack.ack.call", "ack.ack.ret", "peer.leave.notified", "purge.waited", "race.parked", "race.released", "race.note"}

\* C11/C13 again, at the moment it shows: a client packet is accepted by a connection whose session has been silent for more
\* than four keep-alives - the broker is still serving a session it should have ended long ago (same proviso as in Quiescent)
ServedAfterSilence ==
  /\ Ev.op = "cli.send" /\ Ev.c \in Dom(conn) /\ "dropped" \notin DOMAIN Ev /\ Ev.kind # "RAW"
  /\ LET k == conn[Ev.c] IN
     /\ k.phase = "live" /\ ~k.hostile /\ k.n \notin dead /\ k.ka > 0 /\ ~(\E x \in subs : x.c = Ev.c)
     /\ vnow - k.lastpkt > 4 * k.ka * 1000

Step ==
  /\ l <= Len(Trace) /\ l' = l + 1
  /\ ~ServedAfterSilence
  /\ \/ New \/ Open \/ SendConnect \/ AuthDone \/ Register \/ ConnAck \/ Tick \/ Timeout \/ ClientClose
     \/ SendPublish \/ SendSubscribe \/ SendUnsubscribe \/ SendOther \/ SendStray
     \/ LogAppend \/ AckInbound \/ PubRecInbound \/ InsertSeam \/ Callback \/ SweepCall \/ SweepRet
     \/ DeliverPublish \/ DeliverEmpty \/ DeliverPubRel \/ HostileWrite \/ HostileAppend
     \/ (OtherWrite /\ UNCHANGED <<conn, vnow, subs, msgs, logs, acked, inq2, outf, deliv, need, owed, ret, tags, sweeps, dead, table, clears, faults, reach>>)
     \/ Unregister \/ TeardownDone \/ Again \/ Close \/ PeerFail \/ Inject
     \/ (Probe /\ UNCHANGED <<conn, vnow, subs, msgs, logs, acked, inq2, outf, deliv, need, owed, ret, tags, sweeps, dead, table, clears, faults, reach>>)
     \/ (Quiescent /\ UNCHANGED <<conn, vnow, subs, msgs, logs, acked, inq2, outf, deliv, need, owed, ret, tags, sweeps, dead, table, clears, faults, reach>>)
     \/ (Ignored /\ UNCHANGED <<conn, vnow, subs, msgs, logs, acked, inq2, outf, deliv, need, owed, ret, tags, sweeps, dead, table, clears, faults, reach>>)
TSpec == TInit /\ [][Step]_vars
HighWater == TLCSet(1, IF TLCGet(1) > l THEN TLCGet(1) ELSE l)
Accepted == IF TLCGet(1) - 1 = Len(Trace) THEN PrintT("TRACE_ACCEPTED")
            ELSE PrintT(<<"REJECTED_AT_LINE", TLCGet(1), Trace[TLCGet(1)]>>) /\ FALSE
=============================================================================
