package stream

import (
	"context"
	"io"
)

// Processor is a function that will process stream records
type Processor func(context.Context, Batch) error

// consume starts a poller, and calls Processor on each stream records
func consume(ctx context.Context, r io.ReadSeeker, opts ConsumerOpts, processor Processor) error {
	poller := newPoller(ctx, r, opts)
	for _, middleware := range opts.Middleware {
		processor = middleware(processor, opts)
	}
	for {
		select {
		case <-ctx.Done():
			return nil
		case batch, ok := <-poller.Ready():
			err := processor(ctx, batch)
			if err != nil {
				return err
			}
			if !ok {
				return poller.Error()
			}
		}
	}
}
