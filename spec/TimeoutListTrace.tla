-------------------------- MODULE TimeoutListTrace --------------------------
(* Trace validation for the bare expiry structure: every recorded call on the real       *)
(* expiration.List must be a step of the bag of (value, deadline) pairs of TimeoutList   *)
(* - in particular every sweep reports exactly the values whose second has passed.       *)
EXTENDS Integers, FiniteSets, Sequences, TLC, Json
VARIABLES l, bag
T == INSTANCE TimeoutList WITH Vals <- {}, Deadlines <- {}, Nows <- {}, MaxOps <- 0, Variant <- "ok",
                               buckets <- <<>>, heap <- {}, out <- <<>>, nops <- 0
Trace == ndJsonDeserialize("trace.ndjson")
Ev == Trace[l]
AllItems == {<<x[1][1], x[1][2], x[2]>> : x \in {y \in (DOMAIN bag) \X (1..8) : y[2] <= bag[y[1]]}}
MustItems(now) == {x \in AllItems : now >= x[2] + 1000}
MayItems(now) == {x \in AllItems : now > x[2] - 1000 /\ now < x[2] + 1000}
Minus(F) == LET cnt(p) == bag[p] - Cardinality({x \in F : x[1] = p[1] /\ x[2] = p[2]}) IN
            [p \in {q \in DOMAIN bag : cnt(q) > 0} |-> cnt(p)]
TInit == TLCSet(1, 0) /\ l = 1 /\ bag = <<>>
Step == /\ l <= Len(Trace) /\ l' = l + 1
        /\ \/ Ev.op = "new" /\ bag' = <<>>
           \/ Ev.op = "ins" /\ ~Ev.panic /\ bag' = T!BagAdd(bag, <<Ev.v, Ev.d>>)
           \/ Ev.op = "del" /\ ~Ev.panic /\ bag' = T!BagDel(bag, <<Ev.v, Ev.d>>)
           \/ Ev.op = "exp" /\ ~Ev.panic
              \* C04: "deadlines are honoured to the second" - an entry whose deadline lies a second or more back must be
              \* reported, one whose deadline is a second or more ahead must not, in between the structure decides (the code
              \* rounds deadlines to whole seconds; TimeoutList.tla has the exact rule)
              /\ \E X \in SUBSET MayItems(Ev.now) :
                    LET F == MustItems(Ev.now) \cup X IN
                    /\ T!SeqValBag(Ev.fired) = [v \in {x[1] : x \in F} |-> Cardinality({x \in F : x[1] = v})]
                    /\ bag' = Minus(F)
TSpec == TInit /\ [][Step]_<<l, bag>>
HighWater == TLCSet(1, IF TLCGet(1) > l THEN TLCGet(1) ELSE l)
Accepted == IF TLCGet(1) - 1 = Len(Trace) THEN PrintT("TRACE_ACCEPTED")
            ELSE PrintT(<<"REJECTED_AT_LINE", TLCGet(1), Trace[TLCGet(1)]>>) /\ FALSE
=============================================================================
