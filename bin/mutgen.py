#!/usr/bin/env python3
# development aid (see DESIGN.md 0.7): needs a scratch worktree of /repo at /tmp/mutwt (git -C /repo worktree add /tmp/mutwt HEAD), writes /var/tmp/mut/
"""Simple source mutants of the files the properties are anchored in; keeps those that build and pass the baseline suite."""
import json, os, random, re, subprocess, sys, collections
W = "/tmp/mutwt"
OUT = "/var/tmp/mut"
env = dict(os.environ, GOFLAGS="-mod=mod", GOPROXY="off", GOSUMDB="off", GOTOOLCHAIN="local")
files = collections.defaultdict(list)
for l in open('/verif/properties.jsonl'):
    p = json.loads(l)
    for f in p['anchors']['files']:
        files[f].append(p['id'])
skip = ("pb.go", "types.go", "cmd/wasp/auth.go", "skiplist.go")
rng = random.Random(7)
OPS = [
    (r" == ", " != "), (r" != ", " == "), (r" < ", " <= "), (r" <= ", " < "), (r" > ", " >= "), (r" >= ", " > "),
    (r" && ", " || "), (r" \|\| ", " && "), (r"\btrue\b", "false"), (r"\bfalse\b", "true"),
    (r" \+ 1\b", ""), (r" - 1\b", ""), (r" \+ 1\b", " - 1"), (r"if !", "if "), (r"\breturn err$", "return nil"),
    (r"\+\+$", "--"), (r" >= 0", " > 0"), (r"\[0\]", "[1]"), (r"\bcontinue$", "break"), (r"\bbreak$", "continue"),
]
cands = []
for f, props in sorted(files.items()):
    if f.endswith(skip) or not os.path.exists(os.path.join(W, f)):
        continue
    lines = open(os.path.join(W, f)).read().split("\n")
    inimport = False
    per = []
    for i, ln in enumerate(lines):
        st = ln.strip()
        if st.startswith("import ("):
            inimport = True
        if inimport:
            if st == ")":
                inimport = False
            continue
        if not st or st.startswith("//") or st.startswith("package ") or "vhook(" in st or "L(ctx)" in st or "zap." in st:
            continue
        code = ln.split("//")[0].rstrip()
        for pat, rep in OPS:
            for m in re.finditer(pat, code):
                new = code[:m.start()] + rep + code[m.end():]
                if new != code:
                    per.append((f, i, "%s -> %s" % (pat, rep), new))
        # statement deletion: a line that is a bare call or assignment without control flow
        if re.match(r"^\s+[A-Za-z_][\w\.\(\)\[\]]*\(.*\)$", code) and "Lock()" not in code and "Unlock()" not in code and not st.startswith(("return", "defer", "go ", "if ", "for ", "switch", "case")):
            per.append((f, i, "delete statement", None))
    rng.shuffle(per)
    k = max(4, min(14, len(lines) // 25))
    cands += [(c, props) for c in per[:k * 2]]
print(len(cands), "candidates")
kept = []
idx = []
for n, ((f, i, op, new), props) in enumerate(cands):
    path = os.path.join(W, f)
    orig = open(path).read()
    lines = orig.split("\n")
    if new is None:
        lines[i] = re.match(r"^\s*", lines[i]).group(0) + "_ = 0" if False else ""
    else:
        lines[i] = new
    open(path, "w").write("\n".join(lines))
    ok = subprocess.run("go build ./... 2>&1", shell=True, cwd=W, env=env, capture_output=True).returncode == 0
    if ok:
        ok = subprocess.run("go test -vet=off -count=1 ./... 2>&1", shell=True, cwd=W, env=env, capture_output=True, timeout=600).returncode == 0
    if ok:
        diff = subprocess.run(["git", "diff"], cwd=W, capture_output=True, text=True).stdout
        name = "m%03d" % len(kept)
        open(os.path.join(OUT, name + ".diff"), "w").write(diff)
        idx.append({"name": name, "file": f, "line": i + 1, "op": op, "props": props, "orig": orig.split("\n")[i].strip(), "new": (new or "").strip()})
        kept.append(name)
        json.dump(idx, open(os.path.join(OUT, "index.json"), "w"), indent=1)
    open(path, "w").write(orig)
    print(n, f, i + 1, op, "KEPT" if ok else "dropped", flush=True)
print("kept", len(kept))
