------------------------------ MODULE RaceTrace ------------------------------
(* What clients may rely on when their operations OVERLAP.  BrokerTrace follows scripts *)
(* whose steps are separated by quiescence, so it may update its picture of the          *)
(* subscriptions the moment a SUBSCRIBE is sent.  Here one operation is parked in the    *)
(* middle of its handler (a scheduler gate at a replicated-state call) while others run  *)
(* to completion, and only what holds under EVERY such interleaving is required:         *)
(*                                                                                       *)
(*   an operation is "complete" when its acknowledgement has been written (SUBACK,       *)
(*   UNSUBACK, PUBACK/PUBCOMP); "before" is the order of the recorded events.            *)
(*                                                                                       *)
(*   Live     a publish SENT after a matching subscription was COMPLETE (and not taken    *)
(*            back) reaches that session at least once             (C01, C02)             *)
(*   Latest   at quiescence every session with a complete, still active subscription has  *)
(*            received - live or as a retained replay - the last retained payload of      *)
(*            every matching topic (one sequential publisher per topic) (C07)            *)
(*   Only     a PUBLISH is written to a session only if it had SENT a matching            *)
(*            SUBSCRIBE before, and not if its UNSUBSCRIBE was complete before the        *)
(*            publish was even sent; with the publisher's topic; flagged as retained      *)
(*            only if the publisher retained it                        (C01, C07)         *)
(*   Bounded  no more copies than twice the session's matching subscriptions              *)
EXTENDS Integers, FiniteSets, Sequences, TLC, Json
VARIABLES l, subs, pubs, recv, live, order, cid, left, w
T == INSTANCE Topics
Trace == ndJsonDeserialize("trace.ndjson")
Ev == Trace[l]
vars == <<l, subs, pubs, recv, live, order, cid, left, w>>
Dom(f) == DOMAIN f
Get(f, k, d) == IF k \in DOMAIN f THEN f[k] ELSE d
Upd(f, k, v) == (k :> v) @@ f
Filters(fs) == {fs[i].f : i \in 1..Len(fs)}

\* w: what is known of wills - will: connection -> [t, p, q, r, sent (index of its CONNECT)]; disc: connections that sent DISCONNECT;
\* reg: connections whose session the node registered; gone: connections that are over; acc: connections that were accepted (CONNACK 0)
NoWills == [will |-> <<>>, disc |-> {}, reg |-> {}, gone |-> {}, acc |-> {}]
TInit == TLCSet(1, 0) /\ l = 1 /\ subs = {} /\ pubs = <<>> /\ recv = <<>> /\ live = {} /\ order = <<>> /\ cid = <<>> /\ left = {} /\ w = NoWills

\* subs: [c, f, id, req (index of the SUBSCRIBE), ack (index of the SUBACK, 0), unreq, unack (UNSUBSCRIBE / UNSUBACK indices, 0)]
SendSubscribe ==
  /\ Ev.op = "cli.send" /\ Ev.kind = "SUBSCRIBE" /\ "dropped" \notin DOMAIN Ev
  /\ subs' = subs \cup {[c |-> Ev.c, f |-> f, id |-> Ev.id, req |-> l, ack |-> 0, unreq |-> 0, unack |-> 0] : f \in Filters(Ev.fs)}
  /\ UNCHANGED <<pubs, recv, live, order, cid, left, w>>
SubAck ==
  /\ Ev.op = "srv.write" /\ Ev.kind = "SUBACK"
  /\ subs' = {IF s.c = Ev.c /\ s.id = Ev.id /\ s.ack = 0 THEN [s EXCEPT !.ack = l] ELSE s : s \in subs}
  /\ UNCHANGED <<pubs, recv, live, order, cid, left, w>>
SendUnsubscribe ==
  /\ Ev.op = "cli.send" /\ Ev.kind = "UNSUBSCRIBE" /\ "dropped" \notin DOMAIN Ev
  /\ subs' = {IF s.c = Ev.c /\ s.f \in Filters(Ev.fs) /\ s.unreq = 0 THEN [s EXCEPT !.unreq = l, !.id = Ev.id] ELSE s : s \in subs}
  /\ UNCHANGED <<pubs, recv, live, order, cid, left, w>>
UnsubAck ==
  /\ Ev.op = "srv.write" /\ Ev.kind = "UNSUBACK"
  /\ subs' = {IF s.c = Ev.c /\ s.unreq > 0 /\ s.unack = 0 /\ s.id = Ev.id THEN [s EXCEPT !.unack = l] ELSE s : s \in subs}
  /\ UNCHANGED <<pubs, recv, live, order, cid, left, w>>
\* pubs: payload -> [c, id, t, r, q, sent, acked]; order: topic -> sequence of retained payloads in the order they were sent
SendPublish ==
  /\ Ev.op = "cli.send" /\ Ev.kind = "PUBLISH" /\ "dropped" \notin DOMAIN Ev /\ Ev.p # ""
  /\ Ev.p \notin Dom(pubs)
  /\ pubs' = Upd(pubs, Ev.p, [c |-> Ev.c, id |-> Ev.id, t |-> Ev.t, r |-> Ev.r, q |-> Ev.q, sent |-> l, acked |-> 0])
  /\ order' = IF Ev.r THEN Upd(order, Ev.t, Append(Get(order, Ev.t, <<>>), Ev.p)) ELSE order
  /\ UNCHANGED <<subs, recv, live, cid, left, w>>
PubAck ==
  /\ Ev.op = "srv.write" /\ Ev.kind \in {"PUBACK", "PUBCOMP"}
  /\ pubs' = [p \in Dom(pubs) |-> IF pubs[p].c = Ev.c /\ pubs[p].id = Ev.id /\ pubs[p].acked = 0 THEN [pubs[p] EXCEPT !.acked = l] ELSE pubs[p]]
  /\ UNCHANGED <<subs, recv, live, order, cid, left, w>>
Connected ==
  /\ Ev.op = "srv.write" /\ Ev.kind = "CONNACK" /\ Ev.code = 0
  /\ live' = live \cup {Ev.c} /\ w' = [w EXCEPT !.acc = @ \cup {Ev.c}] /\ UNCHANGED <<subs, pubs, recv, order, cid, left>>
SendConnect ==
  /\ Ev.op = "cli.send" /\ Ev.kind = "CONNECT"
  /\ cid' = Upd(cid, Ev.c, Ev.client)
  /\ w' = IF Ev.haswill THEN [w EXCEPT !.will = Upd(w.will, Ev.c, [t |-> Ev.will.t, p |-> Ev.will.p, q |-> Ev.will.q, r |-> Ev.will.r, sent |-> l])] ELSE w
  /\ UNCHANGED <<subs, pubs, recv, live, order, left>>
Gone ==
  /\ Ev.op \in {"srv.close", "cli.close"} \/ (Ev.op = "cli.send" /\ Ev.kind = "DISCONNECT")
  /\ live' = live \ {Ev.c}
  /\ left' = IF Ev.op = "srv.close" THEN left ELSE left \cup {Ev.c}          \* the client itself hung up
  /\ w' = [w EXCEPT !.gone = IF Ev.op = "cli.send" THEN @ ELSE @ \cup {Ev.c},
                     !.disc = IF Ev.op = "cli.send" /\ "dropped" \notin DOMAIN Ev /\ Ev.c \notin w.gone THEN @ \cup {Ev.c} ELSE @]
  /\ UNCHANGED <<subs, pubs, recv, order, cid>>
Registered ==
  /\ Ev.op = "reg.create"
  /\ w' = [w EXCEPT !.reg = @ \cup {c \in Dom(cid) : Ev.s = "s" \o ToString(c)}]
  /\ UNCHANGED <<subs, pubs, recv, live, order, cid, left>>

Matching(c, t) == {s \in subs : s.c = c /\ T!Matches(s.f, t)}
Deliver ==
  /\ Ev.op = "srv.write" /\ Ev.kind = "PUBLISH" /\ Ev.p # ""
  /\ Ev.p \in Dom(pubs)
  /\ LET p == pubs[Ev.p] IN
     /\ Ev.t = p.t                                                              \* Only: the publisher's topic
     /\ (Ev.r => p.r)                                                           \* Only: flagged only if retained by the publisher
     /\ \E s \in Matching(Ev.c, p.t) : s.req < l /\ (s.unack = 0 \/ p.sent < s.unack)     \* Only
     /\ Get(recv, <<Ev.c, Ev.p>>, 0) < 2 * Cardinality(Matching(Ev.c, p.t))              \* Bounded
  /\ recv' = Upd(recv, <<Ev.c, Ev.p>>, Get(recv, <<Ev.c, Ev.p>>, 0) + 1)
  /\ UNCHANGED <<subs, pubs, live, order, cid, left, w>>

\* Will (C13): the will of a connection is written only once that connection is over, never if it had sent DISCONNECT; with the will's
\* topic, to sessions that asked for it, once per matching subscription
WillOf(p) == {c \in Dom(w.will) : w.will[c].p = p}
WillDeliver ==
  /\ Ev.op = "srv.write" /\ Ev.kind = "PUBLISH" /\ Ev.p # "" /\ Ev.p \notin Dom(pubs)
  /\ \E c \in WillOf(Ev.p) :
       /\ c \in w.gone /\ c \notin w.disc
       /\ Ev.t = w.will[c].t /\ (Ev.r => w.will[c].r)
       /\ \E s \in Matching(Ev.c, Ev.t) : s.req < l
       /\ Get(recv, <<Ev.c, Ev.p>>, 0) < Cardinality(Matching(Ev.c, Ev.t))
  /\ recv' = Upd(recv, <<Ev.c, Ev.p>>, Get(recv, <<Ev.c, Ev.p>>, 0) + 1)
  /\ UNCHANGED <<subs, pubs, live, order, cid, left, w>>

WasAccepted(c) == c \in w.acc      \* (kept in the state, not read back from the trace: traces of many scenarios are validated in one run)
Active(s) == s.ack > 0 /\ s.unreq = 0 /\ s.c \in live
Sequential(ps) == \A i \in 1..(Len(ps) - 1) : pubs[ps[i]].acked > 0 /\ pubs[ps[i]].acked < pubs[ps[i + 1]].sent
Quiescent ==
  /\ Ev.op = "quiescent"
  \* Live
  /\ \A p \in Dom(pubs) : \A s \in subs :
        (Active(s) /\ s.ack < pubs[p].sent /\ T!Matches(s.f, pubs[p].t) /\ pubs[p].c \in live) => Get(recv, <<s.c, p>>, 0) >= 1
  \* Latest
  /\ \A t \in Dom(order) :
        LET ps == order[t] last == ps[Len(ps)] IN
        (Sequential(ps) /\ pubs[last].c \in live) =>
          \A s \in subs : (Active(s) /\ T!Matches(s.f, t)) => Get(recv, <<s.c, last>>, 0) >= 1
  \* Will: a registered session whose client hung up without DISCONNECT (and whose client identifier nobody else used) owes its will
  \* to every subscription that was complete before its CONNECT
  /\ \A c \in Dom(w.will) :
        (c \in w.reg /\ c \in left /\ c \in w.gone /\ c \notin w.disc /\ \A c2 \in Dom(cid) : cid[c2] = cid[c] => c2 = c) =>
          \A s \in subs : (Active(s) /\ s.ack < w.will[c].sent /\ T!Matches(s.f, w.will[c].t)) => Get(recv, <<s.c, w.will[c].p>>, 0) >= 1
  \* Established (C12): a client that sent CONNECT and stayed was accepted - whatever happened to earlier sessions of its client
  \* identifier meanwhile (no credentials are configured in these scenarios)
  /\ \A c \in Dom(cid) : c \notin left => WasAccepted(c)
  /\ UNCHANGED <<subs, pubs, recv, live, order, cid, left, w>>

\* C06 at the writer: in these scenarios every client acknowledges at once and sweeps precede the probe, so no packet
\* identifier may still be held when everything is quiet
\* C11: and every listed session and subscription belongs to a connection that is still there
OfLive(sid) == \E c \in live : sid = "s" \o ToString(c)
\* C12: of the sessions accepted for one client identifier, one is left when everything is quiet (unless every client that
\* used it hung up itself), and that is what the identifier resolves to
Users(x) == {c \in Dom(cid) : cid[c] = x /\ WasAccepted(c)}
OneSessionPerClientId ==
  \A x \in {cid[c] : c \in Dom(cid)} :
     /\ (Users(x) \ left # {}) => Users(x) \cap live # {}
     /\ \A i \in 1..Len(Ev.resolve) : Ev.resolve[i].client = x => \E c \in Users(x) \cap live : Ev.resolve[i].s = "s" \o ToString(c)
Probe == /\ Ev.op = "probe" /\ Len(Ev.held) = 0
         /\ \A i \in 1..Len(Ev.sessions) : OfLive(Ev.sessions[i].s)
         /\ \A i \in 1..Len(Ev.subs) : OfLive(Ev.subs[i].s)
         /\ \A i \in 1..Len(Ev.local) : OfLive(Ev.local[i])                  \* the node's registry holds no session that is gone (C11, C20)
         /\ OneSessionPerClientId
         /\ UNCHANGED <<subs, pubs, recv, live, order, cid, left, w>>
Other ==
  /\ Ev.op # "probe"
  /\ ~(Ev.op = "cli.send" /\ Ev.kind \in {"SUBSCRIBE", "UNSUBSCRIBE", "PUBLISH", "DISCONNECT"} /\ "dropped" \notin DOMAIN Ev)
  /\ ~(Ev.op = "cli.send" /\ Ev.kind = "CONNECT")
  /\ ~(Ev.op = "srv.write" /\ Ev.kind \in {"SUBACK", "UNSUBACK", "PUBACK", "PUBCOMP", "PUBLISH", "CONNACK"})
  /\ Ev.op \notin {"srv.close", "cli.close", "quiescent", "new", "stall", "process.died", "reg.create"}
  /\ UNCHANGED <<subs, pubs, recv, live, order, cid, left, w>>
New == Ev.op = "new" /\ subs' = {} /\ pubs' = <<>> /\ recv' = <<>> /\ live' = {} /\ order' = <<>> /\ cid' = <<>> /\ left' = {} /\ w' = NoWills
EmptyPublish == Ev.op \in {"cli.send", "srv.write"} /\ Ev.kind = "PUBLISH" /\ Ev.p = "" /\ UNCHANGED <<subs, pubs, recv, live, order, cid, left, w>>
Refused == Ev.op = "srv.write" /\ Ev.kind = "CONNACK" /\ Ev.code # 0 /\ UNCHANGED <<subs, pubs, recv, live, order, cid, left, w>>

Step == /\ l <= Len(Trace) /\ l' = l + 1
        /\ \/ New \/ SendSubscribe \/ SubAck \/ SendUnsubscribe \/ UnsubAck \/ SendPublish \/ PubAck \/ Connected \/ Gone
           \/ Deliver \/ WillDeliver \/ Registered \/ Quiescent \/ Other \/ EmptyPublish \/ Refused \/ Probe \/ SendConnect
TSpec == TInit /\ [][Step]_vars
HighWater == TLCSet(1, IF TLCGet(1) > l THEN TLCGet(1) ELSE l)
Accepted == IF TLCGet(1) - 1 = Len(Trace) THEN PrintT("TRACE_ACCEPTED")
            ELSE PrintT(<<"REJECTED_AT_LINE", TLCGet(1), Trace[TLCGet(1)]>>) /\ FALSE
=============================================================================
