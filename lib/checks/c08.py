"""C08  Replicas converge regardless of delivery order, duplication and batching.

(M) Crdt.tla model-checked: Convergence, Lww (3 nodes with skewed clocks, deliveries of
    1-2 message batches any number of times, pushes).  CrdtProofs.tla: the merge laws (idempotent,
    inflationary, commutative/associative on distinct timestamps, no resurrection) proved by TLAPS
    for unbounded timestamps.
(G) CrdtGen: local-write histories on skewed nodes, with and without interleaved deliveries;
    the driver then delivers the messages of each history to fresh real replicas in EVERY
    order x EVERY batching (+ duplication families).
(T) CrdtTrace: every probe of every replica must list, per key, the value of the update with
    the greatest timestamp among those it has seen - for all three maps.
"""
import random

import vlib
from checks import crdtlib


def check(run):
    thorough = run.tier == "thorough"
    rng = random.Random(run.seed)
    run.model_check("MC_Crdt", "MC_Crdt_c08.cfg" if not thorough else "MC_Crdt.cfg")
    run.prove("CrdtProofs")       # the merge laws for unbounded timestamps (supplementary, never decides)
    scns = []
    for mp in ("sess", "subs", "ret"):
        vals = crdtlib.MAPS[mp]["vals"]
        # pure local histories on three skewed nodes, then all orders/batchings to fresh replicas
        a = crdtlib.gen(run, "loc", mp, [1, 2, 3], ["k1", "k3"], vals[:1], 3, 3, 0, 0, [1, 2, 3] if thorough else [2, 3], False)
        for s in a:
            s["ops"] = s["ops"] + [{"op": "permute", "max": 3}]
        # local writes interleaved with deliveries (a later local write may be behind a merged remote one)
        b = crdtlib.gen(run, "mix", mp, [1, 2, 3], ["k1", "k2"], vals, 4, 7 if thorough else 6, 3, 0, [1, 2, 3], False,
                        simulate="num=%d" % (150 if thorough else 30))
        for s in b:
            s["ops"] = s["ops"] + [{"op": "permute", "max": 3}]
        if thorough:
            c = crdtlib.gen(run, "loc4", mp, [1, 2, 3], ["k1", "k3"], vals[:1], 4, 4, 0, 0, [1, 3], False)
            rng.shuffle(c)
            c = c[:400]
            for s in c:
                s["ops"] = s["ops"] + [{"op": "permute", "max": 4}]
            a += c
        scns += a + b
        run.log("%s: %d exhaustive local histories, %d simulated mixed histories" % (mp, len(a), len(b)))
    # the two inputs of a node at the same time: older updates by gossip while the full state holding the newer ones is merged
    st = crdtlib.storms(k=120 if not thorough else 300, rounds=3 if not thorough else 12)
    scns += st
    run.log("%d concurrent-input rounds" % len(st))
    tpath = crdtlib.execute(run, scns, "c08")
    v = vlib.Verdict(run)
    nev, validated, rejected, tstates = crdtlib.validate(run, "C08", scns, tpath, v)
    rc = v.finish()
    vlib.write_evidence(run, {
        "concurrent_inputs": {"rounds": len(st), "rule": "per round 120-300 keys: the gossip messages of the older updates are delivered one by one (NotifyMsg) "
                              "while the full state holding the newer ones is merged (MergeRemoteState) on another goroutine; CrdtTrace.tla: the listing is the newest entry per key"},
        "traces_validated_against_impl": validated,
        "evaluations": nev,
        "distinct_nontrivial": len(scns),
        "rule": "scenario = TLC-generated history of local writes (add/delete on 2 keys) on 3 nodes with clock skews 0/+2/-2, "
                "exhaustive for 3 (thorough 4) writes without deliveries, simulated with up to 3 interleaved deliveries; each followed "
                "by delivery of all its messages to fresh replicas in every order x every batching, plus duplicated re-delivery; "
                "all three maps (sessions, subscriptions, retained); evaluations = recorded events; every scenario is distinct",
        "trace_spec_states": tstates, "rejections": len(rejected), "exhaustive": True,
        "samples": [scns[0]["ops"], scns[-1]["ops"], {"trace_excerpt": vlib.head_events(tpath, 6)}],
    }, ["distinct updates carry distinct timestamps (the harness clock guarantees it)",
        "session identifiers are never re-created after removal (they are random UUIDs in the broker)",
        "batching = one NotifyMsg carrying the concatenation of several broadcast payloads"],
        violations=v.n_new)
    run.log("validated %d scenarios (%d events), %d rejected (%d known)" % (validated, nev, len(rejected), v.n_known))
    return rc


def replay(run, path):
    return crdtlib.replay(run, "C08", path)
