---------------------------- MODULE TopicStoreGen ----------------------------
(* Operation sequences for C19: every sequence of Depth operations over              *)
(* write (always to a value different from the current one: insert or replace),      *)
(* remove, dump and load-the-last-dump on K keys.                                     *)
EXTENDS TopicStore, Json
CONSTANT Depth
VARIABLE hist
Other(v) == IF v = "v1" THEN "v2" ELSE "v1"
GInit == Init /\ hist = <<>>
GNext == /\ Len(hist) < Depth
         /\ \/ \E k \in Keys : Write(k, Other(store[k])) /\ hist' = Append(hist, [op |-> "w", k |-> k, v |-> Other(store[k])])
            \/ \E k \in Keys : Remove(k) /\ hist' = Append(hist, [op |-> "rm", k |-> k, v |-> ""])
            \/ Dump /\ hist' = Append(hist, [op |-> "dump", k |-> 0, v |-> ""])
            \/ Load /\ hist' = Append(hist, [op |-> "load", k |-> 0, v |-> ""])
GSpec == GInit /\ [][GNext]_<<store, snap, hist>>
Dump_ == (Len(hist) = Depth) => PrintT(<<"BEHAV", ToJson(hist)>>)
=============================================================================
