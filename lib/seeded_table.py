#!/usr/bin/env python3
"""Rewrites the table of seeded changes in DESIGN.md (between the SEEDED markers) from seeded/*/meta.json."""
import glob, json, os, re
V = os.path.dirname(os.path.dirname(os.path.abspath(__file__)))
rows = []
for f in sorted(glob.glob(os.path.join(V, "seeded", "*", "meta.json"))):
    m = json.load(open(f))
    rows.append("| `seeded/%s` | %s | %s | %s | %s |" % (os.path.basename(os.path.dirname(f)), m["breaks"], m["summary"].replace("|", "/"),
                                                        m["needs"].replace("|", "/"), m["caught_by"].replace("|", "/")))
table = "| change | breaks | what it is | what it needs to manifest | caught by |\n|---|---|---|---|---|\n" + "\n".join(rows) + "\n"
p = os.path.join(V, "DESIGN.md")
s = open(p).read()
if "@@SEEDED_TABLE@@" in s:
    s = s.replace("@@SEEDED_TABLE@@", "<!-- SEEDED-BEGIN -->\n" + table + "<!-- SEEDED-END -->")
else:
    s = re.sub(r"<!-- SEEDED-BEGIN -->.*?<!-- SEEDED-END -->", "<!-- SEEDED-BEGIN -->\n" + table + "<!-- SEEDED-END -->", s, flags=re.S)
open(p, "w").write(s)
print("%d seeded changes" % len(rows))
