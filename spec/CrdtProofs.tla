---------------------------- MODULE CrdtProofs ----------------------------
(* Unbounded facts about the last-writer-wins core of Crdt.tla (crdt/entry.go), proved with   *)
(* TLAPS instead of being checked over a finite entry set as MC_Crdt's ASSUMEs do: the merge   *)
(* keeps the strictly newer entry, so it is idempotent, inflationary, and - on entries with    *)
(* different timestamps - commutative and associative: a replica's state depends only on the   *)
(* set of updates applied, not on their order, multiplicity or batching (C08).                 *)
EXTENDS Integers, TLAPS
Entry == [la : Nat, ld : Nat, v : STRING, own : STRING]
Ts(e)        == IF e.la > e.ld THEN e.la ELSE e.ld
Added(e)     == e.la > 0 /\ e.la > e.ld
Merge(o, n)  == IF Ts(n) > Ts(o) THEN n ELSE o

THEOREM TsNat == \A e \in Entry : Ts(e) \in Nat
  BY DEF Entry, Ts
THEOREM MergeType == \A a, b \in Entry : Merge(a, b) \in Entry
  BY DEF Merge
THEOREM Idempotent == \A a \in Entry : Merge(a, a) = a
  BY DEF Merge
THEOREM Inflationary == \A a, b \in Entry : Ts(Merge(a, b)) >= Ts(a) /\ Ts(Merge(a, b)) >= Ts(b)
  BY TsNat DEF Merge
THEOREM TsOfMerge == \A a, b \in Entry : Ts(Merge(a, b)) = IF Ts(b) > Ts(a) THEN Ts(b) ELSE Ts(a)
  BY DEF Merge
THEOREM Commutative == \A a, b \in Entry : Ts(a) # Ts(b) => Merge(a, b) = Merge(b, a)
  BY TsNat DEF Merge
THEOREM Associative == \A a, b, c \in Entry : Ts(a) # Ts(b) /\ Ts(b) # Ts(c) /\ Ts(a) # Ts(c)
                          => Merge(Merge(a, b), c) = Merge(a, Merge(b, c))
  BY TsNat DEF Merge
(* an older update never overrides a newer one, and a removed entry is not resurrected by it *)
THEOREM OlderNeverWins == \A a, b \in Entry : Ts(b) <= Ts(a) => Merge(a, b) = a
  BY TsNat DEF Merge
THEOREM NoResurrection == \A a, b \in Entry : ~Added(a) /\ Ts(b) <= Ts(a) => ~Added(Merge(a, b))
  BY TsNat DEF Merge
(* duplicates change nothing *)
THEOREM Absorb == \A a, b \in Entry : Merge(Merge(a, b), b) = Merge(a, b)
  BY TsNat DEF Merge
=============================================================================
