------------------------------ MODULE ConnFsmGen ------------------------------
(* Hostile input sequences for C18: every sequence of Depth inputs on one connection   *)
(* (all control packet types incl. those only a broker sends, malformed bytes, EOF),    *)
(* starting before CONNECT.                                                             *)
EXTENDS ConnFsm, Json
CONSTANT Depth
VARIABLE hist
GInit == Init /\ hist = <<>>
GNext == /\ Len(hist) < Depth
         /\ \E k \in Kinds : /\ (IF hist = <<>> THEN TRUE ELSE hist[Len(hist)] # "EOF")
                             /\ (IF \E c \in Conn : phase[c] # "ended" THEN \E c \in Conn : Input(c, k) ELSE UNCHANGED vars)
                             /\ hist' = Append(hist, k)
GSpec == GInit /\ [][GNext]_<<vars, hist>>
Dump == (Len(hist) = Depth) => PrintT(<<"BEHAV", ToJson(hist)>>)
=============================================================================
