----------------------------- MODULE IdPoolGen -----------------------------
(* Scenario generator for C06: every call sequence of length Depth over            *)
(* get / put(i), i ranging over the configured range plus both neighbours           *)
(* (out-of-range releases) -- results are left to the real allocator.               *)
EXTENDS Integers, Sequences, TLC, Json
CONSTANTS Min, Max, Depth
VARIABLES hist
Calls == {[op |-> "get", i |-> 0]} \cup {[op |-> "put", i |-> i] : i \in (Min - 1)..(Max + 1)}
Init == hist = <<>>
Next == Len(hist) < Depth /\ \E c \in Calls : hist' = Append(hist, c)
Spec == Init /\ [][Next]_hist
Dump == (Len(hist) = Depth) => PrintT(<<"BEHAV", ToJson([min |-> Min, max |-> Max, calls |-> hist])>>)
=============================================================================
