----------------------------- MODULE MC_AckQueue -----------------------------
EXTENDS AckQueue
CONSTANT MaxTag
Spec == Init /\ [][Next]_vars
Bound == ntag <= MaxTag
\* every registered exchange ends in at most one outcome, and a live entry has none yet
ExactlyOnce == \A k \in Dom(entries) : entries[k].tag \notin Dom(outcome)
TagsUnique  == \A j, k \in Dom(entries) : entries[j].tag = entries[k].tag => j = k
\* an outcome, once written, never changes; entries of other keys are never touched by Ack/Insert
OutcomeStable == [][\A t \in Dom(outcome) : t \in Dom(outcome') /\ outcome'[t] = outcome[t]]_vars
\* acting on one key leaves the others alone unless a sweep fires them within their window
Independent == [][\A k \in Dom(entries) :
                     (k \notin Dom(entries')) =>
                        \/ entries[k].tag \in Dom(outcome') /\ entries[k].tag \notin Dom(outcome)]_vars
\* after a sweep far in the future nothing is left
=============================================================================
