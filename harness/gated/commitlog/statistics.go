package commitlog

import (
	"io/ioutil"
	"strings"
)

type Statistics struct {
	SegmentCount  uint64
	CurrentOffset uint64
	StoredBytes   uint64
}

func (c *commitLog) GetStatistics() Statistics {
	c.mtx.Lock()
	defer c.mtx.Unlock()
	var size int64
	files, err := ioutil.ReadDir(c.datadir)
	if err == nil {
		for _, file := range files {
			if strings.HasSuffix(file.Name(), ".log") {
				size += file.Size()
			}
		}
	}
	return Statistics{
		CurrentOffset: c.activeSegment.CurrentOffset() + c.activeSegment.BaseOffset(),
		SegmentCount:  uint64(len(c.segments)),
		StoredBytes:   uint64(size),
	}
}
