"""C05  Inbound publishes: stored before acknowledged; QoS 2 forwarded exactly once.

(M) Inbound.tla model-checked (AckAfterStore, ForwardOnce, OnlyDestinations, FailureIsolation).
(G) InboundGen: every publisher script of a given depth - PUBLISH at QoS 0/1/2 with fresh and
    repeated identifiers, PUBREL matching / repeated / unknown, handshake time-out - combined with
    failures of the local log and of the remote node toggled between the steps.
(T) two real nodes; failures injected at the message-log seam and at the inter-node transport
    seam; BrokerTrace validates every append, every acknowledgement written to the publisher,
    the count of forwards per handshake.
"""
import vlib
from checks import brokerlib, inboundlib


def check(run):
    thorough = run.tier == "thorough"
    run.model_check("MC_Inbound", "MC_Inbound.cfg")
    hs = inboundlib.gen(run, "ex", [1, 2], ["c1"], ["m1", "m2"], [1, 2], 4 if thorough else 3)
    hs += inboundlib.gen(run, "sim", [1, 2], ["c1"], ["m1", "m2", "m3", "m4"], [1, 2], 7, simulate="num=%d" % (300 if thorough else 20))
    hs = [h for h in hs if any(o["op"] == "pub" for o in h)]
    if not thorough:
        hs = hs[:: max(1, len(hs) // 280)]
    elif len(hs) > 6000:
        hs = hs[:: len(hs) // 6000 + 1]
    # QoS 2 handshakes in depth: one message with two destinations, one identifier; PUBLISH, PUBREL (first, repeated, after a failed
    # distribution, after a time-out), failures of either destination toggled in between
    h2 = inboundlib.gen(run, "q2", [1, 2], ["c1"], ["m1"], [1], 6 if thorough else 5, qos=(2,))
    h2 = [h for h in h2 if h[0]["op"] in ("pub", "toggle") and sum(1 for o in h if o["op"] == "pubrel") >= 2
          and any(o["op"] == "toggle" for o in h) and any(o["op"] == "pub" for o in h)]
    if len(h2) > 2500:
        h2 = h2[:: len(h2) // 2500 + 1]
    run.log("%d QoS 2 handshake scripts with a repeated PUBREL and an injected failure" % len(h2))
    hs += h2
    # QoS 1 in depth: one identifier re-used for up to three messages (DUP set on the re-uses), failures toggled in between
    h1 = inboundlib.gen(run, "q1", [1, 2], ["c1"], ["m1", "m2", "m3"], [1], 5 if thorough else 4, qos=(1,))
    h1 = [h for h in h1 if sum(1 for o in h if o["op"] == "pub") >= 2 and any(o["op"] == "toggle" for o in h) and not any(o["op"] in ("pubrel", "sweep") for o in h)]
    if len(h1) > 2500:
        h1 = h1[:: len(h1) // 2500 + 1]
    run.log("%d QoS 1 scripts re-using one identifier with an injected failure" % len(h1))
    # round 8: every fifth script runs "dynamic" (every topic published once before anybody subscribes: what a node remembers about a topic
    # stems from a time without subscribers)
    scns = [inboundlib.scenario(h, [1, 2], shape=[0, 4, 1, 0, 2, 4, 3][i % 7], dynamic=(i % 5 == 1)) for i, h in enumerate(hs)] + [inboundlib.scenario(h, [1, 2], dupall=True) for h in h1]
    # every seventh scenario: the nodes talk through the project's own rpc package (TLS, interceptors) instead of a bare connection
    for i, s_ in enumerate(scns):
        if i % 7 == 3:
            s_["realrpc"] = True
    # a remote log that answers late (1.5 s) but does store: still exactly one copy per handshake, acknowledged once
    for q in (1, 2):
        for m in ("m2", "m1"):
            ops = [{"op": "connect", "c": 12, "n": 2, "client": "sub2", "ka": 600},
                   {"op": "sub", "c": 12, "id": 1, "fs": [{"f": ["t", "m1"], "q": 1}, {"f": ["t", "m2"], "q": 1}]},
                   {"op": "connect", "c": 11, "n": 1, "client": "sub1", "ka": 600},
                   {"op": "sub", "c": 11, "id": 1, "fs": [{"f": ["t", "m1"], "q": 1}]},
                   {"op": "connect", "c": 1, "n": 1, "client": "pub-c1", "ka": 600, "auto": "none"},
                   {"op": "slowlog", "n": 2, "k": 1, "ms": 1500},
                   {"op": "pub", "c": 1, "t": ["t", m], "p": "slow-" + m, "q": q, "id": 1}]
            if q == 2:
                ops.append({"op": "send", "c": 1, "kind": "PUBREL", "id": 1})
            ops += [{"op": "wait", "ms": 2500}, {"op": "pub", "c": 1, "t": ["t", m], "p": "next-" + m, "q": 1, "id": 2}, {"op": "quiesce"}]
            scns.append({"nodes": [1, 2], "realrpc": True, "ops": ops})
    hs = hs + h1
    run.log("%d publisher scripts from TLC" % len(scns))
    tpath, crashes = brokerlib.execute(run, scns, "c05", shards=12)
    if crashes:
        raise vlib.Inconclusive("broker driver died: %s" % crashes[0][2][-2000:])
    v = vlib.Verdict(run)
    nev, nscn, validated, rejected, tstates = brokerlib.validate(run, "C05", scns, tpath, v)
    rc = v.finish()
    faulty = sum(1 for h in hs if any(o["op"] == "toggle" for o in h))
    vlib.write_evidence(run, {
        "traces_validated_against_impl": validated,
        "evaluations": len(scns),
        "distinct_nontrivial": faulty,
        "rule": "scenario = TLC-generated publisher script (exhaustive depth %d over PUBLISH q0/q1/q2 x ids {1,2} x 2 messages, PUBREL, handshake "
                "time-out, toggling failure of node 1's / node 2's log append or of the RPC towards them; simulated depth 7 with 4 messages; plus every QoS 2 "
                "script of depth %d on one two-destination message with >= 2 PUBRELs and >= 1 injected failure), "
                "on two real nodes with one subscriber each; one scenario in seven and four slow-remote-log scenarios (an append that takes 1.5 s) run over the project's own rpc package; non-trivial = contains an injected failure" % (4 if thorough else 3, 6 if thorough else 5),
        "events_validated": nev, "trace_spec_states": tstates, "rejections": len(rejected),
        "samples": [hs[0], hs[len(hs) // 2], {"scenario": scns[-1]}],
    }, ["a repeated QoS 2 PUBLISH on an open handshake may end the session or re-send PUBREC; an unknown PUBREL may be ignored; neither may forward",
        "destination set = nodes hosting a matching subscription, the publishing node's view being up to date (gossip delivered between steps)"],
        violations=v.n_new)
    run.log("validated %d scripts (%d events), %d rejected (%d known)" % (validated, nev, len(rejected), v.n_known))
    return rc


def replay(run, path):
    return brokerlib.replay(run, "C05", path)
