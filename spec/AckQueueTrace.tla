--------------------------- MODULE AckQueueTrace ---------------------------
(* Trace validation for C04: every recorded Insert/Ack/Expire on the real queue,    *)
(* with its return value and the callbacks it ran, must be a step of AckQueue.      *)
EXTENDS Integers, FiniteSets, Sequences, TLC, Json
VARIABLES l, entries
Q == INSTANCE AckQueue WITH Sess <- {}, Ids <- {}, Deadlines <- {}, Sweeps <- {}, Sec <- 1000,
                            outcome <- <<>>, ntag <- 0
Trace == ndJsonDeserialize("trace.ndjson")
Ev == Trace[l]
Dom(f) == DOMAIN f
TInit == TLCSet(1, 0) /\ l = 1 /\ entries = <<>>
Fired == {Ev.cbs[i].tag : i \in 1..Len(Ev.cbs)}
NoDupCb == Cardinality(Fired) = Len(Ev.cbs)            \* no callback runs twice in one call
Step == /\ l <= Len(Trace) /\ l' = l + 1
        /\ \/ Ev.op = "new" /\ entries' = <<>>
           \/ /\ Ev.op = "insert" /\ Len(Ev.cbs) = 0
              /\ LET k == <<Ev.s, Ev.id>> IN
                 IF Q!InsertOK(entries, k, Ev.kind)
                 THEN Ev.ok /\ entries' = Q!InsertNew(entries, k, Ev.kind, Ev.d, Ev.tag)
                 ELSE ~Ev.ok /\ UNCHANGED entries
           \/ /\ Ev.op = "ack"
              /\ LET k == <<Ev.s, Ev.id>> IN
                 IF Q!AckOK(entries, k, Ev.ty)
                 THEN /\ Ev.ok /\ Len(Ev.cbs) = 1 /\ Ev.cbs[1].tag = entries[Q!AK(k, Ev.ty)].tag /\ ~Ev.cbs[1].expired
                      /\ entries' = Q!Drop(entries, {Q!AK(k, Ev.ty)})
                 ELSE ~Ev.ok /\ Len(Ev.cbs) = 0 /\ UNCHANGED entries
           \/ /\ Ev.op = "sweep" /\ NoDupCb
              /\ \A i \in 1..Len(Ev.cbs) : Ev.cbs[i].expired
              /\ LET F == {k \in Dom(entries) : entries[k].tag \in Fired} IN
                 /\ Cardinality(F) = Cardinality(Fired)      \* every callback belongs to a live entry
                 /\ Q!SweepOK(entries, Ev.now, F)
                 /\ entries' = Q!Drop(entries, F)
TSpec == TInit /\ [][Step]_<<l, entries>>
HighWater == TLCSet(1, IF TLCGet(1) > l THEN TLCGet(1) ELSE l)
Accepted == IF TLCGet(1) - 1 = Len(Trace) THEN PrintT("TRACE_ACCEPTED")
            ELSE PrintT(<<"REJECTED_AT_LINE", TLCGet(1), Trace[TLCGet(1)]>>) /\ FALSE
=============================================================================
