"""C19  Topic-keyed stores behave as maps over full topic strings.

(M) TopicStore.tla model-checked (TypeOK, Frame: one key changes per write/remove).
(G) TopicStoreGen: every sequence of Depth operations over write (insert / replace),
    remove, dump, load-the-last-dump on 5 keys.
(T) executed on the real topics.Store and subscriptions.Tree with prefix-related key sets;
    after every operation exact-key lookups, Count and Iterate are recorded and
    TopicStoreTrace compares them with the map.
"""
import json
import os

import vlib
from checks import crdtlib

KEYSETS = {
    "prefix": [["a"], ["a", "b"], ["a", "b", "c"], ["a", "c"], ["b"]],
    "empty-levels": [["a"], ["a", ""], ["a", "", "b"], ["", "a"], ["", ""]],
    "deep": [["x", "y", "z", "w"], ["x", "y"], ["x"], ["x", "y", "z"], ["x", "q"]],
    # round 8: a level is a string like any other - also one that starts with '$' (only a FIRST level that starts with '$' is special
    # to MQTT's wildcards, and the stores are asked for exact names, Count and Iterate here)
    "dollar": [["a", "$b"], ["a"], ["a", "$b", "c"], ["$a"], ["a", "b$"]],
}
GEN = 'CONSTANTS K = 5 Vals = {"v1", "v2"} Depth = %d\nSPECIFICATION GSpec\nCONSTRAINT Dump_\nCHECK_DEADLOCK FALSE\n'


def classify(scn, line):
    e = scn[line - 1]
    kind = scn[0].get("kind")
    ops = [x["op"] for x in scn[1:line] if x["op"] != "probe"]
    if e.get("panic"):
        return "%s:panic-%s%s" % (kind, e["op"], "-after-load" if "load" in ops[:-1] else "")
    if e["op"] == "probe":
        last = ops[-1] if ops else "?"
        return "%s:wrong-answer-after-%s" % (kind, last)
    return "%s:%s-rejected" % (kind, e["op"])


def check(run):
    thorough = run.tier == "thorough"
    run.model_check("MC_TopicStore", "MC_TopicStore.cfg")
    run.model_check("MC_Trie", "MC_Trie_subs.cfg")
    run.model_check("MC_Trie", "MC_Trie_ret.cfg")
    run.negative_control("MC_Trie", "MC_Trie_ret_neg.cfg", "OneKey")
    seqs = vlib.gen_behaviours(run, "TopicStoreGen", "Gen_TopicStore.cfg", GEN % (5 if thorough else 4))
    sim = vlib.gen_behaviours(run, "TopicStoreGen", "Gen_TopicStore_sim.cfg", GEN % (10 if thorough else 8),
                              simulate="num=%d" % (400 if thorough else 60), depth=(11 if thorough else 9))
    run.log("TLC generated %d exhaustive + %d simulated operation sequences" % (len(seqs), len(sim)))
    scns = []
    for kind in ("topics", "subs"):
        for name, keys in KEYSETS.items():
            if name == "deep" and not thorough:
                continue
            use = seqs if name == "prefix" or thorough else seqs[::4]
            if name == "dollar" and not thorough:
                use = seqs[::6]
            for j, h in enumerate(use + sim):
                if j % 5 == 4:
                    # "exactly the non-empty entries": in every fifth sequence the value v2 is the empty one - an entry that
                    # is written empty is not there for lookups, Count and Iterate alike
                    h = [dict(o, v="") if o.get("v") == "v2" else o for o in h]
                scns.append({"mode": "store", "kind": kind, "keys": keys, "ops": h})
    spath = os.path.join(run.scratch, "scenarios.ndjson")
    with open(spath, "w") as f:
        for s in scns:
            f.write(json.dumps(s) + "\n")
    drv = run.gobuild("trie")
    tpath = os.path.join(run.scratch, "store.ndjson")
    run.drive(drv, ["-scenarios", spath, "-out", tpath], timeout=3000)
    nev, nscn = vlib.count_lines(tpath, '"op":"new"')
    run.log("%d scenarios, recorded %d events" % (len(scns), nev))
    validated, rejected, tstates = vlib.validate_scenarios(run, "TopicStoreTrace", "TopicStoreTrace.cfg", tpath,
                                                           timeout=3000, max_rejections=4)
    v = vlib.Verdict(run)
    for rj in rejected:
        scn, line = rj["scenario"], rj["line"]
        sig = classify(scn, line)
        ops = [dict(op=x["op"], k=x["k"], v=x["v"]) for x in scn[1:line] if x["op"] != "probe"]
        v.add(sig, "%s store with keys %s: after %s the store answered %s, which is not the map's answer"
              % (scn[0]["kind"], json.dumps(["/".join(k) for k in scn[0]["keys"]]), json.dumps(ops), json.dumps(scn[line - 1])),
              {"kind": "store", "scenario": {"mode": "store", "kind": scn[0]["kind"], "keys": scn[0]["keys"], "ops": ops},
               "trace": scn[:line]})
    # the retained-message store as the broker uses it, behind the replicated state: several entries written by ONE merge (a
    # full-state push) must each keep their own value - prefix-related topics (a, a/b) and an unrelated one (b)
    rs = crdtlib.gen(run, "c19", "ret", [1, 2], ["k1", "k2", "k3"], crdtlib.MAPS["ret"]["vals"], 3, 3, 0, 0, [1], False)
    for s_ in rs:
        s_["ops"] = s_["ops"] + [{"op": "push", "from": 1, "to": 9}, {"op": "push", "from": 1, "to": 9}]
    rtp = crdtlib.execute(run, rs, "c19")
    rnev, rval, rrej, rts = crdtlib.validate(run, "C19", rs, rtp, v)
    run.log("replicated retained store: %d histories, each pushed whole into a fresh node, %d rejected" % (len(rs), len(rrej)))
    validated += rval
    tstates += rts
    # a dump is taken while the store is in use: it must be the store at one moment (linearizable snapshot), and load
    from checks import c20
    conc = c20.store_histories(run, "C19", v, 60 if not thorough else 900)
    validated += conc["validated"]
    tstates += conc["trace_spec_states"]
    rc = v.finish()
    vlib.write_evidence(run, {
        "under_concurrent_use": conc,
        "traces_validated_against_impl": validated,
        "evaluations": len(scns),
        "distinct_nontrivial": len(scns),
        "rule": "every TLC-generated sequence of %d operations (write = insert or replace, remove, dump, load-last-dump over 5 keys) "
                "plus simulated sequences of depth %d, each run on topics.Store and subscriptions.Tree with key sets %s; after every "
                "operation exact lookups of all 5 keys, Count and Iterate are compared with the map; distinct = (sequence, store, key set)"
                % (5 if thorough else 4, 10 if thorough else 8, sorted(KEYSETS)),
        "replicated_retained_store": {"histories": len(rs), "events": rnev, "rejections": len(rrej)},
        "events_validated": nev, "trace_spec_states": tstates, "rejections": len(rejected), "exhaustive": True,
        "samples": [scns[0], scns[len(scns) // 2], {"trace_excerpt": vlib.head_events(tpath, 5)}],
    }, ["return values of Insert/Remove (old flag, not-found error) are not part of C19 and are not constrained",
        "the subscription tree has no Count; its Walk on an exact key without wildcards is the lookup",
        "load replaces the store content with the last dump taken in the same scenario"],
        violations=v.n_new)
    run.log("validated %d scenarios, %d rejected (%d known)" % (validated, len(rejected), v.n_known))
    return rc


def replay(run, path):
    rp = json.load(open(path))
    if rp.get("kind") == "history":
        tp = os.path.join(run.scratch, "h.ndjson")
        with open(tp, "w") as f:
            f.write(json.dumps(rp["history"]) + "\n")
        ok, line, detail, _ = run.validate("Lin", "Lin.cfg", tp)
        print("replay: recorded history is %s" % ("linearizable" if ok else "NOT linearizable"))
        if not ok:
            print("VIOLATION property=C19 replay=%s" % path)
        return 0 if ok else 1
    if rp.get("kind") in ("datarace", "fatal"):
        print("replay: data races depend on the schedule; re-running the check")
        return check(run)
    if rp.get("kind") == "crdt" or "map" in rp.get("scenario", {}):
        return crdtlib.replay(run, "C19", path)
    spath = os.path.join(run.scratch, "scenarios.ndjson")
    with open(spath, "w") as f:
        f.write(json.dumps(rp["scenario"]) + "\n")
    drv = run.gobuild("trie")
    tpath = os.path.join(run.scratch, "store.ndjson")
    run.drive(drv, ["-scenarios", spath, "-out", tpath])
    events = vlib.load_events(tpath)
    ok, line, detail, _ = run.validate("TopicStoreTrace", "TopicStoreTrace.cfg", tpath)
    if ok:
        print("replay: accepted (no violation)")
        return 0
    print("replay: rejected at event %d: %s" % (line, json.dumps(events[line - 1])))
    print("VIOLATION property=C19 replay=%s" % path)
    return 1
