SPECIFICATION LSpec
CONSTRAINT HighWater
POSTCONDITION Accepted
CHECK_DEADLOCK FALSE
