----------------------------- MODULE TimeoutList -----------------------------
(* The expiry structure behind the in-flight table (wasp/expiration/pqueue.go,        *)
(* bucket.go), transcribed the way the code works, next to the bag of (value,         *)
(* deadline) pairs it is meant to be (C04: "deadlines are honoured to the second",    *)
(* "acknowledging, expiring or rejecting one entry never cancels, fires or delays any *)
(* other entry, even when deadlines coincide or fall in the same second").            *)
(*                                                                                     *)
(*   buckets : second -> sequence of [v, d], kept sorted by d (stable: put appends     *)
(*             and re-sorts); a bucket is created by the first insert of its second    *)
(*             and leaves the structure only when a sweep pops it                      *)
(*   heap    : the seconds that have a bucket (the code keeps them in a binary heap;    *)
(*             only the minimum is ever looked at)                                     *)
(*   Insert(v, d)  : bucket Round(d); put                                              *)
(*   Delete(v, d)  : bucket Round(d); binary search for the first item with deadline   *)
(*                   >= d, then scan the items with deadline = d for the value          *)
(*   Expire(now)   : pop every bucket whose second is before now, report its items      *)
(*                                                                                     *)
(* Times are integers (milliseconds).  The transition relation is written as operators *)
(* over explicit state so that TimeoutListTrace can apply the abstract half to what a  *)
(* driver recorded from the real expiration.List.  Variant selects the code as it is   *)
(* ("ok") or one of the defects that were found in / seeded into it (negative          *)
(* controls: the refinement must fail for them).                                       *)
EXTENDS Integers, Sequences, FiniteSets, TLC
CONSTANTS Vals, Deadlines, Nows, MaxOps, Variant
VARIABLES buckets, heap, bag, out, nops
vars == <<buckets, heap, bag, out, nops>>

Round(d) == ((d + 500) \div 1000) * 1000            \* time.Round(time.Second): halves round up
Dom(f) == DOMAIN f
\* ---------------------------------------------------------------- the abstract structure: a bag of <<v, d>>
BagAdd(b, x) == IF x \in Dom(b) THEN [b EXCEPT ![x] = @ + 1] ELSE [y \in Dom(b) \cup {x} |-> IF y = x THEN 1 ELSE b[y]]
BagDel(b, x) == IF x \notin Dom(b) THEN b
                ELSE IF b[x] = 1 THEN [y \in Dom(b) \ {x} |-> b[y]] ELSE [b EXCEPT ![x] = @ - 1]
Due(x, now) == Round(x[2]) < now                                     \* fires at the first sweep after its (rounded) second
BagFired(b, now) == [x \in {y \in Dom(b) : Due(y, now)} |-> b[x]]
BagRest(b, now)  == [x \in {y \in Dom(b) : ~Due(y, now)} |-> b[x]]
\* the values a sweep reports, as a bag of values
ValBag(b) == [v \in {x[1] : x \in Dom(b)} |-> LET xs == {x \in Dom(b) : x[1] = v} IN
                 LET RECURSIVE S(_) S(Z) == IF Z = {} THEN 0 ELSE LET z == CHOOSE z \in Z : TRUE IN b[z] + S(Z \ {z}) IN S(xs)]
SeqValBag(s) == [v \in {s[i] : i \in 1..Len(s)} |-> Cardinality({i \in 1..Len(s) : s[i] = v})]

\* ---------------------------------------------------------------- the structure as coded
\* stable insertion into a sequence sorted by deadline: after every item whose deadline is not later
PutSorted(s, it) == LET k == Cardinality({i \in 1..Len(s) : s[i].d <= it.d}) IN
                      SubSeq(s, 1, k) \o <<it>> \o SubSeq(s, k + 1, Len(s))
\* sort.Search: the first index whose item has deadline >= d, Len+1 if none - computed on the sequence AS IT IS
\* (binary search: on an unsorted sequence the answer is whatever the bisection lands on)
RECURSIVE Bisect(_, _, _, _)
Bisect(s, d, lo, hi) == IF lo >= hi THEN lo
                        ELSE LET mid == (lo + hi) \div 2 IN
                             IF s[mid + 1].d >= d THEN Bisect(s, d, lo, mid) ELSE Bisect(s, d, mid + 1, hi)
SearchIdx(s, d) == Bisect(s, d, 0, Len(s)) + 1
RECURSIVE ScanFrom(_, _, _, _)
ScanFrom(s, i, v, d) == IF i > Len(s) \/ s[i].d # d THEN 0
                        ELSE IF s[i].v = v THEN i ELSE ScanFrom(s, i + 1, v, d)
RemoveAt(s, i) == SubSeq(s, 1, i - 1) \o SubSeq(s, i + 1, Len(s))
\* swap-remove (seeded change C04): the hole is filled with the last item
SwapRemoveAt(s, i) == IF i = Len(s) THEN SubSeq(s, 1, Len(s) - 1)
                      ELSE [j \in 1..(Len(s) - 1) |-> IF j = i THEN s[Len(s)] ELSE s[j]]
BucketDelete(s, v, d) ==
  LET i0 == SearchIdx(s, d)
      i  == IF Variant = "first-of-deadline"                      \* pinned defect D5: removed the first item of that deadline, whatever its value
            THEN (IF i0 <= Len(s) /\ s[i0].d = d THEN i0 ELSE 0)
            ELSE ScanFrom(s, i0, v, d) IN
  IF i = 0 THEN s ELSE IF Variant = "swap-remove" THEN SwapRemoveAt(s, i) ELSE RemoveAt(s, i)

IInsert(B, H, v, d) ==
  LET sec == Round(d) it == [v |-> v, d |-> d] IN
  IF sec \in Dom(B) THEN <<[B EXCEPT ![sec] = PutSorted(@, it)], H>>
  ELSE <<[s \in Dom(B) \cup {sec} |-> IF s = sec THEN <<it>> ELSE B[s]], H \cup {sec}>>
IDelete(B, H, v, d) ==
  LET sec == Round(d) IN
  IF sec \notin Dom(B) THEN <<B, H>> ELSE <<[B EXCEPT ![sec] = BucketDelete(@, v, d)], H>>
\* pop while the minimum of the heap is before now
RECURSIVE IExpire(_, _, _, _)
IExpire(B, H, now, acc) ==
  IF H = {} THEN <<B, H, acc>>
  ELSE LET m == CHOOSE x \in H : \A y \in H : x <= y IN
       IF ~(m < now) THEN <<B, H, acc>>
       ELSE LET items == IF m \in Dom(B) THEN B[m] ELSE <<>>
                B2 == IF Variant = "orphan-bucket"                 \* seeded change C03: the map entry is dropped under another key
                      THEN B ELSE [s \in Dom(B) \ {m} |-> B[s]] IN
            IExpire(B2, H \ {m}, now, acc \o [i \in 1..Len(items) |-> items[i].v])

\* ---------------------------------------------------------------- the product: code and bag side by side
Init == buckets = <<>> /\ heap = {} /\ bag = <<>> /\ out = <<>> /\ nops = 0
Step == nops < MaxOps /\ nops' = nops + 1
Insert(v, d) == /\ Step
                /\ LET r == IInsert(buckets, heap, v, d) IN buckets' = r[1] /\ heap' = r[2]
                /\ bag' = BagAdd(bag, <<v, d>>) /\ out' = <<>>
Delete(v, d) == /\ Step
                /\ LET r == IDelete(buckets, heap, v, d) IN buckets' = r[1] /\ heap' = r[2]
                /\ bag' = BagDel(bag, <<v, d>>) /\ out' = <<>>
Expire(now) == /\ Step
               /\ LET r == IExpire(buckets, heap, now, <<>>) IN buckets' = r[1] /\ heap' = r[2] /\ out' = r[3]
               /\ bag' = BagRest(bag, now)
Next == \/ \E v \in Vals, d \in Deadlines : Insert(v, d) \/ Delete(v, d)
        \/ \E now \in Nows : Expire(now)
=============================================================================
