------------------------------- MODULE IdPool -------------------------------
(* Packet-identifier allocator (wasp/idpool.go) as the property C06 sees it.        *)
(* State: the set of identifiers handed out and not yet returned.  The allocator's  *)
(* policy (which free identifier) is deliberately left open: any free identifier    *)
(* is a correct answer; an out-of-range answer is the exhaustion report and is only *)
(* correct when every identifier is outstanding.  No action has a "panic" outcome.  *)
(*                                                                                  *)
(* The transition relation is given as operators over an explicit range R and       *)
(* outstanding set o, so that IdPoolTrace and Delivery can apply it to ranges that  *)
(* are only known from a recorded trace.                                            *)
EXTENDS Integers, FiniteSets, Sequences, TLC
CONSTANTS Min, Max
VARIABLES out
\* ---- transition relation, range-generic
GetOK(R, o, r)  == IF r \in R THEN r \notin o ELSE o = R      \* r is a correct result of Get in state o
GetNew(R, o, r) == IF r \in R THEN o \cup {r} ELSE o
PutNew(R, o, i) == o \ {i}                                    \* free / unknown / out-of-range: no change
\* ---- the module's own instance
Range == Min..Max
Init == out = {}
Get(r) == GetOK(Range, out, r) /\ out' = GetNew(Range, out, r)
Put(i) == out' = PutNew(Range, out, i)
Next == \/ \E r \in (Min - 1)..(Max + 1) : Get(r)
        \/ \E i \in (Min - 2)..(Max + 2) : Put(i)
=============================================================================
