------------------------------- MODULE MC_Crdt -------------------------------
EXTENDS Crdt
Spec == Init /\ [][Next]_vars
MCSkew == [n \in Node |-> CASE n = "n1" -> 0 [] n = "n2" -> 2 [] OTHER -> -2]
MCSessOf == [k \in Key |-> IF k = "k1" THEN "sA" ELSE "sB"]
\* C08: replicas that applied the same set of updates list the same things ...
Convergence == \A a, b \in Node : seen[a] = seen[b] => Listing(a) = Listing(b)
\* ... namely, per key, the value of the update with the greatest timestamp (no resurrection)
Lww == \A n \in Node : Listing(n) = ListingOf(seen[n])
\* C09: nothing changes locally that the queued message does not carry (checked as an action property)
BroadcastComplete ==
  [][\A n \in Node : (st'[n] # st[n] /\ nops' = nops + 1) =>
        \E m \in net' \ net : \A k \in Key : st'[n][k] # st[n][k] => <<k, st'[n][k]>> \in m.es]_vars
\* C10: after Push(a, b) b is at least as new as a on every key
Dominates(b, a) == \A k \in Key : Ts(st[b][k]) >= Ts(st[a][k])
PushDominates == [][\A a, b \in Node : (seen'[b] = seen[b] \cup FullState(a) /\ nops' = nops /\ a # b /\ st'[b] = ApplyAll(st[b], FullState(a)))
                        => \A k \in Key : Ts(st'[b][k]) >= Ts(st[a][k])]_vars
\* ---- the merge is a join: order, duplication and grouping of updates with distinct timestamps cannot matter
SmallEntries == [la : 0..3, ld : 0..3, v : {"x", "y"}, own : {"n1"}]
Distinct(a, b) == Ts(a) # Ts(b)
ASSUME \A o, a \in SmallEntries : Merge(Merge(o, a), a) = Merge(o, a)                                         \* idempotent
ASSUME \A o, a, b \in SmallEntries : (Distinct(a, b) /\ Distinct(o, a) /\ Distinct(o, b)) => Merge(Merge(o, a), b) = Merge(Merge(o, b), a)   \* commutative
ASSUME \A o, a \in SmallEntries : Ts(Merge(o, a)) >= Ts(o) /\ Ts(Merge(o, a)) >= Ts(a)                        \* inflationary
=============================================================================
