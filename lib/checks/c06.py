"""C06  Packet identifiers in flight are unique and never leak.

(M) IdPool.tla model-checked (every reachable set of outstanding ids, ranges up to 5).
(G) IdPoolGen: TLC enumerates every call sequence of a given depth over get/put(i)
    (i over the range and both out-of-range neighbours) for small ranges.
(T) the Go driver replays them - and seeded random histories, also on the production
    range - on the real allocator; IdPoolTrace validates every recorded call/result.
The writer-level half (identifiers on PUBLISH/PUBREL packets = outstanding set) is part
of the C03 driver and is validated there with the same IdPoolTrace "holds" event.
"""
import json
import os

import vlib
from checks import brokerlib, c03, racelib


def classify(scn, line):
    """signature of a rejection: replay the accepted prefix with the obvious abstract
    state (classification only - the verdict is TLC's)."""
    out = set()
    mn = mx = 0
    ever_get = False
    for e in scn[:line - 1]:
        if e["op"] == "new":
            mn, mx, out = e["min"], e["max"], set()
        elif e["op"] == "get":
            ever_get = True
            if mn <= e["r"] <= mx:
                out.add(e["r"])
        elif e["op"] == "put":
            out.discard(e["i"])
    e = scn[line - 1]
    full = out == set(range(mn, mx + 1))
    if e.get("hang"):
        return e["op"] + "-never-returns" + ("-when-exhausted" if full else "")
    if e["op"] == "get":
        if e.get("panic"):
            return "get-panic"
        if mn <= e["r"] <= mx:
            return "get-duplicate" + ("-when-exhausted" if full else "")
        return "get-false-exhaustion"
    if e["op"] == "put":
        if e.get("panic"):
            if not ever_get:
                return "put-panic-fresh-pool"
            if full:
                return "put-panic-when-exhausted"
            return "put-panic"
        return "put-rejected"
    if e["op"] == "holds":
        return "writer-holds-differs-from-outstanding"
    return "other"


def gen(run, mn, mx, depth):
    cfg = "Gen_IdPool_%d_%d_%d.cfg" % (mn, mx, depth)
    text = "\n".join(["CONSTANTS Min = %d Max = %d Depth = %d" % (mn, mx, depth),
                      "SPECIFICATION Spec", "CONSTRAINT Dump", "CHECK_DEADLOCK FALSE", ""])
    return vlib.gen_behaviours(run, "IdPoolGen", cfg, text)


def check(run, only=None):
    thorough = run.tier == "thorough"
    run.model_check("MC_IdPool", "MC_IdPool.cfg")
    plans = [(1, 1, 6), (1, 2, 6), (1, 3, 5), (0, 2, 5)] if not thorough else \
            [(1, 1, 8), (1, 2, 7), (1, 3, 7), (0, 2, 6), (1, 4, 6), (0, 3, 6)]
    scns = []
    for (mn, mx, d) in plans:
        scns += gen(run, mn, mx, d)
    run.log("generated %d call sequences with TLC" % len(scns))
    spath = os.path.join(run.scratch, "scenarios.ndjson")
    with open(spath, "w") as f:
        for s in scns:
            f.write(json.dumps(s) + "\n")
    drv = run.gobuild("idpool")
    tpath = os.path.join(run.scratch, "pool.ndjson")
    nrand = 3000 if not thorough else 40000
    big = 2 if not thorough else 10
    p = run.drive(drv, ["-scenarios", spath, "-out", tpath, "-random", str(nrand), "-len", "40",
                        "-big", str(big), "-biglen", "20000" if not thorough else "100000"], timeout=1200)
    nev, nscn = vlib.count_lines(tpath, '"op":"new"')
    run.log("recorded %d events" % nev)
    validated, rejected, tstates = vlib.validate_scenarios(run, "IdPoolTrace", "IdPoolTrace.cfg", tpath,
                                                           timeout=3000)
    v = vlib.Verdict(run)
    for rj in rejected:
        scn, line = rj["scenario"], rj["line"]
        sig = classify(scn, line)
        head = scn[0]
        v.add(sig, "allocator %d..%d: call %d of the history is not explainable by IdPool: %s (history so far: %s)"
              % (head["min"], head["max"], line - 1, json.dumps(scn[line - 1]),
                 json.dumps([[e["op"], e["r"] if e["op"] == "get" else e["i"]] for e in scn[1:line]])),
              {"kind": "idpool", "min": head["min"], "max": head["max"],
               "calls": [{"op": e["op"], "i": e.get("i", 0)} for e in scn[1:line]],
               "trace": scn[:line], "rejected_line": line})
    # the allocator's users: every identifier the writer holds belongs to a live outbound flow and every live flow holds its
    # identifier - through retransmissions of PUBLISH and PUBREL, wrong answers, session ends (the pool is probed at quiescence)
    wh = c03.gen(run, "c06w", ["s1"], ["m1", "m2"], 4)
    wh = [h for h in wh if any(o["op"] == "deliver" for o in h) and any(o["op"] == "sweep" for o in h)]
    wh = wh[:: max(1, len(wh) // (600 if thorough else 120))]
    wscns = [c03.scenario(h, early=(i % 2 == 1)) for i, h in enumerate(wh)]
    wtp, wcr = brokerlib.execute(run, wscns, "c06w", shards=12)
    if wcr:
        raise vlib.Inconclusive("broker driver died: %s" % wcr[0][2][-2000:])
    wnev, wnscn, wval, wrej, wts = brokerlib.validate(run, "C06", wscns, wtp, v)
    run.log("writer level: validated %d of %d delivery scripts (%d events)" % (wval, len(wscns), wnev))
    validated += wval
    tstates += wts
    # the allocator's only caller: an identifier taken for a recipient that vanishes while the publish is handled (its teardown
    # parked between leaving the local registry and losing its subscriptions) must come back - "never leak" at the writer
    rn, rparked, rnev, rval, rrej, rts = racelib.check_family(
        run, "C06", v, keep=lambda s: any(o["op"] == "race" and o["a"]["op"] in ("close", "send") for o in s["ops"]), tag="gone")
    validated += rval
    tstates += rts
    # "no sequence of calls makes it panic" includes calls that overlap: concurrent histories on one pool, judged by Lin.tla
    from checks import c20
    conc = c20.store_histories(run, "C06", v, 45 if run.tier != "thorough" else 600, only="pool")
    validated += conc["validated"]
    tstates += conc["trace_spec_states"]
    rc = v.finish()
    vlib.write_evidence(run, {
        "traces_validated_against_impl": validated,
        "evaluations": nscn,
        "distinct_nontrivial": len({json.dumps(s, sort_keys=True) for s in scns}) + nrand + big,
        "rule": "TLC-generated: every call sequence of the stated depth over get/put(i) for ranges %s (min,max,depth); "
                "plus %d seeded random 40-call histories on ranges of 1-6 ids and %d long histories on 0/1..65535; "
                "distinct = distinct call sequences; each is non-trivial (>= 5 calls)" % (plans, nrand, big),
        "events_validated": nev,
        "under_concurrent_use": conc,
        "writer_level": {"delivery_scripts": len(wscns), "events": wnev, "rejections": len(wrej),
                         "rule": "TLC-generated QoS 1/2 delivery scripts with deadline expiries on a real node; BrokerTrace: identifiers held by the pool = identifiers of live outbound flows at every probe"},
        "vanishing_recipients": {"interleavings": rn, "parked_at_their_gate": rparked, "events": rnev, "rejections": rrej},
        "trace_spec_states": tstates,
        "rejections": len(rejected),
        "exhaustive": True,
        "samples": [scns[0], scns[len(scns) // 2], {"trace_excerpt": vlib.head_events(tpath, 8)}],
    }, ["the allocator is reached through the verif-tagged constructor VerifNewMIDPool (same code as the writer's pool)",
        "any free identifier is an acceptable answer of Get (allocation policy is not part of C06)"],
        violations=v.n_new)
    run.log("validated %d histories, %d rejected (%d known)" % (validated, len(rejected), v.n_known))
    return rc


def replay(run, path):
    rp = json.load(open(path))
    if rp.get("kind") == "history":
        tp = os.path.join(run.scratch, "h.ndjson")
        with open(tp, "w") as f:
            f.write(json.dumps(rp["history"]) + "\n")
        ok, line, detail, _ = run.validate("Lin", "Lin.cfg", tp)
        print("replay: recorded history is %s" % ("linearizable" if ok else "NOT linearizable"))
        if not ok:
            print("VIOLATION property=C06 replay=%s" % path)
        return 0 if ok else 1
    if rp.get("kind") in ("datarace", "fatal"):
        print("replay: data races depend on the schedule; re-running the check")
        return check(run)
    if rp.get("kind") == "race":
        return racelib.replay(run, "C06", path)
    if rp.get("kind") == "broker":
        return brokerlib.replay(run, "C06", path)
    spath = os.path.join(run.scratch, "scenarios.ndjson")
    with open(spath, "w") as f:
        f.write(json.dumps({"min": rp["min"], "max": rp["max"], "calls": rp["calls"]}) + "\n")
    drv = run.gobuild("idpool")
    tpath = os.path.join(run.scratch, "pool.ndjson")
    run.drive(drv, ["-scenarios", spath, "-out", tpath])
    events = vlib.load_events(tpath)
    ok, line, detail, _ = run.validate("IdPoolTrace", "IdPoolTrace.cfg", tpath)
    if ok:
        print("replay: history accepted (no violation)")
        return 0
    print("replay: rejected at event %d: %s" % (line, json.dumps(events[line - 1])))
    print("VIOLATION property=C06 replay=%s" % path)
    return 1
