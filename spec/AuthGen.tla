------------------------------- MODULE AuthGen -------------------------------
(* Credential-table shapes for C16: every assignment of {absent, 2-field line,      *)
(* 3-field line} to the user names (at least one present).                           *)
EXTENDS Integers, Sequences, FiniteSets, TLC, Json
CONSTANTS Users
VARIABLE x
Shapes == {f \in [Users -> {"-", "2", "3"}] : \E u \in Users : f[u] # "-"}
Init == x = 0
Next == x = 0 /\ x' = 1 /\ PrintT(<<"SHAPES", ToJson(Shapes)>>)
Spec == Init /\ [][Next]_x
=============================================================================
