"""C16  Clients are admitted iff their credentials match the configured store.

(M) Auth.tla model-checked (AdmitIffMatch, SessionsJustified, RefusedCreatesNothing) over
    every table of <=2 users x 2 passwords x {no mount, m1}.
(G) AuthGen: every table shape over 6 user names (absent / 2-field / 3-field line: 728);
    python adds line orders (sorted, reversed, seeded shuffles) and the candidate
    credentials (right / another user's / empty / wrong password, absent and empty user, and
    near misses: user/password boundary moved, swapped, joined, padded, case-changed, truncated);
    reconnection storms: 8-36 goroutines putting such credentials to one shared handler at once.
(T) the Go driver materialises each table as a credentials file, loads it with the real
    auth.FileHandler (and the static handler) and records every Authenticate outcome;
    AuthTrace requires load success and outcome = Admit with the entry's mount point.
The broker level (CONNACK code, nothing created after a refusal) is added by the node harness.
"""
import hashlib
import json
import os
import random

import vlib
from checks import brokerlib

USERS = ["alice", "bob", "carol", "dave", "erin", "frank"]


def classify(scn, line):
    e = scn[line - 1]
    if e["op"] == "new":
        shape = sorted({("3" if x["m"] else "2") for x in e["table"]})
        return "file-load-%s-%s" % ("panic" if e.get("panic") else "error", "+".join(shape) + "-field-lines")
    if e.get("panic"):
        return "authenticate-panic"
    if e["op"] == "ids":
        return "session-identifiers-not-distinct"
    table = {x["u"]: x for x in scn[0]["table"]}
    should = e["u"] in table and table[e["u"]]["p"] == e["p"]
    if should and not e["ok"]:
        return "valid-credentials-refused"
    if e["ok"] and not should:
        return "invalid-credentials-admitted"
    return "wrong-mount-point"


def near_misses(u, p):
    """credentials that are almost right: the boundary between user name and password moved, the two swapped or joined,
    case or padding changed, one character short - none of them is the configured pair"""
    out = [(u[:-1], u[-1:] + p), (u + p[:1], p[1:]), (u + p, ""), ("", u + p), (p, u), (u + ":" + p, ""), (u, p + " "), (u + " ", p),
           (u.upper(), p), (u, p.upper()), (u, p[:-1]), (u[:-1], p), (u, p + p), (u + "\x00", p),
           # round 8: the stored fingerprint of the password is not the password; a password that hashes to the configured string is not it either
           (u, hashlib.sha256(p.encode()).hexdigest()), (u, hashlib.sha256(p.encode()).hexdigest().upper())]
    return [{"u": a, "p": b} for a, b in out if (a, b) != (u, p)]


def check(run):
    thorough = run.tier == "thorough"
    rng = random.Random(run.seed)
    run.model_check("MC_Auth", "MC_Auth.cfg")
    nusers = 6 if thorough else 5
    cfg = 'CONSTANTS Users = {%s}\nSPECIFICATION Spec\nCHECK_DEADLOCK FALSE\n' % ", ".join('"%s"' % u for u in USERS[:nusers])
    shapes = vlib.gen_behaviours(run, "AuthGen", "Gen_Auth.cfg", cfg, tag="SHAPES")[0]
    scns = []
    for sh in shapes:
        table = []
        for u in USERS[:nusers]:
            if sh[u] == "-":
                continue
            table.append({"u": u, "p": "pw-" + u, "m": ("tenant-" + u[0]) if sh[u] == "3" else ""})
        n = len(table)
        orders = [list(range(n)), list(range(n - 1, -1, -1))]
        for _ in range(3 if thorough else 1):
            o = list(range(n))
            rng.shuffle(o)
            orders.append(o)
        queries = []
        for e in table:
            queries += [{"u": e["u"], "p": e["p"]}, {"u": e["u"], "p": ""}, {"u": e["u"], "p": "wrong"}]
            other = [x for x in table if x["u"] != e["u"]]
            if other:
                queries.append({"u": e["u"], "p": other[0]["p"]})
        for u in USERS:
            if u not in [e["u"] for e in table]:
                queries.append({"u": u, "p": "pw-" + u})
        queries += [{"u": "", "p": ""}, {"u": "", "p": table[0]["p"]}, {"u": "mallory", "p": "x"}]
        names = {e["u"]: e["p"] for e in table}
        for e in (table if thorough else table[:1] + table[-1:]):
            queries += [q for q in near_misses(e["u"], e["p"]) if names.get(q["u"]) != q["p"]]
        for o in orders:
            scns.append({"kind": "file", "table": table, "order": o, "queries": queries})
    # three-field lines whose mount point column is empty ("user:hash:"): the default mount point applies
    for k in range(1, 4):
        table = [{"u": u, "p": "pw-" + u, "m": "" if i % 2 == 0 else "tenant-" + u[0], "t": True} for i, u in enumerate(USERS[:k + 1])]
        queries = [{"u": e["u"], "p": e["p"]} for e in table]
        scns.append({"kind": "file", "table": table, "order": list(range(len(table))), "queries": queries})
    # round 8: passwords that look like something else - 64 hexadecimal digits (a token; as it happens the SHA-256 fingerprint of "test"),
    # in either case, 63 and 65 digits - are passwords like any other, in the static store and in the file
    HEX = hashlib.sha256(b"test").hexdigest()
    odd = [("admin", HEX), ("admin", HEX.upper()), ("admin", HEX[:-1]), ("admin", HEX + "0")]
    for u, p in odd:
        scns.append({"kind": "file", "table": [{"u": u, "p": p, "m": ""}, {"u": "bob", "p": "pw-bob", "m": "tenant-b"}], "order": [0, 1],
                     "queries": [{"u": u, "p": p}, {"u": u, "p": "test"}, {"u": u, "p": p.lower()}, {"u": u, "p": p.upper()}, {"u": "bob", "p": "pw-bob"}]
                                + [q for q in near_misses(u, p)]})
    for u, p in [("admin", "secret"), ("", ""), ("a", ""), ("", "only-a-password"), ("ab", "ab")] + odd:
        qs = [{"u": a, "p": b} for a in (u, "", "other", u + "x") for b in (p, "", "other", p + "x", "test")] + near_misses(u, p)
        scns.append({"kind": "static", "table": [{"u": u, "p": p, "m": ""}], "order": [0], "queries": qs})
    # a reconnection storm: many goroutines put right, wrong and near-miss credentials to the one shared handler at once (the broker
    # authenticates on 20 concurrent workers); every single outcome must be what the table implies
    stable = [{"u": u, "p": "pw-" + u, "m": ("tenant-" + u[0]) if i % 2 else ""} for i, u in enumerate(USERS[:5])]
    sq = []
    for e in stable:
        sq += [{"u": e["u"], "p": e["p"]}, {"u": e["u"], "p": "wrong"}, {"u": e["u"], "p": stable[0]["p"] if e is not stable[0] else stable[1]["p"]}]
    sq += [{"u": "mallory", "p": "pw-alice"}, {"u": "", "p": ""}] + near_misses(stable[0]["u"], stable[0]["p"])[:4]
    nstorm = 2 if not thorough else 8
    for k in range(nstorm):
        scns.append({"kind": "file", "table": stable, "order": list(range(len(stable))), "queries": sq, "storm": 8 + 4 * k, "rounds": 40 if not thorough else 120})
        scns.append({"kind": "static", "table": [{"u": "admin", "p": "secret", "m": ""}], "order": [0],
                     "queries": [{"u": "admin", "p": "secret"}, {"u": "admin", "p": "wrong"}, {"u": "other", "p": "secret"}] + near_misses("admin", "secret")[:4],
                     "storm": 8 + 4 * k, "rounds": 100 if not thorough else 300})
    spath = os.path.join(run.scratch, "scenarios.ndjson")
    with open(spath, "w") as f:
        for s in scns:
            f.write(json.dumps(s) + "\n")
    drv = run.gobuild("authdrv")
    tpath = os.path.join(run.scratch, "auth.ndjson")
    run.drive(drv, ["-scenarios", spath, "-out", tpath], timeout=3000)
    nev, nscn = vlib.count_lines(tpath, '"op":"new"')
    run.log("%d tables (%d shapes from TLC), recorded %d events" % (len(scns), len(shapes), nev))
    validated, rejected, tstates = vlib.validate_scenarios(run, "AuthTrace", "AuthTrace.cfg", tpath, timeout=3000, max_rejections=4)
    v = vlib.Verdict(run)
    for rj in rejected:
        scn, line = rj["scenario"], rj["line"]
        sig = classify(scn, line)
        e = scn[line - 1]
        idx = scn[0]["scn"] - 1
        v.add(sig, "credential store with file lines %s (order %s): %s is not what the configured table implies"
              % (json.dumps([[x["u"], "3-field" if x["m"] else "2-field"] for x in scn[0]["table"]]), scn[0].get("order"), json.dumps(e)),
              {"kind": "auth", "scenario": scns[idx] if e["op"] == "ids" else dict(scns[idx], queries=[{"u": e.get("u", ""), "p": e.get("p", "")}] if e["op"] == "auth" else []),
               "trace": [scn[0], e]})
    # ---- broker level: CONNECT against the real file handler; CONNACK code, tenant, and nothing created after a refusal
    bscns = []
    file_scns = [x for x in scns if x["kind"] == "file" and not any(e.get("t") for e in x["table"])]
    for x in file_scns[:: max(1, len(file_scns) // (400 if thorough else 40))]:
        ops = []
        for i, q in enumerate(x["queries"][:14]):
            ops.append({"op": "connect", "c": 1 + i, "n": 1, "client": "cl%d" % i, "user": q["u"], "pass": q["p"], "ka": 600,
                        "will": {"t": ["w", "x"], "p": "will-%d" % i, "q": 0, "r": False}})
            if i % 3 == 2:
                ops.append({"op": "sub", "c": 1 + i, "id": 1, "fs": [{"f": ["w", "#"], "q": 0}]})
        # legal CONNECT packets far larger than 64 KiB (a will of up to 65535 bytes next to the credentials): admitted or refused
        # exactly like small ones
        if x["table"]:
            e0 = x["table"][0]
            ops.append({"op": "connect", "c": 40, "n": 1, "client": "big-ok", "user": e0["u"], "pass": e0["p"], "ka": 600,
                        "will": {"t": ["w", "big"], "p": "bigwill-ok", "q": 0, "r": False, "size": 65535}})
            ops.append({"op": "connect", "c": 41, "n": 1, "client": "big-bad", "user": e0["u"], "pass": "wrong", "ka": 600,
                        "will": {"t": ["w", "big"], "p": "bigwill-bad", "q": 0, "r": False, "size": 65000}})
        ops.append({"op": "quiesce"})
        bscns.append({"nodes": [1], "auth": [x["table"][j] for j in x["order"]], "ops": ops})
    # admission must not depend on how the network cuts the CONNECT into segments, nor on what other sessions do meanwhile
    nseg0 = len(bscns)
    bscns += brokerlib.segmented(auth=[{"u": "alice", "p": "pw1", "m": ""}, {"u": "bob", "p": "pw2", "m": "tenantB"}, {"u": "carol", "p": "", "m": ""}],
                                 cuts=(1, 2, 3) if not thorough else (1, 2, 3, 4, 5, 8, 13))
    brokerlib.framing_model(run)
    bscns += brokerlib.framing(run, 40 if not thorough else 400, auth=[{"u": "alice", "p": "pw1", "m": ""}, {"u": "bob", "p": "pw2", "m": "tenantB"}])
    run.log("broker level: %d credential scenarios, %d with segmented packets" % (nseg0, len(bscns) - nseg0))
    btpath, crashes = brokerlib.execute(run, bscns, "c16b", shards=12)
    if crashes:
        raise vlib.Inconclusive("broker driver died: %s" % crashes[0][2][-2000:])
    bnev, bnscn, bvalidated, brejected, btstates = brokerlib.validate(run, "C16", bscns, btpath, v)
    run.log("broker level: validated %d of %d scenarios (%d events)" % (bvalidated, len(bscns), bnev))
    validated += bvalidated
    tstates += btstates
    rejected = rejected + brejected
    rc = v.finish()
    vlib.write_evidence(run, {
        "broker_level_scenarios": len(bscns), "broker_level_events": bnev,
        "traces_validated_against_impl": validated,
        "evaluations": nev - nscn,
        "distinct_nontrivial": len(scns),
        "rule": "tables: every shape over %d user names (absent / 2-field / 3-field line) from TLC x line orders (sorted, reversed, %d seeded "
                "shuffles); per table every present user with right / empty / wrong / another user's password, every absent user, empty and "
                "unknown user names; static store with 16 combinations x 3 configurations; evaluations = Authenticate calls; distinct = (table, order)"
                % (nusers, 3 if thorough else 1),
        "trace_spec_states": tstates, "rejections": len(rejected), "exhaustive": True,
        "samples": [scns[0], scns[len(scns) // 2]["table"], {"trace_excerpt": vlib.head_events(tpath, 4)}],
    }, ["user names containing ':' '\"' or newlines and duplicate user names are not generated (CSV quoting / ambiguous configuration)",
        "the file holds 'user:sha256hex(password)[:mountpoint]' as auth.FileHandler expects",
        "broker level: a sample of the tables is loaded into a real broker (auth.FileHandler behind the connection manager); CONNECTs carrying a will with every candidate credential must get CONNACK 0 and the entry's tenant iff admitted, CONNACK 5 otherwise, and a refused CONNECT leaves no session, subscription, registry entry or will (BrokerTrace)"],
        violations=v.n_new)
    run.log("validated %d tables, %d rejected (%d known)" % (validated, len(rejected), v.n_known))
    return rc


def replay(run, path):
    rp = json.load(open(path))
    if rp.get("kind") == "broker":
        return brokerlib.replay(run, "C16", path)
    spath = os.path.join(run.scratch, "scenarios.ndjson")
    with open(spath, "w") as f:
        f.write(json.dumps(rp["scenario"]) + "\n")
    drv = run.gobuild("authdrv")
    tpath = os.path.join(run.scratch, "auth.ndjson")
    run.drive(drv, ["-scenarios", spath, "-out", tpath])
    events = vlib.load_events(tpath)
    ok, line, detail, _ = run.validate("AuthTrace", "AuthTrace.cfg", tpath)
    if ok:
        print("replay: accepted (no violation)")
        return 0
    print("replay: rejected at event %d: %s" % (line, json.dumps(events[line - 1])))
    print("VIOLATION property=C16 replay=%s" % path)
    return 1
