"""Shared machinery for the wasp checks: scratch handling, Go builds, TLC runs,
trace validation with located rejections, known findings, evidence files.

Verdict rules (DESIGN.md 3.5): a violation is only ever reported for behaviour of the
real code (a recorded trace TLC rejects / a replay that differs).  Build failures, dead
drivers, TLC errors, time-outs are Inconclusive (exit 2), never a VIOLATION.
"""
import json
import os
import re
import shutil
import subprocess
import sys
import tempfile
import time

VERIF = os.path.dirname(os.path.dirname(os.path.abspath(__file__)))
REPO = os.environ.get("VERIF_REPO", "/repo")
JARS = "/opt/veriftools/tla/tla2tools.jar:/opt/veriftools/tla/CommunityModules-deps.jar"
NCPU = os.cpu_count() or 4


class Inconclusive(Exception):
    pass


def goenv():
    e = dict(os.environ)
    e.update(GOFLAGS="-mod=mod", GOPROXY="off", GOSUMDB="off", GOTOOLCHAIN="local", CGO_ENABLED=e.get("CGO_ENABLED", "1"))
    return e


class TlcResult:
    def __init__(self, rc, out, wall):
        self.rc = rc
        self.out = out
        self.wall = wall
        m = re.findall(r"(\d+) states generated, (\d+) distinct states found", out)
        self.generated = int(m[-1][0]) if m else 0
        self.distinct = int(m[-1][1]) if m else 0
        self.violated = re.findall(r"Invariant (\S+) is violated", out) + re.findall(
            r"Action property (\S+) is violated", out)
        self.error = ("Error:" in out) or rc not in (0,)
        m = re.search(r"The depth of the complete state graph search is (\d+)", out)
        self.depth = int(m.group(1)) if m else 0

    def printed(self, tag):
        """lines printed with PrintT(<<tag, x>>) -> list of x strings (raw)."""
        res = []
        pat = re.compile(r'^<<"%s", (.*)>>$' % re.escape(tag))
        for line in self.out.splitlines():
            m = pat.match(line.strip())
            if m:
                res.append(m.group(1))
        return res


class Run:
    def __init__(self, prop, tier="quick", seed=1):
        self.prop = prop
        self.tier = tier
        self.seed = seed
        self.t0 = time.time()
        base = os.environ.get("VERIF_SCRATCH", "/var/tmp")
        os.makedirs(base, exist_ok=True)
        self.scratch = tempfile.mkdtemp(prefix="waspverif-%s-" % prop, dir=base)
        self.spec = os.path.join(self.scratch, "spec")
        shutil.copytree(os.path.join(VERIF, "spec"), self.spec,
                        ignore=shutil.ignore_patterns("states", "*_TTrace_*", ".tlacache"))
        self.bin = os.path.join(self.scratch, "bin")
        os.makedirs(self.bin)
        self.built = {}
        self.notes = []
        self.mc = []          # (name, generated, distinct)
        self.keep = os.environ.get("VERIF_KEEP") == "1"

    def cleanup(self):
        if not self.keep:
            shutil.rmtree(self.scratch, ignore_errors=True)

    def log(self, *a):
        print("[%s %6.1fs]" % (self.prop, time.time() - self.t0), *a, flush=True)

    # ---------------------------------------------------------------- Go
    def gobuild(self, name, race=False, tags="verif"):
        key = (name, race)
        if key in self.built:
            return self.built[key]
        out = os.path.join(self.bin, name + ("-race" if race else ""))
        cmd = ["go", "build", "-tags", tags, "-o", out]
        if race:
            cmd.append("-race")
        cmd.append("./cmd/" + name)
        p = subprocess.run(cmd, cwd=os.path.join(VERIF, "harness"), env=goenv(),
                           stdout=subprocess.PIPE, stderr=subprocess.STDOUT, text=True)
        if p.returncode != 0:
            raise Inconclusive("go build %s failed:\n%s" % (name, p.stdout[-4000:]))
        self.built[key] = out
        return out

    def drive(self, binary, args, stdin=None, timeout=600, env=None, ok_codes=(0,)):
        e = dict(os.environ)
        e["VERIF_SEED"] = str(self.seed)
        if env:
            e.update(env)
        try:
            p = subprocess.run([binary] + list(args), input=stdin, stdout=subprocess.PIPE,
                               stderr=subprocess.PIPE, text=True, timeout=timeout, env=e, cwd=self.scratch)
        except subprocess.TimeoutExpired:
            raise Inconclusive("driver %s timed out after %ss" % (os.path.basename(binary), timeout))
        if p.returncode not in ok_codes:
            raise Inconclusive("driver %s exited %d:\n%s" % (os.path.basename(binary), p.returncode,
                                                             (p.stderr or "")[-4000:]))
        return p

    # ---------------------------------------------------------------- TLC
    def tlc(self, module, cfg=None, workers=None, simulate=None, depth=None, timeout=900,
            deque=False, heap="6g", extra=(), name=None, allow_violation=False):
        cfg = cfg or (module + ".cfg")
        meta = tempfile.mkdtemp(prefix="meta-", dir=self.scratch)
        cmd = ["java", "-XX:+UseParallelGC", "-Xmx" + heap, "-Xss64m"]
        if deque:
            cmd.append("-Dtlc2.tool.queue.IStateQueue=StateDeque")
        cmd += ["-cp", JARS, "tlc2.TLC", "-metadir", meta, "-config", cfg,
                "-workers", str(workers or NCPU)]
        if simulate:
            cmd += ["-simulate", simulate]
            if depth:
                cmd += ["-depth", str(depth)]
        cmd += list(extra)
        cmd.append(module + ".tla")
        t = time.time()
        try:
            p = subprocess.run(cmd, cwd=self.spec, stdout=subprocess.PIPE, stderr=subprocess.STDOUT,
                               text=True, timeout=timeout)
        except subprocess.TimeoutExpired as ex:
            subprocess.run(["pkill", "-f", meta], check=False)
            raise Inconclusive("TLC %s/%s timed out after %ss" % (module, cfg, timeout))
        finally:
            shutil.rmtree(meta, ignore_errors=True)
            for f in os.listdir(self.spec):
                if "_TTrace_" in f:
                    os.unlink(os.path.join(self.spec, f))
        r = TlcResult(p.returncode, p.stdout, time.time() - t)
        if name:
            self.mc.append({"name": name, "generated": r.generated, "distinct": r.distinct,
                            "depth": r.depth, "wall_s": round(r.wall, 1)})
        if p.returncode != 0 and not allow_violation:
            raise Inconclusive("TLC %s/%s exited %d:\n%s" % (module, cfg, p.returncode, p.stdout[-3000:]))
        return r

    def model_check(self, module, cfg, name=None, **kw):
        """Exhaustive check of the design model.  A counterexample here is a defect of the
        *model* (rule V1): inconclusive, never a violation of the code."""
        r = self.tlc(module, cfg, name=name or cfg, **kw)
        self.log("MC %s: %d generated, %d distinct, depth %d, %.1fs" % (cfg, r.generated, r.distinct, r.depth, r.wall))
        return r

    # ---------------------------------------------------------------- trace validation
    def validate(self, module, cfg, ndjson, timeout=900, deque=False, heap="6g", fname="trace.ndjson"):
        """Run the trace spec over one NDJSON file.  Returns (accepted, line, detail, TlcResult)."""
        dst = os.path.join(self.spec, fname)
        if os.path.abspath(ndjson) != dst:
            shutil.copyfile(ndjson, dst)
        r = self.tlc(module, cfg, workers=1, timeout=timeout, deque=deque, heap=heap, allow_violation=True)
        m = re.search(r'<<"REJECTED_AT_LINE", (\d+)', r.out)
        if m:
            return False, int(m.group(1)), r.out[-2500:], r
        if r.violated:
            # an invariant failed on a state reached while following the trace
            m2 = re.findall(r'<<"AT_LINE", (\d+)>>', r.out)
            line = int(m2[-1]) if m2 else -1
            return False, line, "invariant %s violated\n%s" % (r.violated, r.out[-2500:]), r
        if r.rc != 0:
            raise Inconclusive("trace validation %s failed to run (rc %d):\n%s" % (module, r.rc, r.out[-3000:]))
        if "TRACE_ACCEPTED" not in r.out:
            raise Inconclusive("trace validation %s: no verdict in output:\n%s" % (module, r.out[-3000:]))
        return True, 0, "", r


def load_events(path):
    with open(path) as f:
        return [json.loads(l) for l in f if l.strip()]


def split_scenarios(events, marker=lambda e: e.get("op") == "new"):
    """-> list of (first_line_1based, [events]) ; every scenario starts with a marker event."""
    res = []
    for i, e in enumerate(events):
        if marker(e) or not res:
            res.append((i + 1, []))
        res[-1][1].append(e)
    return res


def validate_scenarios(run, module, cfg, events, max_rejections=8, marker=None, **kw):
    """Validate a concatenation of scenarios; on a rejection record the scenario, drop it and
    go on with the rest, so that one failure does not hide the others.
    -> (n_validated, [ {scenario:[events], line_in_scenario:int, detail:str} ])"""
    marker = marker or (lambda e: e.get("op") == "new")
    scns = split_scenarios(events, marker)
    rejected = []
    remaining = [s[1] for s in scns]
    validated = 0
    tlc_states = 0
    while remaining:
        path = os.path.join(run.scratch, "batch.ndjson")
        with open(path, "w") as f:
            for s in remaining:
                for e in s:
                    f.write(json.dumps(e, separators=(",", ":")) + "\n")
        ok, line, detail, r = run.validate(module, cfg, path, **kw)
        tlc_states += r.generated
        if ok:
            validated += len(remaining)
            break
        # locate scenario
        acc = 0
        idx = None
        for i, s in enumerate(remaining):
            if acc + len(s) >= line:
                idx = i
                break
            acc += len(s)
        if idx is None:
            raise Inconclusive("rejection line %d outside trace (%d lines)\n%s" % (line, acc, detail))
        rejected.append({"scenario": remaining[idx], "line": line - acc, "detail": detail})
        validated += idx
        remaining = remaining[idx + 1:]
        if len(rejected) >= max_rejections:
            break
    return validated, rejected, tlc_states


# -------------------------------------------------------------------- known findings
def known_findings():
    p = os.path.join(VERIF, "known_findings.json")
    if not os.path.exists(p):
        return {"findings": [], "fixed": []}
    with open(p) as f:
        return json.load(f)


class Verdict:
    """Collects violations of one check run, classifies them against known_findings.json
    (read-only), prints KNOWN-FINDING / VIOLATION lines, decides the exit code."""

    def __init__(self, run):
        self.run = run
        self.violations = []   # (signature, description, replay dict)
        self.known = [f for f in known_findings().get("findings", []) if f.get("property") == run.prop]

    def add(self, signature, description, replay):
        self.violations.append((signature, description, replay))

    def finish(self):
        """-> exit code"""
        outdir = os.path.join(VERIF, "out", self.run.prop)
        rc = 0
        seen_known = set()
        n_new = 0
        for sig, desc, replay in self.violations:
            k = [f for f in self.known if f.get("signature") == sig]
            if k:
                if sig not in seen_known:
                    seen_known.add(sig)
                    print("KNOWN-FINDING: property=%s %s" % (self.run.prop, k[0].get("description", sig)))
                continue
            n_new += 1
            if n_new > 5:
                continue
            os.makedirs(outdir, exist_ok=True)
            import hashlib
            h = hashlib.sha1(json.dumps(replay, sort_keys=True, default=str).encode()).hexdigest()[:12]
            path = os.path.join(outdir, "%s.json" % h)
            replay = dict(replay)
            replay.update(property=self.run.prop, signature=sig, description=desc)
            with open(path, "w") as f:
                json.dump(replay, f, indent=1, default=str)
            print("VIOLATION property=%s replay=%s" % (self.run.prop, path))
            print("  signature: %s" % sig)
            print("  %s" % desc[:1500])
            rc = 1
        self.n_new = n_new
        self.n_known = len(self.violations) - n_new
        return rc


# -------------------------------------------------------------------- evidence
def write_evidence(run, coverage, assumptions, violations=0, level="model_checking"):
    states = sum(m["distinct"] for m in run.mc)
    trans = sum(m["generated"] for m in run.mc)
    cov = dict(coverage)
    cov.setdefault("states", states)
    cov.setdefault("transitions", trans)
    cov.setdefault("traces_validated_against_impl", 0)
    cov["model_checking_runs"] = run.mc
    if run.notes:
        cov["notes"] = run.notes
    ev = {
        "property_id": run.prop,
        "tier": run.tier,
        "seed": int(run.seed),
        "level": level,
        "coverage": cov,
        "assumptions": assumptions,
        "wall_s": round(time.time() - run.t0, 1),
        "violations": violations,
    }
    os.makedirs(os.path.join(VERIF, "evidence"), exist_ok=True)
    with open(os.path.join(VERIF, "evidence", run.prop + ".json"), "w") as f:
        json.dump(ev, f, indent=1, default=str)
    return ev
