SPECIFICATION TSpec
CONSTRAINT HighWater
POSTCONDITION Accepted
CHECK_DEADLOCK FALSE
