"""C04  Every in-flight entry is resolved exactly once and independently of the others.

(M) AckQueue.tla model-checked (ExactlyOnce, TagsUnique, OutcomeStable, Independent).
(G) AckQueueGen: TLC enumerates call sequences over Insert/Ack/Expire with deadlines that
    coincide or fall into the same second, every ack packet type, duplicate and refused
    registrations, sweeps before/between/after; exhaustive to a depth, simulated beyond.
(T) the Go driver replays them on the real ack.NewQueue() (each closed by a far-future
    sweep) and AckQueueTrace validates every return value and every callback.
"""
import json
import os

import vlib

CONST = 'CONSTANTS Sess = {%s} Ids = {%s} Deadlines = {%s} Sweeps = {%s}\n Sec = 1000 Depth = %d GenKinds = {%s} GenAcks = {%s} Pre <- %s\n'
TAIL = "SPECIFICATION GSpec\nCONSTRAINT Dump\nCHECK_DEADLOCK FALSE\n"


def gen(run, name, ids, deadlines, sweeps, depth, kinds, simulate=None, sess=("s1", "s2"), pre="NoPre",
        acks=("PUBACK", "PUBREC", "PUBREL", "PUBCOMP")):
    text = CONST % (", ".join('"%s"' % x for x in sess), ", ".join(map(str, ids)), ", ".join(map(str, deadlines)), ", ".join(map(str, sweeps)), depth,
                    ", ".join('"%s"' % k for k in kinds), ", ".join('"%s"' % k for k in acks), pre) + TAIL
    return vlib.gen_behaviours(run, "AckQueueGen", "Gen_AckQueue_%s.cfg" % name, text,
                               simulate=simulate, depth=depth + 1 if simulate else None,
                               workers=1)


def classify(scn, line):
    e = scn[line - 1]
    # abstract replay of the accepted prefix (classification only)
    en = {}
    acked_secs, swept_secs = set(), set()
    for x in scn[:line - 1]:
        if x["op"] == "insert" and x["ok"]:
            en[(x["s"], x["id"], "in" if x["kind"] == "pubrec" else "out")] = x
        elif x["op"] == "ack" and x["ok"]:
            k = (x["s"], x["id"], "in" if x["ty"] == "PUBREL" else "out")
            if k in en:
                acked_secs.add(round(en[k]["d"] / 1000.0))
                del en[k]
        elif x["op"] == "ack":
            k = (x["s"], x["id"])
        elif x["op"] == "sweep":
            fired = {c["tag"] for c in x["cbs"]}
            for k in [k for k in en if en[k]["tag"] in fired]:
                del en[k]
            swept_secs.add("any")
    if e["op"] == "sweep":
        fired = {c["tag"] for c in e["cbs"]}
        missed = [k for k in en if e["now"] >= en[k]["d"] + 1000 and en[k]["tag"] not in fired]
        early = [k for k in en if en[k]["tag"] in fired and e["now"] <= en[k]["d"] - 1000]
        ghost = fired - {en[k]["tag"] for k in en}
        if ghost:
            return "sweep-fires-resolved-or-unknown-entry"
        if missed:
            return "sweep-misses-due-entry"
        if early:
            return "sweep-fires-early"
        return "sweep-other"
    if e["op"] == "ack":
        k = (e["s"], e["id"], "in" if e["ty"] == "PUBREL" else "out")
        if k in en and en[k]["kind"] is not None:
            exp = {"pub1": "PUBACK", "pub2": "PUBREC", "pubrec": "PUBREL", "pubrel": "PUBCOMP"}[en[k]["kind"]]
            if exp != e["ty"]:
                return "ack-wrong-type-" + ("accepted" if e["ok"] else "ran-callback")
            return "ack-expected-type-" + ("refused" if not e["ok"] else "callbacks-%d" % len(e["cbs"]))
        return "ack-unknown-key-" + ("accepted" if e["ok"] else "ran-callback")
    if e["op"] == "insert":
        k = (e["s"], e["id"], "in" if e["kind"] == "pubrec" else "out")
        if k in en:
            return "insert-duplicate-accepted" if e["ok"] else "insert-duplicate-other"
        return "insert-" + ("refused" if not e["ok"] else "accepted-unregistrable")
    return "other"


LGEN = ('CONSTANTS Vals = {%s} Deadlines = {1400, 1450, 1499, 1500, 2400} Nows = {1000, 2000, 3000} Depth = %d Pre <- %s\n'
        'SPECIFICATION Spec\nCONSTRAINT Dump\nCHECK_DEADLOCK FALSE\n')


def list_level(run, v):
    """The bare expiry structure (expiration.NewList, what ack.Queue arms its time-outs in): TimeoutList.tla is model-checked as
    coded against the bag it refines, with the three transcribed defects as negative controls; TLC-generated call sequences
    are replayed on the real structure and every sweep's report is validated (TimeoutListTrace)."""
    thorough = run.tier == "thorough"
    run.model_check("MC_TimeoutList", "MC_TimeoutList.cfg")
    run.negative_control("MC_TimeoutList", "MC_TimeoutList_swap-remove.cfg", "Sorted")
    run.negative_control("MC_TimeoutList", "MC_TimeoutList_first-of-deadline.cfg", "Refines")
    run.negative_control("MC_TimeoutList", "MC_TimeoutList_orphan-bucket.cfg", "Refines")
    hs = []
    for name, vals, depth, pre in (("p0", '"a", "b"', 3, "Pre0"), ("p3", '"a", "b", "c"', 5 if not thorough else 6, "Pre3"),
                                   ("ps", '"a", "b", "c"', 5, "PreSame")):
        sim = None
        if name == "p3" and thorough:
            sim = None
        hs += vlib.gen_behaviours(run, "TimeoutListGen", "Gen_TimeoutList_%s.cfg" % name, LGEN % (vals, depth, pre),
                                  simulate=("num=%d" % (20000 if thorough else 2500)) if name != "p0" else None,
                                  depth=depth + 1 if name != "p0" else None)
    hs = [h for h in hs if any(c["op"] == "ins" for c in h) and any(c["op"] == "exp" for c in h)]
    uniq = {}
    for h in hs:
        uniq.setdefault(json.dumps(h, sort_keys=True), h + [{"op": "exp", "v": "", "d": 0, "now": 9000}])
    hs = list(uniq.values())
    spath = os.path.join(run.scratch, "list-scenarios.ndjson")
    with open(spath, "w") as f:
        for h in hs:
            f.write(json.dumps(h) + "\n")
    drv = run.gobuild("explist")
    tpath = os.path.join(run.scratch, "explist.ndjson")
    run.drive(drv, ["-scenarios", spath, "-out", tpath], timeout=1800)
    nev, nscn = vlib.count_lines(tpath, '"op":"new"')
    validated, rejected, tstates = vlib.validate_scenarios(run, "TimeoutListTrace", "TimeoutListTrace.cfg", tpath, timeout=3000)
    for rj in rejected:
        scn, line = rj["scenario"], rj["line"]
        e = scn[line - 1]
        sig = "list:panic" if e.get("panic") else "list:sweep-reports-wrong-entries" if e["op"] == "exp" else "list:" + e["op"]
        calls = [dict((k, x[k]) for k in ("op", "v", "d", "now")) for x in scn[1:line]]
        v.add(sig, "expiry structure: event %d is not a step of the bag of (value, deadline) pairs: %s ; history: %s"
              % (line, json.dumps(e), json.dumps(calls)), {"kind": "list", "calls": calls, "trace": scn[:line]})
    run.log("list level: %d call sequences (%d events), %d rejected" % (len(hs), nev, len(rejected)))
    return len(hs), nev, validated, len(rejected), tstates


def concurrent_level(run, v):
    """'resolved exactly once', 'a wrong-type acknowledgement leaves the entry as it is' and 'every due entry fires at the sweep' also
    when acknowledgements, registrations and sweeps overlap: histories recorded from goroutines hammering the real queue (random ones
    and focused ones: a burst of wrong-type acknowledgements on a due entry while a sweep runs) must have a linearization that is
    a behaviour of AckQueue (Lin.tla; shared with C20, which owns the remaining objects and the race detector)."""
    import subprocess
    thorough = run.tier == "thorough"
    conc = run.gobuild("conc")
    hpath = os.path.join(run.scratch, "c04-hist.ndjson")
    jobs = []
    for i in range(4):
        e = dict(os.environ, VERIF_SEED=str(run.seed * 1000 + 70 + i))
        jobs.append(subprocess.Popen([conc, "-out", hpath + ".%d" % i, "-n", str(12 if not thorough else 120), "-threads", "4", "-ops", str(5 + i % 2)],
                                     stdout=subprocess.PIPE, stderr=subprocess.PIPE, text=True, env=e, cwd=run.scratch))
    n = 0
    with open(hpath, "w") as out:
        for i, j in enumerate(jobs):
            so, se = j.communicate(timeout=1800)
            if j.returncode != 0:
                raise vlib.Inconclusive("conc driver exited %d: %s" % (j.returncode, se[-2000:]))
            for ln in open(hpath + ".%d" % i):
                h = json.loads(ln)
                if h.get("kind") == "ackq":
                    n += 1
                    h["n"] = n
                    out.write(json.dumps(h, separators=(",", ":")) + "\n")
    validated, rejected, tstates = vlib.validate_scenarios(run, "Lin", "Lin.cfg", hpath, marker='"kind":', chunk_events=60, timeout=1800,
                                                           max_rejections=3)
    for rj in rejected:
        h = rj["scenario"][0] if rj["scenario"] else {}
        v.add("not-linearizable:ackq", "concurrent history on the in-flight table has no linearization that is a behaviour of AckQueue: %s"
              % json.dumps(sorted(h.get("ops", []), key=lambda o: o["call"]))[:2500], {"kind": "history", "history": h})
    run.log("concurrent level: %d in-flight table histories, %d rejected" % (n, len(rejected)))
    return n, validated, len(rejected), tstates


def check(run):
    thorough = run.tier == "thorough"
    run.model_check("MC_AckQueue", "MC_AckQueue.cfg")
    scns = []
    if not thorough:
        scns += gen(run, "ex3", [1, 2], [5000, 5300, 1000], [2500, 5200, 9000], 3, ["pub1", "pubrec"])
        scns += gen(run, "sim", [0, 1, 2], [5000, 5300, 5600, 1000, 60000], [2500, 4500, 5200, 6400, 9000, 70000], 7,
                    ["pub0", "pub1", "pub2", "pubrec", "pubrel"], simulate="num=60")
    else:
        scns += gen(run, "ex3", [1, 2], [5000, 5300, 1000], [2500, 5200, 9000], 3, ["pub1", "pubrec"])
        scns += gen(run, "ex4", [1], [5000, 5300, 1000], [2500, 5200, 9000], 4, ["pub1", "pubrec"], sess=["s1", "s2"])
        scns += gen(run, "ex5", [1, 2], [1000, 1300], [2500], 4, ["pub1"], sess=["s1"])
        scns += gen(run, "ex3all", [0, 1, 2], [5000, 5300, 5600], [5200, 6400, 9000], 3,
                    ["pub0", "pub1", "pub2", "pubrec", "pubrel"], sess=["s1"])
        scns += gen(run, "sim", [0, 1, 2], [5000, 5300, 5600, 1000, 60000], [2500, 4500, 5200, 6400, 9000, 70000], 9,
                    ["pub0", "pub1", "pub2", "pubrec", "pubrel"], simulate="num=600")
    # three entries in one second with distinct sub-second deadlines (every assignment to the ids), then every sequence of
    # acknowledgements, re-registrations with a later deadline and sweeps: buckets with several items, ids re-used
    for pre in ("Pre123", "Pre132", "Pre213", "Pre231", "Pre312", "Pre321"):
        scns += gen(run, "bk" + pre, [1, 2, 3], [9000], [7000, 20000], 4 if not thorough else 5, ["pub1"], sess=["s1"], pre=pre, acks=["PUBACK"])
    # de-duplicate across generators
    uniq = {}
    for s in scns:
        uniq.setdefault(json.dumps(s, sort_keys=True), s)
    scns = list(uniq.values())
    run.log("generated %d distinct call sequences with TLC" % len(scns))
    spath = os.path.join(run.scratch, "scenarios.ndjson")
    with open(spath, "w") as f:
        for s in scns:
            f.write(json.dumps(s) + "\n")
    drv = run.gobuild("ackq")
    tpath = os.path.join(run.scratch, "ackq.ndjson")
    run.drive(drv, ["-scenarios", spath, "-out", tpath], timeout=1800)
    nev, nscn = vlib.count_lines(tpath, '"op":"new"')
    run.log("recorded %d events" % nev)
    validated, rejected, tstates = vlib.validate_scenarios(run, "AckQueueTrace", "AckQueueTrace.cfg", tpath,
                                                           timeout=3000)
    v = vlib.Verdict(run)
    for rj in rejected:
        scn, line = rj["scenario"], rj["line"]
        sig = classify(scn, line)
        v.add(sig, "in-flight table: event %d is not a step of AckQueue: %s ; history: %s"
              % (line, json.dumps(scn[line - 1]), json.dumps(scn[1:line - 1])),
              {"kind": "ackq", "calls": [dict((k, x[k]) for k in ("op", "s", "id", "kind", "d", "ty", "now") if k in x)
                                         for x in scn[1:line]],
               "trace": scn[:line], "rejected_line": line})
    ln, lev, lval, lrej, lts = list_level(run, v)
    validated += lval
    tstates += lts
    cn, cval, crej, cts = concurrent_level(run, v)
    validated += cval
    tstates += cts
    rc = v.finish()
    nontriv = sum(1 for s in scns if sum(1 for c in s if c["op"] == "insert") >= 1)
    vlib.write_evidence(run, {
        "traces_validated_against_impl": validated,
        "evaluations": len(scns),
        "distinct_nontrivial": nontriv,
        "rule": "TLC-generated call sequences over Insert/Ack/Expire (exhaustive to depth 3 quick / 4 thorough over 2 sessions x 2 ids, "
                "kinds pub1+pubrec, deadlines {5.0,5.3,1.0}s, sweeps {2.5,5.2,9.0}s; simulated walks over the full alphabet "
                "incl. id 0, QoS 0, same-second deadlines 5.0/5.3 vs 5.6, far deadline); each closed by a far-future sweep; "
                "distinct = distinct call sequences, non-trivial = contains at least one registration",
        "events_validated": nev,
        "list_level": {"call_sequences": ln, "events": lev, "rejections": lrej,
                       "rule": "bare expiration.List: exhaustive depth 3 from empty over Insert/Delete of 2 values x deadlines "
                               "{1.400,1.450,1.499,1.500,2.400}s and sweeps at {1,2,3}s; simulated walks after preloading three same-second items "
                               "in every order of their sub-second deadlines, or three values on one / adjacent deadlines"},
        "concurrent_level": {"histories": cn, "rejections": crej,
                             "rule": "goroutines hammering the real queue (random insert / ack of any type / sweep on 2 sessions x 2 ids; and focused: "
                                     "a burst of wrong-type acknowledgements on a due entry while a sweep runs, then a sweep alone); Lin.tla searches a linearization"},
        "trace_spec_states": tstates,
        "rejections": len(rejected) + lrej + crej,
        "exhaustive": True,
        "samples": [scns[0], scns[len(scns) // 3], scns[-1], {"trace_excerpt": vlib.head_events(tpath, 6)}],
    }, ["deadlines are honoured to the second: a sweep at `now` must fire entries with now >= deadline+1s, must not fire "
        "entries with now <= deadline-1s, may do either in between",
        "callbacks are attributed by a tag captured in the closure passed to Insert; no access to the queue's internals",
        "concurrent use of the table: linearizability of recorded histories against the same AckQueue module (here for the table; C20 for every shared object, with the race detector)"],
        violations=v.n_new)
    run.log("validated %d histories, %d rejected (%d known)" % (validated, len(rejected), v.n_known))
    return rc


def replay(run, path):
    rp = json.load(open(path))
    if rp.get("kind") == "history":
        tp = os.path.join(run.scratch, "h.ndjson")
        with open(tp, "w") as f:
            f.write(json.dumps(rp["history"]) + "\n")
        ok, line, detail, _ = run.validate("Lin", "Lin.cfg", tp)
        print("replay: recorded history is %s" % ("linearizable" if ok else "NOT linearizable"))
        if not ok:
            print("VIOLATION property=C04 replay=%s" % path)
        return 0 if ok else 1
    if rp.get("kind") == "list":
        spath = os.path.join(run.scratch, "scenarios.ndjson")
        with open(spath, "w") as f:
            f.write(json.dumps(rp["calls"]) + "\n")
        drv = run.gobuild("explist")
        tpath = os.path.join(run.scratch, "explist.ndjson")
        run.drive(drv, ["-scenarios", spath, "-out", tpath])
        ok, line, detail, _ = run.validate("TimeoutListTrace", "TimeoutListTrace.cfg", tpath)
        if ok:
            print("replay: history accepted (no violation)")
            return 0
        print("replay: rejected at event %d" % line)
        print("VIOLATION property=C04 replay=%s" % path)
        return 1
    spath = os.path.join(run.scratch, "scenarios.ndjson")
    with open(spath, "w") as f:
        f.write(json.dumps(rp["calls"]) + "\n")
    drv = run.gobuild("ackq")
    tpath = os.path.join(run.scratch, "ackq.ndjson")
    run.drive(drv, ["-scenarios", spath, "-out", tpath])
    events = vlib.load_events(tpath)
    ok, line, detail, _ = run.validate("AckQueueTrace", "AckQueueTrace.cfg", tpath)
    if ok:
        print("replay: history accepted (no violation)")
        return 0
    print("replay: rejected at event %d: %s" % (line, json.dumps(events[line - 1])))
    print("VIOLATION property=C04 replay=%s" % path)
    return 1
