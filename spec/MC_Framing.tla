----------------------------- MODULE MC_Framing -----------------------------
(* Every segmentation of every connection's stream, every interleaving of the connections' decoders byte by byte.        *)
(* Shared = TRUE is the negative control: one header buffer for all decoders (what re-using the set-up worker's decoder   *)
(* for the sessions it sets up amounts to) - TLC must find Faithful violated.                                             *)
EXTENDS Framing, TLC
CONSTANTS Conn, Packets, Shared
VARIABLES net, arrived, reg, hbuf, out
vars == <<net, arrived, reg, hbuf, out>>
Key(c) == IF Shared THEN CHOOSE x \in Conn : TRUE ELSE c

Init == /\ net = [c \in Conn |-> EncAll(Packets[c])]
        /\ arrived = [c \in Conn |-> <<>>]
        /\ reg = [c \in Conn |-> Idle]
        /\ hbuf = [c \in Conn |-> <<0, 0>>]
        /\ out = [c \in Conn |-> <<>>]
\* the network hands over the next n bytes of c's stream
Arrive(c, n) == /\ n \in 1..Len(net[c])
                /\ arrived' = [arrived EXCEPT ![c] = @ \o SubSeq(net[c], 1, n)]
                /\ net' = [net EXCEPT ![c] = SubSeq(@, n + 1, Len(@))]
                /\ UNCHANGED <<reg, hbuf, out>>
\* c's decoder reads one byte
Read(c) == /\ arrived[c] # <<>>
           /\ LET res == Consume(reg[c], hbuf[Key(c)], Head(arrived[c])) IN
              /\ reg' = [reg EXCEPT ![c] = res[1]]
              /\ hbuf' = [hbuf EXCEPT ![Key(c)] = res[2]]
              /\ out' = [out EXCEPT ![c] = @ \o res[3]]
           /\ arrived' = [arrived EXCEPT ![c] = Tail(@)]
           /\ UNCHANGED net
Next == \E c \in Conn : Read(c) \/ \E n \in 1..Len(net[c]) : Arrive(c, n)
Spec == Init /\ [][Next]_vars

Faithful == \A c \in Conn : IsPrefix(out[c], Packets[c])
Complete == (\A c \in Conn : net[c] = <<>> /\ arrived[c] = <<>>) => \A c \in Conn : out[c] = Packets[c] /\ reg[c] = Idle
\* the model's constants
MCPackets == [c \in Conn |-> IF c = 1 THEN <<[ty |-> 3, len |-> 3], [ty |-> 12, len |-> 0]>>
                             ELSE <<[ty |-> 1, len |-> 2], [ty |-> 8, len |-> 1]>>]
=============================================================================
