"""C13  Will messages are published exactly when a session dies without DISCONNECT.

(M) Session.tla: WillIffUnclean (MC_Session_cleanup / keepalive).
(G) SessionGen scripts for a session with a will (QoS 0-2, multi-level topic, retain or not) on
    node 1 or 2 in tenant A: connect, subscribe, ping, idle (short / long), then DISCONNECT /
    connection loss / malformed packet / keep-alive expiry / hosting-node failure; watchers with
    exact, '+', '#', non-matching filters on both nodes and in another tenant.
(T) BrokerTrace: the will may be appended only if the session ended without DISCONNECT and only
    under its tenant-prefixed topic; at quiescence every watcher with a matching subscription
    has received it exactly once per matching subscription (or never, after a DISCONNECT).
"""
import vlib
from checks import brokerlib, racelib, sessionlib


def cast(node, q, retain, nodes):
    return {"nodes": nodes, "ka": 10,
            "conns": {1: {"n": node, "client": "mortal", "user": "tenant:A", "will": {"t": ["w", "mortal", "x"], "p": "will-q%d" % q, "q": q, "r": retain},
                          "filters": [{"f": ["w", "#"], "q": 1}]},
                      2: {"n": nodes[-1], "client": "other", "user": "tenant:A", "will": {"t": ["w", "other"], "p": "will-other", "q": 1, "r": False},
                          "filters": [{"f": ["z"], "q": 0}]}},
            "watchers": [{"c": 7, "n": 1, "user": "tenant:A", "fs": [{"f": ["w", "#"], "q": 1}, {"f": ["w", "mortal", "x"], "q": 0}]},
                         {"c": 6, "n": nodes[-1], "user": "tenant:A", "fs": [{"f": ["w", "+", "x"], "q": 2}, {"f": ["nomatch"], "q": 0}]},
                         {"c": 5, "n": 1, "user": "tenant:B", "fs": [{"f": ["#"], "q": 1}]}],
            "publishers": [{"c": 8, "n": 1, "user": "tenant:A", "topics": [["w", "live"]], "q": 0}]}


def three_node_failures():
    """Node 2 hosts will-carrying sessions and fails; the survivors 1 and 3 (each with matching watchers) are told by the
    membership layer in either order, with or without the first survivor's gossip reaching the other one in between."""
    out = []
    for order in ([1, 3], [3, 1]):
        for stagger in (False, True):
            for q, r in ((0, False), (1, True), (2, False)):
                ops = [{"op": "connect", "c": 7, "n": 1, "client": "watch7", "user": "tenant:A", "ka": 60000},
                       {"op": "sub", "c": 7, "id": 1, "fs": [{"f": ["w", "#"], "q": 1}]},
                       {"op": "connect", "c": 6, "n": 3, "client": "watch6", "user": "tenant:A", "ka": 60000},
                       {"op": "sub", "c": 6, "id": 1, "fs": [{"f": ["w", "+", "x"], "q": 2}, {"f": ["w", "mortal", "x"], "q": 0}]},
                       {"op": "connect", "c": 5, "n": 3, "client": "watch5", "user": "tenant:B", "ka": 60000},
                       {"op": "sub", "c": 5, "id": 1, "fs": [{"f": ["#"], "q": 1}]},
                       {"op": "connect", "c": 1, "n": 2, "client": "mortal", "user": "tenant:A", "ka": 10,
                        "will": {"t": ["w", "mortal", "x"], "p": "will-q%d" % q, "q": q, "r": r}},
                       {"op": "connect", "c": 2, "n": 2, "client": "polite", "user": "tenant:A", "ka": 10,
                        "will": {"t": ["w", "polite", "x"], "p": "will-polite", "q": 1, "r": False}},
                       {"op": "send", "c": 2, "kind": "DISCONNECT"},
                       {"op": "peerfail", "n": 2, "ms": 3300, "order": order, "stagger": stagger}]
                if r:
                    ops += [{"op": "connect", "c": 4, "n": 1, "client": "late", "user": "tenant:A", "ka": 60000},
                            {"op": "sub", "c": 4, "id": 1, "fs": [{"f": ["w", "#"], "q": 1}]}]
                ops.append({"op": "quiesce"})
                out.append({"nodes": [1, 2, 3], "ops": ops})
    return out


def late_gossip_then_failure():
    """A will-carrying session connects and ends on node 2 within one gossip interval; node 1 receives the broadcasts newest
    first (the removal of the record before the record); then node 2 fails.  After a DISCONNECT the will is never published,
    after a connection loss exactly once - whatever node 1 has been told, in whatever order."""
    out = []
    for end in ("disconnect", "close"):
        for mode in ("reverse", "auto", "dup"):
            for q, r in ((1, False), (0, True)):
                ops = [{"op": "connect", "c": 7, "n": 1, "client": "watch7", "user": "tenant:A", "ka": 60000},
                       {"op": "sub", "c": 7, "id": 1, "fs": [{"f": ["w", "#"], "q": 1}]},
                       {"op": "gossip", "mode": "hold"},
                       {"op": "connect", "c": 1, "n": 2, "client": "brief", "user": "tenant:A", "ka": 10,
                        "will": {"t": ["w", "brief"], "p": "will-brief-%s" % end, "q": q, "r": r}}]
                ops.append({"op": "send", "c": 1, "kind": "DISCONNECT"} if end == "disconnect" else {"op": "close", "c": 1})
                ops += [{"op": "gossip", "mode": mode}, {"op": "settle"},
                        {"op": "peerfail", "n": 2, "ms": 3300}]
                if r:
                    ops += [{"op": "connect", "c": 4, "n": 1, "client": "late", "user": "tenant:A", "ka": 60000},
                            {"op": "sub", "c": 4, "id": 1, "fs": [{"f": ["w", "+"], "q": 1}]}]
                ops.append({"op": "quiesce"})
                out.append({"nodes": [1, 2], "ops": ops})
    return out


def displaced_wills():
    """A will-carrying session is displaced by a newer session of the same client identifier (same node / other node); then both
    end in various ways.  Whether a displaced session's will is published is left open (displacement is not in C13's list) - but
    never more than once, and the successor's will is published exactly when the successor dies without DISCONNECT."""
    out = []
    for n2 in (1, 2):
        for end2 in ("disconnect", "close", "none"):
            for ping1 in (True, False):
                ops = [{"op": "connect", "c": 7, "n": 1, "client": "watch7", "user": "tenant:A", "ka": 60000},
                       {"op": "sub", "c": 7, "id": 1, "fs": [{"f": ["w", "#"], "q": 1}, {"f": ["w", "same"], "q": 0}]},
                       {"op": "connect", "c": 6, "n": 2, "client": "watch6", "user": "tenant:A", "ka": 60000},
                       {"op": "sub", "c": 6, "id": 1, "fs": [{"f": ["w", "+"], "q": 2}]},
                       {"op": "connect", "c": 1, "n": 1, "client": "same", "user": "tenant:A", "ka": 10,
                        "will": {"t": ["w", "same"], "p": "will-first", "q": 1, "r": False}},
                       {"op": "connect", "c": 2, "n": n2, "client": "same", "user": "tenant:A", "ka": 10,
                        "will": {"t": ["w", "same"], "p": "will-second", "q": 0, "r": False}}]
                if ping1:
                    ops.append({"op": "send", "c": 1, "kind": "PINGREQ"})
                if end2 == "disconnect":
                    ops.append({"op": "send", "c": 2, "kind": "DISCONNECT"})
                elif end2 == "close":
                    ops.append({"op": "close", "c": 2})
                if not ping1:
                    ops.append({"op": "send", "c": 1, "kind": "PINGREQ"})
                if end2 == "none":
                    ops.append({"op": "send", "c": 2, "kind": "PINGREQ"})
                ops.append({"op": "quiesce"})
                out.append({"nodes": [1, 2], "ops": ops})
    return out


def lost_while_answering():
    """the broker notices that the connection is gone only when it writes its answer to the session's last packet: the client has
    stopped reading (the write blocks), sends a packet that needs an answer, and hangs up.  However the loss is noticed - by a
    read or by a write - the session ended without DISCONNECT and its will is owed."""
    out = []
    k = 0
    lasts = [{"op": "send", "kind": "PINGREQ"},
             {"op": "sub", "id": 9, "fs": [{"f": ["late"], "q": 1}]},
             {"op": "pub", "t": ["w", "live"], "p": "last-words", "q": 1, "r": False, "id": 11},
             {"op": "unsub", "id": 10, "fs": [{"f": ["z"], "q": 0}]}]
    for node, nodes in ((1, [1]), (2, [1, 2])):
        for last in lasts:
            for q, r in ((0, False), (1, True)):
                k += 1
                ops = [{"op": "connect", "c": 7, "n": 1, "client": "watch7", "user": "tenant:A", "ka": 60000},
                       {"op": "sub", "c": 7, "id": 1, "fs": [{"f": ["w", "#"], "q": 1}]},
                       {"op": "connect", "c": 5, "n": nodes[-1], "client": "watch5", "user": "tenant:B", "ka": 60000},
                       {"op": "sub", "c": 5, "id": 1, "fs": [{"f": ["#"], "q": 1}]},
                       {"op": "connect", "c": 1, "n": node, "client": "mortal", "user": "tenant:A", "ka": 600,
                        "will": {"t": ["w", "mortal", "x"], "p": "will-lw%d" % k, "q": q, "r": r}},
                       {"op": "sub", "c": 1, "id": 2, "fs": [{"f": ["z"], "q": 0}]},
                       {"op": "stall", "c": 1, "on": True},
                       dict(last, c=1, nowait=True),
                       {"op": "wait", "ms": 120},
                       {"op": "close", "c": 1},
                       {"op": "quiesce"}]
                if k % 2 == 0:      # and a later subscriber gets the retained will, if it was one
                    ops[-1:] = [{"op": "connect", "c": 6, "n": 1, "client": "late6", "user": "tenant:A", "ka": 60000},
                                {"op": "sub", "c": 6, "id": 1, "fs": [{"f": ["w", "+", "x"], "q": 1}]}, {"op": "quiesce"}]
                out.append({"nodes": nodes, "ops": ops})
    return out


def check(run):
    thorough = run.tier == "thorough"
    run.model_check("MC_Session", "MC_Session_keepalive.cfg")
    hs = sessionlib.gen(run, "c13", [1, 2], [1, 2], "N12", 4 if not thorough else 5, ["short", "long", "verylong"],
                        ["disconnect", "close", "malformed"], maxidle=2)
    hs = [h for h in hs if h[0]["op"] == "connect" and h[0]["c"] == 1]
    pf = sessionlib.gen(run, "c13pf", [1, 2], [1, 2], "N12", 4, ["short"], ["disconnect"], maxidle=1, peerfail=True)
    pf = [h for h in pf if any(e["op"] == "peerfail" for e in h) and any(e["op"] == "connect" for e in h)]
    scns = []
    variants = [(1, 0, False, [1]), (1, 1, False, [1, 2]), (1, 2, True, [1, 2])]
    step = max(1, len(hs) * len(variants) // (3000 if thorough else 200))
    k = 0
    for h in hs:
        for (node, q, r, nodes) in variants:
            k += 1
            if k % step:
                continue
            if len(nodes) == 1 and any(e["c"] == 2 and e["op"] != "idle" for e in h):
                continue
            scns.append(sessionlib.build(h, cast(node if len(nodes) > 1 else 1, q, r, nodes)))
    npf = 40 if thorough else 6
    for i, h in enumerate(pf[:: max(1, len(pf) // npf)]):
        # connection 1 lives on node 1 and connection 2 on node 2 (as in the generator); either node may be the one that fails
        scns.append(sessionlib.build(h, cast(1, 1 + i % 2, i % 3 == 0, [1, 2])))
    t3 = three_node_failures()
    scns += t3
    scns += displaced_wills()
    scns += late_gossip_then_failure()
    scns += lost_while_answering()
    run.log("%d will scripts (%d with a node failure on two nodes, %d on three)" % (len(scns), min(len(pf), npf), len(t3)))
    tpath, crashes = brokerlib.execute(run, scns, "c13", shards=14, timeout=3000)
    if crashes:
        raise vlib.Inconclusive("broker driver died: %s" % crashes[0][2][-2000:])
    v = vlib.Verdict(run)
    nev, nscn, validated, rejected, tstates = brokerlib.validate(run, "C13", scns, tpath, v)
    # sessions that end in the middle of their own CONNECT / SUBSCRIBE / teardown (one operation parked at a scheduler gate)
    rn, rparked, rnev, rval, rrej, rts = racelib.check_family(run, "C13", v, tag="c13race", scns=racelib.will_scenarios())
    validated += rval
    tstates += rts
    rc = v.finish()
    vlib.write_evidence(run, {
        "ends_in_the_middle": {"interleavings": rn, "parked_at_their_gate": rparked, "events": rnev, "rejections": rrej,
                               "rule": "a will-carrying client hangs up (or pipelines DISCONNECT) while its own CONNECT is parked where the session is "
                                       "looked up / recorded / registered, or while its SUBSCRIBE or its teardown is parked; RaceTrace.tla: once the node "
                                       "registered the session and the client left without DISCONNECT both watchers get the will, once; never after DISCONNECT"},
        "traces_validated_against_impl": validated,
        "evaluations": len(scns),
        "distinct_nontrivial": len(scns),
        "rule": "scenario = TLC-generated script (depth %d) for a will-carrying session and a second one over connect / subscribe / ping / idle / DISCONNECT / "
                "close / malformed / long silence / node failure x will QoS 0-2, retained or not, hosted on node 1 or 2 x three watchers (two nodes, two "
                "tenants; '#', '+', exact, non-matching filters); plus three-node failures in which the two survivors are told in either order, with or "
                "without gossip delivered in between; plus 12 schedules in which a will-carrying session is displaced (same node / other node) and "
                "both sessions then end in various ways; plus 12 in which a session connects and ends within one gossip interval, the other node hears of "
                "it newest first, in order or with retransmissions, and the hosting node then fails" % (5 if thorough else 4),
        "events_validated": nev, "trace_spec_states": tstates, "rejections": len(rejected),
        "samples": [scns[0]["ops"][7:], scns[-1]["ops"][7:]],
    }, ["displacement by a newer session is not among C13's causes: publishing the will then is allowed, not required",
        "the delivery QoS is the watcher's subscription QoS"],
        violations=v.n_new)
    run.log("validated %d scripts (%d events), %d rejected (%d known)" % (validated, nev, len(rejected), v.n_known))
    return rc


def replay(run, path):
    import json
    if json.load(open(path)).get("kind") == "race":
        return racelib.replay(run, "C13", path)
    return brokerlib.replay(run, "C13", path)
