CONSTANTS Node = {"n1", "n2"} Conn = {"c1", "c2"} Filter = {"f1"} NodeOf <- NodeOf2 ClientOf <- DiffClient HasWill <- AllWill MaxTime = 0 MaxStamp = 7
SPECIFICATION Spec
INVARIANTS NoTraceLeft ClosedAtEnd EndsOnlyForCause WillIffUnclean
CHECK_DEADLOCK FALSE
