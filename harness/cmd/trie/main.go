// Driver for C01 / C07 / C19 at index level.
//
// Scenario (one JSON object per line):
//   {"mode":"tree"|"state", "ops":[{"op":"sub","s":"s1","f":["a","#"],"q":1},{"op":"unsub",...},{"op":"end","s":"s1"}],
//    "topics":[["a"],["a","b"]], "probe":"each"|"end"}
// tree : subscriptions.Tree (Upsert / Walk), no mount point
// state: distributed SubscriptionsState (Create / Delete / DeleteSession / ByPattern) under mount point "mp"
// After every op (probe=each) or after the last one (probe=end) the index is queried for every
// topic of the scenario and the answer recorded as level sequences.
package main

import (
	"bufio"
	"encoding/json"
	"flag"
	"fmt"
	"os"
	"sort"
	"strings"

	"github.com/vx-labs/wasp/v4/subscriptions"
	"verifharness/internal/dstate"
	"verifharness/internal/rec"
)

type op struct {
	Op string   `json:"op"`
	S  string   `json:"s"`
	F  []string `json:"f"`
	Q  int32    `json:"q"`
}
type scenario struct {
	Mode   string     `json:"mode"`
	Ops    []op       `json:"ops"`
	Topics [][]string `json:"topics"`
	Probe  string     `json:"probe"`
}
type got struct {
	S string   `json:"s"`
	F []string `json:"f"`
	Q int32    `json:"q"`
}

func join(l []string) string { return strings.Join(l, "/") }

type index interface {
	sub(s string, f []string, q int32)
	unsub(s string, f []string)
	end(s string)
	query(t []string) []got
}

// ---- raw trie: node data = newline separated "session|qos|filter" entries
type treeIdx struct{ t subscriptions.Tree }

func (x *treeIdx) edit(f []string, fn func([]string) []string) {
	x.t.Upsert([]byte(join(f)), func(old []byte) []byte {
		var items []string
		if len(old) > 0 {
			items = strings.Split(string(old), "\n")
		}
		items = fn(items)
		if len(items) == 0 {
			return nil
		}
		return []byte(strings.Join(items, "\n"))
	})
}
func enc(s string, q int32, f []string) string {
	b, _ := json.Marshal(f)
	return fmt.Sprintf("%s|%d|%s", s, q, b)
}
func (x *treeIdx) sub(s string, f []string, q int32) {
	x.edit(f, func(items []string) []string {
		out := items[:0]
		for _, it := range items {
			if !strings.HasPrefix(it, s+"|") {
				out = append(out, it)
			}
		}
		return append(out, enc(s, q, f))
	})
}
func (x *treeIdx) unsub(s string, f []string) {
	x.edit(f, func(items []string) []string {
		out := items[:0]
		for _, it := range items {
			if !strings.HasPrefix(it, s+"|") {
				out = append(out, it)
			}
		}
		return out
	})
}
func (x *treeIdx) end(s string) { panic("end not supported on the raw tree") }
func (x *treeIdx) query(t []string) []got {
	res := []got{}
	x.t.Walk([]byte(join(t)), func(b []byte) {
		if len(b) == 0 {
			return
		}
		for _, it := range strings.Split(string(b), "\n") {
			p := strings.SplitN(it, "|", 3)
			g := got{S: p[0]}
			fmt.Sscanf(p[1], "%d", &g.Q)
			json.Unmarshal([]byte(p[2]), &g.F)
			res = append(res, g)
		}
	})
	return res
}

// ---- replicated subscription state
type stateIdx struct {
	n     *dstate.Node
	known map[string][]string
}

func (x *stateIdx) pat(f []string) []byte {
	p := "mp/" + join(f)
	x.known[p] = f
	return []byte(p)
}
func (x *stateIdx) sub(s string, f []string, q int32) { x.n.State.Subscriptions().Create(s, x.pat(f), q) }
func (x *stateIdx) unsub(s string, f []string)         { x.n.State.Subscriptions().Delete(s, x.pat(f)) }
func (x *stateIdx) end(s string)                       { x.n.State.Subscriptions().DeleteSession(s) }
func (x *stateIdx) query(t []string) []got {
	res := []got{}
	for _, sub := range x.n.State.Subscriptions().ByPattern([]byte("mp/" + join(t))) {
		f, ok := x.known[string(sub.Pattern)]
		if !ok {
			f = []string{"?unknown pattern", string(sub.Pattern)}
		}
		res = append(res, got{S: sub.SessionID, F: f, Q: sub.QoS})
	}
	return res
}

func sortGot(g []got) {
	sort.Slice(g, func(i, j int) bool {
		if g[i].S != g[j].S {
			return g[i].S < g[j].S
		}
		return join(g[i].F) < join(g[j].F)
	})
}

func probe(r *rec.Recorder, x index, topics [][]string) bool {
	for _, t := range topics {
		var g []got
		panicked := false
		func() {
			defer func() {
				if recover() != nil {
					panicked = true
				}
			}()
			g = x.query(t)
		}()
		if g == nil {
			g = []got{}
		}
		sortGot(g)
		r.Emit(rec.Ev{"op": "q", "t": t, "got": g, "panic": panicked})
		if panicked {
			return false
		}
	}
	return true
}

func run(r *rec.Recorder, n int, s scenario) {
	var x index
	if s.Mode == "tree" {
		x = &treeIdx{t: subscriptions.NewTree()}
	} else {
		x = &stateIdx{n: dstate.New(1), known: map[string][]string{}}
	}
	r.Emit(rec.Ev{"op": "new", "scn": n, "mode": s.Mode})
	for i, o := range s.Ops {
		panicked := false
		func() {
			defer func() {
				if recover() != nil {
					panicked = true
				}
			}()
			switch o.Op {
			case "sub":
				x.sub(o.S, o.F, o.Q)
			case "unsub":
				x.unsub(o.S, o.F)
			case "end":
				x.end(o.S)
			}
		}()
		if panicked {
			// an update that panics is reported as a query event with panic=true (no spec step explains it)
			r.Emit(rec.Ev{"op": "q", "t": o.F, "got": []got{}, "panic": true})
			return
		}
		f := o.F
		if f == nil {
			f = []string{}
		}
		r.Emit(rec.Ev{"op": o.Op, "s": o.S, "f": f, "q": o.Q})
		if s.Probe == "each" || i == len(s.Ops)-1 {
			if !probe(r, x, s.Topics) {
				return
			}
		}
	}
}

func main() {
	scn := flag.String("scenarios", "", "scenario file (NDJSON)")
	out := flag.String("out", "trace.ndjson", "trace output")
	flag.Parse()
	f, err := os.Create(*out)
	if err != nil {
		panic(err)
	}
	defer f.Close()
	r := rec.New(f)
	defer r.Flush()
	in, err := os.Open(*scn)
	if err != nil {
		panic(err)
	}
	sc := bufio.NewScanner(in)
	sc.Buffer(make([]byte, 1<<20), 1<<28)
	n := 0
	for sc.Scan() {
		var s scenario
		if err := json.Unmarshal(sc.Bytes(), &s); err != nil {
			panic(err)
		}
		n++
		run(r, n, s)
	}
	fmt.Fprintf(os.Stderr, "scenarios=%d\n", n)
}
