----------------------------- MODULE LogOffsets -----------------------------
(* The two counters of the commit log behind messages.Log and the cursor that reads it, as *)
(* coded (vx-labs/commitlog: commitLog.WriteEntry, cursor.Read; wasp/messages/store.go:     *)
(* Append, Consume).  This is the mechanism of D28 (and of D27): the log advances its       *)
(* offset for an entry its segment REFUSES (more than MaxEntrySize bytes); the cursor,      *)
(* finding the offset ahead of the records it has read, takes the difference for a segment  *)
(* roll and reads the active segment again, counting offsets on.  Guard = TRUE is the       *)
(* repaired messages.Log.Append (an oversized message is refused before the log sees it),   *)
(* Guard = FALSE the code as it was: the negative control.                                  *)
EXTENDS Integers, Sequences, FiniteSets
CONSTANTS Msgs, Big, Guard, MaxSteps      \* Big \subseteq Msgs: the messages too large for one entry
VARIABLES stored,   \* records in the active segment, in order
          off,      \* commitLog.currentOffset
          pos,      \* cursor: next record of the segment to read
          label,    \* cursor: the offset it will announce for the next record
          handed,   \* history: sequence of <<offset announced, message>>
          sent,     \* messages offered to Append so far
          acked     \* messages whose Append returned nil
vars == <<stored, off, pos, label, handed, sent, acked>>
Init == stored = <<>> /\ off = 0 /\ pos = 0 /\ label = 0 /\ handed = <<>> /\ sent = {} /\ acked = {}
\* messages.Log.Append(m)
AppendMsg(m) ==
  /\ m \notin sent /\ sent' = sent \cup {m}
  /\ IF m \in Big /\ Guard
     THEN UNCHANGED <<stored, off, acked>>                                   \* refused by wasp: the log never sees it
     ELSE IF m \in Big
          THEN off' = off + 1 /\ UNCHANGED <<stored, acked>>                 \* refused by the segment, counted by the log (as coded)
          ELSE stored' = Append(stored, m) /\ off' = off + 1 /\ acked' = acked \cup {m}
  /\ UNCHANGED <<pos, label, handed>>
\* the consumer's cursor
ReadNext ==
  /\ Len(handed) < MaxSteps
  /\ IF pos < Len(stored)
     THEN /\ handed' = Append(handed, <<label, stored[pos + 1]>>) /\ pos' = pos + 1 /\ label' = label + 1
          /\ UNCHANGED <<stored, off, sent, acked>>
     ELSE /\ off > label                     \* "more to read, and this segment is exhausted: it must have rolled" - start it again
          /\ pos' = 0 /\ UNCHANGED <<stored, off, label, handed, sent, acked>>
Next == (\E m \in Msgs : AppendMsg(m)) \/ ReadNext
\* C15 / C02: what is handed over under offset o is the o-th message the log accepted, each once, in log order
Faithful == \A i \in 1..Len(handed) : /\ handed[i][1] = i - 1
                                      /\ handed[i][1] < Len(stored) /\ stored[handed[i][1] + 1] = handed[i][2]
Aligned == off = Len(stored)
\* nothing accepted is left behind for ever: when the cursor has nothing to do, everything accepted was handed over
Drained == (pos = Len(stored) /\ off <= label) => {handed[i][2] : i \in 1..Len(handed)} = acked
=============================================================================
