----------------------------- MODULE MsgLogTrace -----------------------------
(* Trace validation for C15: child processes consuming the real messages.Log are     *)
(* SIGKILLed at exact points and restarted; every recorded step (state file value at *)
(* start, every offset handed to the callback, callback return, offset write,        *)
(* truncation check, kill) must be a step of the consumer of MsgLog, with the code's *)
(* constants (segments of 500, margin 300, threshold 1500, period 1000).             *)
EXTENDS Integers, FiniteSets, Sequences, TLC, Json
VARIABLES l, len, base, persisted, cursor, phase, cur, up
M == INSTANCE MsgLog WITH Seg <- 500, Margin <- 300, Thresh <- 1500, Period <- 1000, Batch <- 10, QCap <- 25,
                          MaxLen <- 0, MaxRuns <- 0, run <- 0, batch <- <<>>, wq <- <<>>, handed <- <<>>, lost <- {}
Trace == ndJsonDeserialize("trace.ndjson")
Ev == Trace[l]
tvars == <<l, len, base, persisted, cursor, phase, cur, up>>
TInit == TLCSet(1, 0) /\ l = 1 /\ len = 0 /\ base = 0 /\ persisted = 0 /\ cursor = 0 /\ phase = "idle" /\ cur = 0 /\ up = FALSE
Step ==
  /\ l <= Len(Trace) /\ l' = l + 1
  /\ \/ /\ Ev.op = "new"
        /\ len' = 0 /\ base' = 0 /\ persisted' = 0 /\ cursor' = 0 /\ phase' = "idle" /\ cur' = 0 /\ up' = FALSE
     \/ /\ Ev.op = "start" /\ ~up
        /\ Ev.persisted = persisted                          \* the state file holds what the last Persist wrote
        /\ up' = TRUE /\ cursor' = persisted /\ phase' = "idle" \* Restart: resume from the stored offset
        /\ base' = M!TruncTo(base, persisted)
        /\ UNCHANGED <<len, persisted, cur>>
     \/ /\ Ev.op = "append" /\ len' = len + Ev.n
        /\ UNCHANGED <<base, persisted, cursor, phase, cur, up>>
     \/ /\ Ev.op = "append.refused"                          \* a message the log refuses is not in the log: nothing changes,
        /\ UNCHANGED <<len, base, persisted, cursor, phase, cur, up>>   \* in particular no offset is used up by it
     \/ /\ Ev.op = "handed" /\ up /\ phase = "idle"
        /\ Ev.off = cursor /\ Ev.off < len /\ Ev.off >= base /\ Ev.intact    \* in log order, no gap, entry still there
        /\ phase' = "cb" /\ cur' = Ev.off /\ cursor' = Ev.off + 1
        /\ UNCHANGED <<len, base, persisted, up>>
     \/ /\ Ev.op = "cb.ret" /\ up /\ phase = "cb" /\ Ev.off = cur /\ phase' = "ret"
        /\ UNCHANGED <<len, base, persisted, cursor, cur, up>>
     \/ /\ Ev.op = "cb.fail" /\ up /\ phase = "cb" /\ Ev.off = cur /\ phase' = "idle"   \* the callback refused the entry: nothing is recorded for it
        /\ UNCHANGED <<len, base, persisted, cursor, cur, up>>
     \/ /\ Ev.op = "persisted" /\ up /\ phase = "ret" /\ Ev.off = cur /\ persisted' = cur /\ phase' = "per"
        /\ UNCHANGED <<len, base, cursor, cur, up>>
     \/ /\ Ev.op = "truncated" /\ up /\ phase = "per" /\ Ev.off = cur /\ base' = M!TruncTo(base, cur) /\ phase' = "idle"
        /\ UNCHANGED <<len, persisted, cursor, cur, up>>
     \/ /\ Ev.op = "kill" /\ up /\ up' = FALSE /\ phase' = "idle"
        /\ UNCHANGED <<len, base, persisted, cursor, cur>>
     \/ /\ Ev.op = "exit" /\ up /\ phase = "idle" /\ up' = FALSE
        /\ UNCHANGED <<len, base, persisted, cursor, phase, cur>>
     \/ /\ Ev.op = "end" /\ ~up /\ Ev.len = len
        /\ cursor = len                                       \* quiescent: every appended entry was handed over
        /\ UNCHANGED <<len, base, persisted, cursor, phase, cur, up>>
TSpec == TInit /\ [][Step]_tvars
HighWater == TLCSet(1, IF TLCGet(1) > l THEN TLCGet(1) ELSE l)
Accepted == IF TLCGet(1) - 1 = Len(Trace) THEN PrintT("TRACE_ACCEPTED")
            ELSE PrintT(<<"REJECTED_AT_LINE", TLCGet(1), Trace[TLCGet(1)]>>) /\ FALSE
=============================================================================
