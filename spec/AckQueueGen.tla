---------------------------- MODULE AckQueueGen ----------------------------
(* Scenario generator for C04/C03: call sequences over the Queue interface, guided  *)
(* by the model state so that the interesting calls dominate: acknowledgements of    *)
(* every packet type for keys that are registered (one type for unknown keys),       *)
(* duplicate registrations, registrations whose deadlines coincide or fall into the  *)
(* same second, sweeps before / between / after them.  Only calls are recorded;      *)
(* results are left to the real queue.  The model here resolves its own              *)
(* nondeterminism (sweep window) by firing exactly Must - it only steers generation. *)
EXTENDS AckQueue, Json
CONSTANTS Depth, GenKinds, GenAcks, Pre      \* Pre: a sequence of registrations every scenario starts with
VARIABLES hist
Call(c) == hist' = Append(hist, c)
RECURSIVE Preload(_, _)
Preload(en, i) == IF i > Len(Pre) THEN en
                  ELSE Preload(InsertNew(en, <<Pre[i].s, Pre[i].id>>, Pre[i].kind, Pre[i].d, i), i + 1)
GInit == /\ entries = Preload(<<>>, 1) /\ outcome = <<>> /\ ntag = Len(Pre) + 1
         /\ hist = [i \in 1..Len(Pre) |-> [op |-> "insert", s |-> Pre[i].s, id |-> Pre[i].id, kind |-> Pre[i].kind, d |-> Pre[i].d, ty |-> "", now |-> 0]]
NoPre == <<>>
PreBucket(d1, d2, d3) == << [s |-> "s1", id |-> 1, kind |-> "pub1", d |-> d1], [s |-> "s1", id |-> 2, kind |-> "pub1", d |-> d2],
                            [s |-> "s1", id |-> 3, kind |-> "pub1", d |-> d3] >>
Pre123 == PreBucket(5000, 5100, 5400)
Pre132 == PreBucket(5000, 5400, 5100)
Pre213 == PreBucket(5100, 5000, 5400)
Pre231 == PreBucket(5100, 5400, 5000)
Pre312 == PreBucket(5400, 5000, 5100)
Pre321 == PreBucket(5400, 5100, 5000)
GNext == /\ Len(hist) < Depth + Len(Pre)
         /\ \/ \E k \in Keys, kind \in GenKinds, d \in Deadlines :
                  Insert(k, kind, d) /\ Call([op |-> "insert", s |-> k[1], id |-> k[2], kind |-> kind, d |-> d, ty |-> "", now |-> 0])
            \/ \E k \in Keys, ty \in GenAcks :
                  /\ ((\E x \in Dom(entries) : x[1] = k[1] /\ x[2] = k[2]) \/ (ty = "PUBACK" /\ k[2] = 1))
                  /\ Ack(k, ty) /\ Call([op |-> "ack", s |-> k[1], id |-> k[2], kind |-> "", d |-> 0, ty |-> ty, now |-> 0])
            \/ \E now \in Sweeps :
                  Sweep(now, Must(entries, now)) /\ Call([op |-> "sweep", s |-> "", id |-> 0, kind |-> "", d |-> 0, ty |-> "", now |-> now])
GSpec == GInit /\ [][GNext]_<<vars, hist>>
Dump == (Len(hist) = Depth + Len(Pre)) => PrintT(<<"BEHAV", ToJson(hist)>>)
=============================================================================
