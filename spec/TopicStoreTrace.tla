--------------------------- MODULE TopicStoreTrace ---------------------------
(* Trace validation for C19: after every recorded operation the real store must      *)
(* answer exact-key lookups, Count and Iterate exactly like the map TopicStore.      *)
EXTENDS Integers, FiniteSets, Sequences, TLC, Json
VARIABLES l, store, snap
S == INSTANCE TopicStore WITH K <- 0, Vals <- {}
Trace == ndJsonDeserialize("trace.ndjson")
Ev == Trace[l]
TInit == TLCSet(1, 0) /\ l = 1 /\ store = <<>> /\ snap = S!NoSnap
\* multiset equality of a recorded list with the non-empty values of the map
Occ(seq, v) == Cardinality({i \in 1..Len(seq) : seq[i] = v})
SameBag(seq, st) == /\ Len(seq) = S!CountOf(st)
                    /\ \A v \in {seq[i] : i \in 1..Len(seq)} : Occ(seq, v) = Cardinality({k \in DOMAIN st : st[k] = v})
Step == /\ l <= Len(Trace) /\ l' = l + 1
        /\ \/ Ev.op = "new"  /\ store' = [k \in 1..Ev.nkeys |-> S!None] /\ snap' = S!NoSnap
           \/ Ev.op = "w"    /\ ~Ev.panic /\ store' = S!WriteNew(store, Ev.k, Ev.v) /\ UNCHANGED snap
           \/ Ev.op = "rm"   /\ ~Ev.panic /\ store' = S!RemoveNew(store, Ev.k) /\ UNCHANGED snap
           \/ Ev.op = "dump" /\ ~Ev.panic /\ snap' = store /\ UNCHANGED store
           \/ Ev.op = "load" /\ ~Ev.panic /\ snap # S!NoSnap /\ store' = snap /\ UNCHANGED snap
           \/ /\ Ev.op = "probe" /\ ~Ev.panic
              /\ \A k \in DOMAIN store : Ev.vals[k] = store[k]              \* exact-key lookups
              /\ (Ev.hascount => Ev.count = S!CountOf(store))               \* Count (the subscription tree has none)
              /\ SameBag(Ev.iter, store)                                      \* Iterate
              /\ UNCHANGED <<store, snap>>
TSpec == TInit /\ [][Step]_<<l, store, snap>>
HighWater == TLCSet(1, IF TLCGet(1) > l THEN TLCGet(1) ELSE l)
Accepted == IF TLCGet(1) - 1 = Len(Trace) THEN PrintT("TRACE_ACCEPTED")
            ELSE PrintT(<<"REJECTED_AT_LINE", TLCGet(1), Trace[TLCGet(1)]>>) /\ FALSE
=============================================================================
