"""Shared machinery for the wasp checks: scratch handling, Go builds, TLC runs,
trace validation with located rejections, known findings, evidence files.

Verdict rules (DESIGN.md 3.5): a violation is only ever reported for behaviour of the
real code (a recorded trace TLC rejects / a replay that differs).  Build failures, dead
drivers, TLC errors, time-outs are Inconclusive (exit 2), never a VIOLATION.
"""
import json
import os
import re
import shutil
import subprocess
import sys
import tempfile
import time

VERIF = os.path.dirname(os.path.dirname(os.path.abspath(__file__)))
REPO = os.environ.get("VERIF_REPO", "/repo")
JARS = "/opt/veriftools/tla/tla2tools.jar:/opt/veriftools/tla/CommunityModules-deps.jar"
NCPU = os.cpu_count() or 4


class Inconclusive(Exception):
    pass


def goenv():
    e = dict(os.environ)
    e.update(GOFLAGS="-mod=mod", GOPROXY="off", GOSUMDB="off", GOTOOLCHAIN="local", CGO_ENABLED=e.get("CGO_ENABLED", "1"))
    return e


class TlcResult:
    def __init__(self, rc, out, wall):
        self.rc = rc
        self.out = out
        self.wall = wall
        m = re.findall(r"(\d+) states generated, (\d+) distinct states found", out)
        self.generated = int(m[-1][0]) if m else 0
        self.distinct = int(m[-1][1]) if m else 0
        self.violated = re.findall(r"Invariant (\S+) is violated", out) + re.findall(
            r"Action property (\S+) is violated", out)
        self.error = ("Error:" in out) or rc not in (0,)
        m = re.search(r"The depth of the complete state graph search is (\d+)", out)
        self.depth = int(m.group(1)) if m else 0

    def printed(self, tag):
        """values printed with PrintT(<<tag, "string">>) -> list of the quoted strings (raw, with quotes)."""
        pat = re.compile(r'<<\s*"%s",\s*("(?:[^"\\]|\\.)*")\s*>>' % re.escape(tag))
        return pat.findall(self.out)


class Run:
    def __init__(self, prop, tier="quick", seed=1):
        self.prop = prop
        self.tier = tier
        self.seed = seed
        self.t0 = time.time()
        base = os.environ.get("VERIF_SCRATCH", "/var/tmp")
        os.makedirs(base, exist_ok=True)
        self.scratch = tempfile.mkdtemp(prefix="waspverif-%s-" % prop, dir=base)
        self.spec = os.path.join(self.scratch, "spec")
        shutil.copytree(os.path.join(VERIF, "spec"), self.spec,
                        ignore=shutil.ignore_patterns("states", "*_TTrace_*", ".tlacache"))
        self.bin = os.path.join(self.scratch, "bin")
        os.makedirs(self.bin)
        self.built = {}
        self.notes = []
        self.mc = []          # (name, generated, distinct)
        self.keep = os.environ.get("VERIF_KEEP") == "1"

    def cleanup(self):
        if not self.keep:
            shutil.rmtree(self.scratch, ignore_errors=True)

    def log(self, *a):
        print("[%s %6.1fs]" % (self.prop, time.time() - self.t0), *a, flush=True)

    # ---------------------------------------------------------------- Go
    def gobuild(self, name, race=False, tags="verif", module="harness"):
        key = (name, race, tags, module)
        if key in self.built:
            return self.built[key]
        out = os.path.join(self.bin, name + ("-race" if race else "") + ("-" + tags.replace(" ", "-") if tags != "verif" else ""))
        cmd = ["go", "build", "-tags", tags, "-o", out]
        if os.environ.get("VERIF_COVER"):
            # development aid: statement coverage of /repo by the drivers (run with GOCOVERDIR set; see bin/coverage)
            m = "github.com/vx-labs/wasp/v4/"
            cmd += ["-cover", "-coverpkg=" + ",".join(m + x for x in (
                "wasp", "wasp/ack", "wasp/auth", "wasp/distributed", "wasp/expiration", "wasp/messages", "wasp/sessions",
                "subscriptions", "topics", "crdt", "format", "rpc"))]
        if race:
            cmd.append("-race")
        cmd.append("./cmd/" + name)
        p = subprocess.run(cmd, cwd=os.path.join(VERIF, module), env=goenv(),
                           stdout=subprocess.PIPE, stderr=subprocess.STDOUT, text=True)
        if p.returncode != 0:
            raise Inconclusive("go build %s failed:\n%s" % (name, p.stdout[-4000:]))
        self.built[key] = out
        return out

    def drive(self, binary, args, stdin=None, timeout=600, env=None, ok_codes=(0,)):
        e = dict(os.environ)
        e["VERIF_SEED"] = str(self.seed)
        if env:
            e.update(env)
        try:
            p = subprocess.run([binary] + list(args), input=stdin, stdout=subprocess.PIPE,
                               stderr=subprocess.PIPE, text=True, timeout=timeout, env=e, cwd=self.scratch)
        except subprocess.TimeoutExpired:
            raise Inconclusive("driver %s timed out after %ss" % (os.path.basename(binary), timeout))
        if p.returncode not in ok_codes:
            raise Inconclusive("driver %s exited %d:\n%s" % (os.path.basename(binary), p.returncode,
                                                             (p.stderr or "")[-4000:]))
        return p

    # ---------------------------------------------------------------- TLC
    def tlc(self, module, cfg=None, workers=None, simulate=None, depth=None, timeout=900,
            deque=False, heap="6g", extra=(), name=None, allow_violation=False, cwd=None):
        cfg = cfg or (module + ".cfg")
        cwd = cwd or self.spec
        meta = tempfile.mkdtemp(prefix="meta-", dir=self.scratch)
        cmd = ["java", "-XX:+UseParallelGC", "-Xmx" + heap, "-Xss64m"]
        if deque:
            cmd.append("-Dtlc2.tool.queue.IStateQueue=StateDeque")
        cmd += ["-cp", JARS, "tlc2.TLC", "-metadir", meta, "-config", cfg,
                "-workers", str(workers or NCPU)]
        if simulate:
            cmd += ["-simulate", simulate]
            if depth:
                cmd += ["-depth", str(depth)]
        cmd += list(extra)
        cmd.append(module + ".tla")
        t = time.time()
        try:
            p = subprocess.run(cmd, cwd=cwd, stdout=subprocess.PIPE, stderr=subprocess.STDOUT,
                               text=True, timeout=timeout)
        except subprocess.TimeoutExpired as ex:
            subprocess.run(["pkill", "-f", meta], check=False)
            raise Inconclusive("TLC %s/%s timed out after %ss" % (module, cfg, timeout))
        finally:
            shutil.rmtree(meta, ignore_errors=True)
            for f in os.listdir(cwd):
                if "_TTrace_" in f:
                    os.unlink(os.path.join(cwd, f))
        r = TlcResult(p.returncode, p.stdout, time.time() - t)
        if name:
            self.mc.append({"name": name, "generated": r.generated, "distinct": r.distinct,
                            "depth": r.depth, "wall_s": round(r.wall, 1)})
        if p.returncode != 0 and not allow_violation:
            raise Inconclusive("TLC %s/%s exited %d:\n%s" % (module, cfg, p.returncode, p.stdout[-3000:]))
        return r

    def model_check(self, module, cfg, name=None, **kw):
        """Exhaustive check of the design model.  A counterexample here is a defect of the
        *model* (rule V1): inconclusive, never a violation of the code.  In the thorough tier TLC also
        reports coverage; actions and sub-expressions never evaluated are listed in the evidence
        (an action never taken means the property was not exercised by the model)."""
        extra = list(kw.pop("extra", ()))
        cov = self.tier == "thorough" and os.environ.get("VERIF_COVERAGE", "1") == "1"
        if cov:
            extra += ["-coverage", "1"]
        r = self.tlc(module, cfg, name=name or cfg, extra=extra, **kw)
        if cov:
            zero = sorted(set(re.findall(r"^<(\w+) line \d+, col \d+ to line \d+, col \d+ of module \w+>: 0:0", r.out, re.M)))
            self.mc[-1]["actions_never_taken"] = zero
        self.log("MC %s: %d generated, %d distinct, depth %d, %.1fs" % (cfg, r.generated, r.distinct, r.depth, r.wall))
        return r

    def negative_control(self, module, cfg, expected):
        """A deliberately broken variant of the design model must violate `expected`; otherwise the model
        (or the property) is vacuous and the check refuses to go on."""
        r = self.tlc(module, cfg, allow_violation=True, name="negative-control:" + cfg)
        if expected not in r.violated:
            raise Inconclusive("negative control %s did not violate %s (got %s)" % (cfg, expected, r.violated))
        self.log("negative control %s violates %s as required" % (cfg, expected))
        return r

    def prove(self, module, timeout=240):
        """Unbounded facts about pure operators, discharged by TLAPS (tlapm).  Supplementary: the result is
        reported in the evidence and never decides a verdict (tlapm missing or timing out is only noted)."""
        exe = shutil.which("tlapm")
        rec = {"name": "tlaps:" + module, "generated": 0, "distinct": 0, "depth": 0}
        if not exe:
            rec["result"] = "tlapm not installed"
        else:
            d = tempfile.mkdtemp(prefix="tlaps-", dir=self.scratch)
            shutil.copy(os.path.join(self.spec, module + ".tla"), d)
            t = time.time()
            try:
                p = subprocess.run([exe, "--threads", str(NCPU), module + ".tla"], cwd=d, stdout=subprocess.PIPE,
                                   stderr=subprocess.STDOUT, text=True, timeout=timeout)
                m = re.search(r"All (\d+) obligations? proved", p.stdout)
                rec["result"] = ("all %s obligations proved" % m.group(1)) if m else "NOT all proved: " + p.stdout[-400:]
            except subprocess.TimeoutExpired:
                rec["result"] = "timed out after %ds" % timeout
            rec["wall_s"] = round(time.time() - t, 1)
            shutil.rmtree(d, ignore_errors=True)
        self.mc.append(rec)
        self.log("TLAPS %s: %s" % (module, rec["result"]))
        return rec

    # ---------------------------------------------------------------- trace validation
    def validate(self, module, cfg, ndjson, timeout=900, deque=False, heap="4g", fname="trace.ndjson"):
        """Run the trace spec over one NDJSON file (in a private copy of the spec directory, so
        that several validations can run concurrently).  Returns (accepted, line, detail, TlcResult)."""
        cwd = tempfile.mkdtemp(prefix="tv-", dir=self.scratch)
        try:
            for f in os.listdir(self.spec):
                if f.endswith(".tla") or f.endswith(".cfg"):
                    shutil.copyfile(os.path.join(self.spec, f), os.path.join(cwd, f))
            os.link(ndjson, os.path.join(cwd, fname)) if os.stat(ndjson).st_dev == os.stat(cwd).st_dev \
                else shutil.copyfile(ndjson, os.path.join(cwd, fname))
            r = self.tlc(module, cfg, workers=1, timeout=timeout, deque=deque, heap=heap, allow_violation=True, cwd=cwd)
        finally:
            shutil.rmtree(cwd, ignore_errors=True)
        m = re.search(r'<<\s*"REJECTED_AT_LINE",\s*(\d+)', r.out)
        if m:
            return False, int(m.group(1)), r.out[-2500:], r
        if r.violated:
            # an invariant failed on a state reached while following the trace
            m2 = re.findall(r'<<\s*"AT_LINE",\s*(\d+)\s*>>', r.out)
            line = int(m2[-1]) if m2 else -1
            return False, line, "invariant %s violated\n%s" % (r.violated, r.out[-2500:]), r
        if r.rc != 0:
            raise Inconclusive("trace validation %s failed to run (rc %d):\n%s" % (module, r.rc, r.out[-3000:]))
        if "TRACE_ACCEPTED" not in r.out:
            raise Inconclusive("trace validation %s: no verdict in output:\n%s" % (module, r.out[-3000:]))
        return True, 0, "", r


def tla_json(s):
    """a TLA+ string value as printed by TLC (with quotes) holding JSON -> python object"""
    return json.loads(json.loads(s))


def gen_behaviours(run, module, cfg_name, cfg_text, simulate=None, depth=None, tag="BEHAV", timeout=1800, workers=1):
    """Run a generator spec; -> de-duplicated list of behaviours (parsed JSON)."""
    with open(os.path.join(run.spec, cfg_name), "w") as f:
        f.write(cfg_text)
    # simulation is seeded from the run's seed, so that a run is reproducible from VERIF_SEED
    extra = ["-seed", str(run.seed)] if simulate else []
    r = run.tlc(module, cfg_name, workers=workers, simulate=simulate, depth=depth, name="gen:" + cfg_name, timeout=timeout, extra=extra)
    seen = set()
    res = []
    for s in r.printed(tag):
        if s in seen:
            continue
        seen.add(s)
        res.append(tla_json(s))
    return res


def load_events(path):
    with open(path) as f:
        return [json.loads(l) for l in f if l.strip()]


def split_scenarios(events, marker=lambda e: e.get("op") == "new"):
    """-> list of (first_line_1based, [events]) ; every scenario starts with a marker event."""
    res = []
    for i, e in enumerate(events):
        if marker(e) or not res:
            res.append((i + 1, []))
        res[-1][1].append(e)
    return res


def _validate_chunk(run, module, cfg, scns, cid, max_rejections, kw):
    """scns: list of scenarios, each a list of raw NDJSON lines."""
    rejected = []
    remaining = scns
    validated = 0
    tlc_states = 0
    rounds = 0
    while remaining:
        rounds += 1
        path = os.path.join(run.scratch, "batch-%d-%d.ndjson" % (cid, rounds))
        with open(path, "w") as f:
            for s in remaining:
                f.writelines(s)
        try:
            ok, line, detail, r = run.validate(module, cfg, path, **kw)
        finally:
            os.unlink(path)
        tlc_states += r.generated
        if ok:
            validated += len(remaining)
            break
        acc = 0
        idx = None
        for i, s in enumerate(remaining):
            if acc + len(s) >= line:
                idx = i
                break
            acc += len(s)
        if idx is None:
            raise Inconclusive("rejection line %d outside trace (%d lines)\n%s" % (line, acc, detail))
        rejected.append({"scenario": [json.loads(x) for x in remaining[idx]], "line": line - acc, "detail": detail})
        validated += idx
        remaining = remaining[idx + 1:]
        if len(rejected) >= max_rejections:
            break
    return validated, rejected, tlc_states


def validate_scenarios(run, module, cfg, events, max_rejections=8, marker='"op":"new"', chunk_events=250000,
                       jobs=None, **kw):
    """Validate a concatenation of scenarios with the trace spec `module`.
    `events` is the path of an NDJSON trace (or a list of event dicts); a scenario starts at every
    line containing `marker`.  The scenarios are cut into chunks of about chunk_events events which
    are validated by concurrent TLC processes; on a rejection the scenario is recorded and dropped
    and the rest of its chunk is still checked, so that one failure does not hide the others.
    -> (n_validated, [ {scenario:[events], line:int (1-based, in scenario), detail:str} ], tlc_states)"""
    from concurrent.futures import ThreadPoolExecutor
    if isinstance(events, str):
        with open(events) as f:
            lines = f.readlines()
    else:
        lines = [json.dumps(e, separators=(",", ":")) + "\n" for e in events]
    chunks, cur, n = [], [], 0
    scn = None
    for ln in lines:
        if marker in ln or scn is None:
            if n >= chunk_events:
                chunks.append(cur)
                cur, n = [], 0
            scn = []
            cur.append(scn)
        scn.append(ln)
        n += 1
    if cur:
        chunks.append(cur)
    jobs = jobs or max(1, min(NCPU // 2, 8))
    validated, rejected, states = 0, [], 0
    with ThreadPoolExecutor(max_workers=jobs) as ex:
        futs = [ex.submit(_validate_chunk, run, module, cfg, c, i, max_rejections, kw) for i, c in enumerate(chunks)]
        for f in futs:
            v, rj, st = f.result()
            validated += v
            rejected += rj
            states += st
    return validated, rejected[:max_rejections * 2], states


def count_lines(path, marker=None):
    n = m = 0
    with open(path) as f:
        for ln in f:
            n += 1
            if marker and marker in ln:
                m += 1
    return n, m


def head_events(path, k=8):
    out = []
    with open(path) as f:
        for ln in f:
            out.append(json.loads(ln))
            if len(out) >= k:
                break
    return out


# -------------------------------------------------------------------- known findings
def known_findings():
    p = os.path.join(VERIF, "known_findings.json")
    if not os.path.exists(p):
        return {"findings": [], "fixed": []}
    with open(p) as f:
        return json.load(f)


class Verdict:
    """Collects violations of one check run, classifies them against known_findings.json
    (read-only), prints KNOWN-FINDING / VIOLATION lines, decides the exit code."""

    def __init__(self, run):
        self.run = run
        self.violations = []   # (signature, description, replay dict)
        self.known = [f for f in known_findings().get("findings", []) if f.get("property") == run.prop]

    def add(self, signature, description, replay):
        self.violations.append((signature, description, replay))

    def finish(self):
        """-> exit code"""
        outdir = os.path.join(VERIF, "out", self.run.prop)
        rc = 0
        seen_known = set()
        n_new = 0
        for sig, desc, replay in self.violations:
            k = [f for f in self.known if f.get("signature") == sig]
            if k:
                if sig not in seen_known:
                    seen_known.add(sig)
                    print("KNOWN-FINDING: property=%s %s" % (self.run.prop, k[0].get("description", sig)))
                continue
            n_new += 1
            if n_new > 5:
                continue
            os.makedirs(outdir, exist_ok=True)
            import hashlib
            h = hashlib.sha1(json.dumps(replay, sort_keys=True, default=str).encode()).hexdigest()[:12]
            path = os.path.join(outdir, "%s.json" % h)
            replay = dict(replay)
            replay.update(property=self.run.prop, signature=sig, description=desc)
            with open(path, "w") as f:
                json.dump(replay, f, indent=1, default=str)
            print("VIOLATION property=%s replay=%s" % (self.run.prop, path))
            print("  signature: %s" % sig)
            print("  %s" % desc[:1500])
            rc = 1
        self.n_new = n_new
        self.n_known = len(self.violations) - n_new
        return rc


# -------------------------------------------------------------------- evidence
def write_evidence(run, coverage, assumptions, violations=0, level="model_checking"):
    states = sum(m["distinct"] for m in run.mc)
    trans = sum(m["generated"] for m in run.mc)
    cov = dict(coverage)
    cov.setdefault("states", states)
    cov.setdefault("transitions", trans)
    cov.setdefault("traces_validated_against_impl", 0)
    cov["model_checking_runs"] = run.mc
    if run.notes:
        cov["notes"] = run.notes
    ev = {
        "property_id": run.prop,
        "tier": run.tier,
        "seed": int(run.seed),
        "level": level,
        "coverage": cov,
        "assumptions": assumptions,
        "wall_s": round(time.time() - run.t0, 1),
        "violations": violations,
    }
    os.makedirs(os.path.join(VERIF, "evidence"), exist_ok=True)
    with open(os.path.join(VERIF, "evidence", run.prop + ".json"), "w") as f:
        json.dump(ev, f, indent=1, default=str)
    return ev
