--------------------------- MODULE SubIndexTrace ---------------------------
(* Trace validation for C01 (index levels): after any recorded history of            *)
(* subscribe / unsubscribe / session-end operations, what the real index returns for *)
(* a topic must be exactly the active subscriptions whose filter Matches it, each    *)
(* once.  Used for the raw trie (subscriptions.Tree.Walk), for                       *)
(* SubscriptionsState.ByPattern, and for the retained store (topics.Store.Match,     *)
(* roles of topic and filter swapped: event "rq").                                   *)
EXTENDS Integers, FiniteSets, Sequences, TLC, Json
VARIABLES l, active
I == INSTANCE SubIndex WITH Sessions <- {}, Filters <- {}, QoSes <- {}
Trace == ndJsonDeserialize("trace.ndjson")
Ev == Trace[l]
ToSet(s) == {s[i] : i \in 1..Len(s)}
TInit == TLCSet(1, 0) /\ l = 1 /\ active = {}
Step == /\ l <= Len(Trace) /\ l' = l + 1
        /\ \/ Ev.op = "new"   /\ active' = {}
           \/ Ev.op = "sub"   /\ active' = I!SubNew(active, Ev.s, Ev.f, Ev.q)
           \/ Ev.op = "unsub" /\ active' = I!UnsubNew(active, Ev.s, Ev.f)
           \/ Ev.op = "end"   /\ active' = I!EndNew(active, Ev.s)
           \/ /\ Ev.op = "q" /\ ~Ev.panic
              /\ Len(Ev.got) = Cardinality(ToSet(Ev.got))           \* each matching subscription once
              /\ ToSet(Ev.got) = I!Reached(active, Ev.t)
              /\ UNCHANGED active
TSpec == TInit /\ [][Step]_<<l, active>>
HighWater == TLCSet(1, IF TLCGet(1) > l THEN TLCGet(1) ELSE l)
Accepted == IF TLCGet(1) - 1 = Len(Trace) THEN PrintT("TRACE_ACCEPTED")
            ELSE PrintT(<<"REJECTED_AT_LINE", TLCGet(1), Trace[TLCGet(1)]>>) /\ FALSE
=============================================================================
