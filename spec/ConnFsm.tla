------------------------------- MODULE ConnFsm -------------------------------
(* The connection state machine as C18 sees it (wasp/conn.go setup, processSession;    *)
(* wasp/packets.go Process): whatever a client sends - any control packet type in       *)
(* either phase, or bytes that are no packet at all - the broker keeps running, at most *)
(* that client's connection ends, and a witness client keeps being served.              *)
(*   phase[c] : "open" (no CONNECT yet) | "live" | "ended"                              *)
(* Which byte strings realise "malformed" is outside TLA+; the harness supplies them.   *)
EXTENDS Integers, Sequences, FiniteSets, TLC
CONSTANTS Conn, Witness
VARIABLES phase, up, served
vars == <<phase, up, served>>
Kinds == {"CONNECT", "CONNACK", "PUBLISH0", "PUBLISH1", "PUBLISH2", "PUBACK", "PUBREC", "PUBREL", "PUBCOMP",
          "SUBSCRIBE", "SUBACK", "UNSUBSCRIBE", "UNSUBACK", "PINGREQ", "PINGRESP", "DISCONNECT", "MALFORMED", "EOF"}
Ends(kind, ph) == \/ ph = "open" /\ kind # "CONNECT"                 \* the first packet must be CONNECT
                  \/ ph = "live" /\ kind \in {"CONNECT", "DISCONNECT", "MALFORMED", "EOF"}
MayEnd(kind, ph) == ph = "live" /\ kind \in {"PUBLISH2", "CONNACK", "SUBACK", "UNSUBACK", "PINGRESP"}   \* broker's choice
Init == phase = [c \in Conn \cup {Witness} |-> IF c = Witness THEN "live" ELSE "open"] /\ up = TRUE /\ served = 0
Input(c, kind) ==
  /\ c \in Conn /\ phase[c] # "ended" /\ up
  /\ \/ Ends(kind, phase[c]) /\ phase' = [phase EXCEPT ![c] = "ended"]
     \/ ~Ends(kind, phase[c]) /\ kind = "CONNECT" /\ phase' = [phase EXCEPT ![c] = "live"]
     \/ ~Ends(kind, phase[c]) /\ kind # "CONNECT" /\ UNCHANGED phase
     \/ MayEnd(kind, phase[c]) /\ phase' = [phase EXCEPT ![c] = "ended"]
  /\ UNCHANGED <<up, served>>
RoundTrip == up /\ phase[Witness] = "live" /\ served' = served + 1 /\ UNCHANGED <<phase, up>>
Next == (\E c \in Conn, k \in Kinds : Input(c, k)) \/ RoundTrip
=============================================================================
