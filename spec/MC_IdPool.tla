------------------------------ MODULE MC_IdPool ------------------------------
(* Properties of IdPool checked exhaustively (kept out of IdPool itself so that    *)
(* the trace specification can instantiate its actions with per-trace ranges).     *)
EXTENDS IdPool
Spec == Init /\ [][Next]_out
(* properties *)
InRange == out \subseteq Range
(* an identifier handed out differs from every outstanding one, and lies in the range
   unless the pool is exhausted *)
FreshIds == [][\A r \in Range : (r \in out' /\ r \notin out) => r \notin out]_out
NeverShrinksOnGet == [][Cardinality(out') >= Cardinality(out) - 1]_out
(* exhaustion is reported iff nothing is free: in a state with a free id some in-range Get is enabled *)
Available == out # Range => \E r \in Range : ENABLED Get(r)
=============================================================================
