----------------------------- MODULE DeliveryGen -----------------------------
(* Client response scripts for C03: for every in-flight message the subscriber may   *)
(* acknowledge, answer with the wrong packet type or a foreign identifier, stay       *)
(* silent over one or several deadlines, or disconnect; in every interleaving.        *)
(* Recorded: the environment actions only (the broker under test chooses ids).        *)
EXTENDS Delivery, Json
CONSTANT Depth
VARIABLE hist
GQoS == [m \in Msgs |-> IF m \in {"m1", "m3"} THEN 1 ELSE 2]
Rec(r) == hist' = Append(hist, r)
IdOf(s, m) == CHOOSE id \in Range : <<s, id>> \in Dom(flows) /\ flows[<<s, id>>].m = m
Live(s, m) == \E id \in Range : <<s, id>> \in Dom(flows) /\ flows[<<s, id>>].m = m
GInit == Init /\ hist = <<>>
GNext ==
  /\ Len(hist) < Depth
  /\ \/ \E s \in Sess, m \in Msgs : Send(s, m) /\ Rec([op |-> "deliver", s |-> s, m |-> m, q |-> QoSOf[m], kind |-> ""])
     \/ \E s \in Sess, m \in Msgs, kind \in {"PUBACK", "PUBREC", "PUBCOMP"} :
          /\ Live(s, m) /\ s \in reg
          /\ Resp(s, IdOf(s, m), kind) /\ Rec([op |-> "resp", s |-> s, m |-> m, q |-> 0, kind |-> kind])
     \/ \E s \in Sess : /\ s \in reg /\ \E k \in Dom(flows) : k[1] = s     \* a response with an identifier that is not in flight
                        /\ UNCHANGED vars /\ Rec([op |-> "strayack", s |-> s, m |-> "", q |-> 0, kind |-> "PUBACK"])
     \/ /\ Dom(flows) # {}                                                  \* a sweep past every deadline: all live entries fire
        /\ \E k \in Dom(flows) : Fire(k)
        /\ Rec([op |-> "sweep", s |-> "", m |-> "", q |-> 0, kind |-> ""])
     \/ \E s \in Sess : End(s) /\ Rec([op |-> "end", s |-> s, m |-> "", q |-> 0, kind |-> "close"])
     \/ \E s \in Sess : End(s) /\ Rec([op |-> "end", s |-> s, m |-> "", q |-> 0, kind |-> "disconnect"])
GSpec == GInit /\ [][GNext]_<<vars, hist>>
Dump == (Len(hist) = Depth) => PrintT(<<"BEHAV", ToJson(hist)>>)
=============================================================================
