CONSTANTS Keys <- SubKeys Queries <- SubQs Mode = "subs" PruneIgnoresValue = FALSE HashSkipsParent = FALSE Vals = {"v1"}
SPECIFICATION Spec
INVARIANTS PrefixClosed NoEmptyLeaf OnlyKeys WalkIsMatches
PROPERTY OneKey
CHECK_DEADLOCK FALSE
