CONSTANTS Sess = {"s1", "s2"} Msgs = {"m1", "m2"} MinId = 1 MaxId = 3 QoSOf <- MCQoS MaxWire = 3
SPECIFICATION Spec
CONSTRAINT Bound
INVARIANTS IdsMatch SameId GoneMeansReleasable
PROPERTY OnlyWhileLive
CHECK_DEADLOCK FALSE
