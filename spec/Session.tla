------------------------------- MODULE Session -------------------------------
(* Connection and session life cycle across nodes (wasp/conn.go setup / serve /        *)
(* shutdownSession, wasp/packets.go PINGREQ, wasp/sessions/session.go ExtendDeadline,   *)
(* the session and subscription maps of wasp/distributed): C11, C12, C13.               *)
(* Setup and teardown are split into the code's sub-steps (pc), because the defects     *)
(* this module was written to expose live between them:                                 *)
(*   setup    1 takeover: delete the records resolved for the client id                 *)
(*            2 create own record, register, CONNACK, arm the keep-alive deadline       *)
(*   teardown 1 unregister   2 delete own subscriptions   3 delete own record,          *)
(*            publish the will unless DISCONNECT was seen, close the connection         *)
(* Replicated state is the LWW map of Crdt.tla, embedded with explicit messages:        *)
(* every local write is one broadcast; Deliver merges one message at one node.          *)
(* This is the repaired design (takeover deletes every listed record of the client id;  *)
(* teardown always deletes its own record by session id); with the two steps written    *)
(* as the pinned code had them TLC produces the behaviours recorded as D24 and D25.     *)
EXTENDS Integers, FiniteSets, Sequences, TLC
CONSTANTS Node, Conn, Filter, NodeOf, ClientOf, HasWill, MaxTime, MaxStamp
VARIABLES phase,   \* [Conn -> {"new","setup","live","ending","ended"}]
          pc,      \* [Conn -> sub-step of setup / teardown]
          armed,   \* [Conn -> virtual deadline]
          lastpkt, \* [Conn -> virtual time of the last client packet]
          now,
          disc,    \* [Conn -> BOOLEAN]  DISCONNECT seen, or told that it was displaced
          cause,   \* [Conn -> STRING]
          topics,  \* [Conn -> SUBSET Filter]   filters the session remembers for teardown
          reg,     \* [Node -> SUBSET Conn]     local registry
          sess,    \* [Node -> [Conn -> [la, ld]]]            replicated session records
          subs,    \* [Node -> [Conn \X Filter -> [la, ld]]]  replicated subscriptions
          net,     \* set of broadcasts [id, from, entries]
          got,     \* [Node -> SUBSET broadcast ids]
          stamp,   \* logical clock (no skew in this module)
          closed,  \* [Conn -> BOOLEAN]  connection closed by the broker
          wills,   \* set of connections whose will was published
          ok       \* history: C12's proviso respected so far
vars == <<phase, pc, armed, lastpkt, now, disc, cause, topics, reg, sess, subs, net, got, stamp, closed, wills, ok>>
Z == [la |-> 0, ld |-> 0]
Ts(e) == IF e.la > e.ld THEN e.la ELSE e.ld
Added(e) == e.la > 0 /\ e.la > e.ld
Merge(o, n) == IF Ts(n) > Ts(o) THEN n ELSE o
KA == 2                                  \* the keep-alive the clients ask for (virtual ticks); the broker arms 2 * KA
Init == /\ phase = [c \in Conn |-> "new"] /\ pc = [c \in Conn |-> 0]
        /\ armed = [c \in Conn |-> 0] /\ lastpkt = [c \in Conn |-> 0] /\ now = 0
        /\ disc = [c \in Conn |-> FALSE] /\ cause = [c \in Conn |-> "none"]
        /\ topics = [c \in Conn |-> {}]
        /\ reg = [n \in Node |-> {}]
        /\ sess = [n \in Node |-> [c \in Conn |-> Z]]
        /\ subs = [n \in Node |-> [k \in Conn \X Filter |-> Z]]
        /\ net = {} /\ got = [n \in Node |-> {}] /\ stamp = 1 /\ closed = [c \in Conn |-> FALSE] /\ wills = {} /\ ok = TRUE
ApplyEntries(n, es) ==
  /\ sess' = [sess EXCEPT ![n] = [c \in Conn |-> LET m == {e \in es : e[1] = "s" /\ e[2] = c} IN
                                  IF m = {} THEN @[c] ELSE Merge(@[c], LET e == CHOOSE x \in m : TRUE IN [la |-> e[3], ld |-> e[4]])]]
  /\ subs' = [subs EXCEPT ![n] = [k \in Conn \X Filter |-> LET m == {e \in es : e[1] = "u" /\ e[2] = k} IN
                                  IF m = {} THEN @[k] ELSE Merge(@[k], LET e == CHOOSE x \in m : TRUE IN [la |-> e[3], ld |-> e[4]])]]
Bcast(n, es) == /\ ApplyEntries(n, es)
                /\ net' = net \cup {[id |-> stamp, from |-> n, entries |-> es]}
                /\ got' = [got EXCEPT ![n] = @ \cup {stamp}]
                /\ stamp' = stamp + 1
NoBcast == UNCHANGED <<sess, subs, net, got, stamp>>
Resolve(n, cl) == {c \in Conn : ClientOf[c] = cl /\ Added(sess[n][c])}   \* ByClientID may return any of these
\* ---- setup
Open(c) == /\ phase[c] = "new" /\ stamp < MaxStamp
           /\ phase' = [phase EXCEPT ![c] = "setup"] /\ pc' = [pc EXCEPT ![c] = 1]
           /\ lastpkt' = [lastpkt EXCEPT ![c] = now]
           /\ UNCHANGED <<armed, now, disc, cause, topics, reg, closed, wills, ok>> /\ NoBcast
Informed(c) == \A o \in Conn \ {c} : ClientOf[o] = ClientOf[c] =>
                  /\ phase[o] # "setup"
                  /\ (phase[o] \in {"live", "ending", "ended"} => Ts(sess[NodeOf[c]][o]) > 0)
SetupTakeover(c) == LET n == NodeOf[c] IN
  /\ phase[c] = "setup" /\ pc[c] = 1
  /\ ok' = (ok /\ Informed(c))
  /\ pc' = [pc EXCEPT ![c] = 2]
  /\ IF Resolve(n, ClientOf[c]) = {} THEN NoBcast
     ELSE Bcast(n, {<<"s", o, sess[n][o].la, stamp>> : o \in Resolve(n, ClientOf[c])})   \* every listed record of the client id
  /\ UNCHANGED <<phase, armed, lastpkt, now, disc, cause, topics, reg, closed, wills>>
SetupCreate(c) == LET n == NodeOf[c] IN
  /\ phase[c] = "setup" /\ pc[c] = 2
  /\ Bcast(n, {<<"s", c, stamp, 0>>})
  /\ reg' = [reg EXCEPT ![n] = @ \cup {c}]
  /\ phase' = [phase EXCEPT ![c] = "live"] /\ pc' = [pc EXCEPT ![c] = 0]
  /\ armed' = [armed EXCEPT ![c] = now + 2 * KA]                      \* armed as soon as the session exists
  /\ UNCHANGED <<lastpkt, now, disc, cause, topics, closed, wills, ok>>
\* ---- packets of a live session
Rearm(c) == armed' = [armed EXCEPT ![c] = now + 2 * KA] /\ lastpkt' = [lastpkt EXCEPT ![c] = now]
InTime(c) == now <= armed[c]
Subscribe(c, f) == LET n == NodeOf[c] IN
  /\ phase[c] = "live" /\ InTime(c) /\ stamp < MaxStamp
  /\ Bcast(n, {<<"u", <<c, f>>, stamp, 0>>})
  /\ topics' = [topics EXCEPT ![c] = @ \cup {f}] /\ Rearm(c)
  /\ UNCHANGED <<phase, pc, now, disc, cause, reg, closed, wills, ok>>
End(c, why, d) == /\ phase' = [phase EXCEPT ![c] = "ending"] /\ pc' = [pc EXCEPT ![c] = 1]
                  /\ cause' = [cause EXCEPT ![c] = why] /\ disc' = [disc EXCEPT ![c] = d]
Ping(c) == LET n == NodeOf[c] IN
  /\ phase[c] = "live" /\ InTime(c)
  /\ \/ /\ \E r \in Resolve(n, ClientOf[c]) : r = c                    \* the lookup returned our own record: PINGRESP
        /\ Rearm(c) /\ UNCHANGED <<phase, pc, disc, cause>>
     \/ /\ (Resolve(n, ClientOf[c]) = {} \/ \E r \in Resolve(n, ClientOf[c]) : r # c)
        /\ End(c, "displaced", TRUE) /\ UNCHANGED <<armed, lastpkt>>
  /\ UNCHANGED <<now, topics, reg, closed, wills, ok>> /\ NoBcast
Disconnect(c) == /\ phase[c] = "live" /\ InTime(c) /\ End(c, "disconnect", TRUE)
                 /\ UNCHANGED <<armed, lastpkt, now, topics, reg, closed, wills, ok>> /\ NoBcast
ClientClose(c) == /\ phase[c] = "live" /\ End(c, "loss", FALSE)
                  /\ UNCHANGED <<armed, lastpkt, now, topics, reg, closed, wills, ok>> /\ NoBcast
ProtoError(c) == /\ phase[c] = "live" /\ InTime(c) /\ End(c, "protocol", FALSE)
                 /\ UNCHANGED <<armed, lastpkt, now, topics, reg, closed, wills, ok>> /\ NoBcast
Tick == /\ now < MaxTime /\ now' = now + 1
        /\ UNCHANGED <<phase, pc, armed, lastpkt, disc, cause, topics, reg, closed, wills, ok>> /\ NoBcast
DeadlineExpiry(c) == /\ phase[c] = "live" /\ now > armed[c] /\ End(c, "keepalive", FALSE)
                     /\ UNCHANGED <<armed, lastpkt, now, topics, reg, closed, wills, ok>> /\ NoBcast
\* ---- teardown, in the code's order
TdUnregister(c) == /\ phase[c] = "ending" /\ pc[c] = 1
                   /\ reg' = [reg EXCEPT ![NodeOf[c]] = @ \ {c}] /\ pc' = [pc EXCEPT ![c] = 2]
                   /\ UNCHANGED <<phase, armed, lastpkt, now, disc, cause, topics, closed, wills, ok>> /\ NoBcast
TdSubs(c) == LET n == NodeOf[c] IN
  /\ phase[c] = "ending" /\ pc[c] = 2
  /\ IF topics[c] = {} THEN NoBcast
     ELSE Bcast(n, {<<"u", <<c, f>>, 0, stamp>> : f \in topics[c]})
  /\ pc' = [pc EXCEPT ![c] = 3]
  /\ UNCHANGED <<phase, armed, lastpkt, now, disc, cause, topics, reg, closed, wills, ok>>
TdRecord(c) == LET n == NodeOf[c] IN
  /\ phase[c] = "ending" /\ pc[c] = 3
  /\ IF Added(sess[n][c]) THEN Bcast(n, {<<"s", c, sess[n][c].la, stamp>>}) ELSE NoBcast   \* always the own record
  /\ wills' = IF HasWill[c] /\ ~disc[c] THEN wills \cup {c} ELSE wills
  /\ phase' = [phase EXCEPT ![c] = "ended"] /\ pc' = [pc EXCEPT ![c] = 0]
  /\ closed' = [closed EXCEPT ![c] = TRUE]
  /\ UNCHANGED <<armed, lastpkt, now, disc, cause, topics, reg, ok>>
Deliver(n, m) == /\ m \in net /\ m.id \notin got[n]
                 /\ ApplyEntries(n, m.entries)
                 /\ got' = [got EXCEPT ![n] = @ \cup {m.id}]
                 /\ UNCHANGED <<phase, pc, armed, lastpkt, now, disc, cause, topics, reg, net, stamp, closed, wills, ok>>
NextRest ==
        \/ \E c \in Conn : Open(c) \/ SetupCreate(c) \/ Ping(c) \/ Disconnect(c)
                           \/ ClientClose(c) \/ ProtoError(c) \/ DeadlineExpiry(c)
                           \/ TdUnregister(c) \/ TdSubs(c) \/ TdRecord(c)
        \/ \E c \in Conn, f \in Filter : Subscribe(c, f)
        \/ Tick
        \/ \E n \in Node, m \in net : Deliver(n, m)
Next == \/ \E c \in Conn : SetupTakeover(c)
        \/ UNCHANGED ok /\ NextRest
=============================================================================
