CONSTANTS Users = {"u1", "u2"} Passwords = {"p1", "p2"} Mounts = {"m1"}
SPECIFICATION Spec
CONSTRAINT Bound
INVARIANTS AdmitIffMatch SessionsJustified
PROPERTY RefusedCreatesNothing
CHECK_DEADLOCK FALSE
