CONSTANTS Node = {"n1", "n2", "n3"} Key = {"k1", "k2"} Vals = {"x", "y"} MaxOps = 3
 Skew <- MCSkew SessOf <- MCSessOf
SPECIFICATION Spec
INVARIANTS Convergence Lww
PROPERTIES BroadcastComplete PushDominates
CHECK_DEADLOCK FALSE
