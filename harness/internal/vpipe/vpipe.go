// Package vpipe is the harness' client connection: the broker end implements
// transport.TimeoutReadWriteCloser with deadlines armed against a virtual clock that only the
// driver advances, so that keep-alive behaviour is observed without real waiting.
package vpipe

import (
	"errors"
	"io"
	"sync"
	"time"
)

type timeoutErr struct{}

func (timeoutErr) Error() string   { return "i/o timeout (virtual clock)" }
func (timeoutErr) Timeout() bool   { return true }
func (timeoutErr) Temporary() bool { return true }

// Clock is the virtual clock shared by the connections of one scenario.
type Clock struct {
	mu    sync.Mutex
	now   time.Duration
	conns map[*Conn]struct{}
}

func NewClock() *Clock { return &Clock{conns: map[*Conn]struct{}{}} }

func (c *Clock) Now() time.Duration {
	c.mu.Lock()
	defer c.mu.Unlock()
	return c.now
}

// Advance moves virtual time forward and wakes readers whose deadline has passed.
func (c *Clock) Advance(d time.Duration) {
	c.mu.Lock()
	c.now += d
	conns := make([]*Conn, 0, len(c.conns))
	for k := range c.conns {
		conns = append(conns, k)
	}
	c.mu.Unlock()
	for _, k := range conns {
		k.mu.Lock()
		k.cond.Broadcast()
		k.mu.Unlock()
	}
}

// Conn is the broker side of a connection.
type Conn struct {
	ID  int
	clk *Clock

	mu             sync.Mutex
	cond           *sync.Cond
	in             []byte
	clientClosed   bool
	closed         bool
	deadline       time.Duration // virtual instant, 0 = none
	armed          bool
	wdeadline      time.Duration // write deadline (virtual instant), as net.Conn has it: a Write after it fails at once
	warmed         bool
	blockedWriters int
	stalled        bool // the client has stopped reading: a Write blocks until it reads again, the write deadline passes or the connection closes
	reading        bool

	// callbacks, invoked without c.mu held unless stated
	OnWrite    func(b []byte) // bytes written by the broker
	OnClose    func()         // broker closed the connection
	OnDeadline func(ms int64) // broker armed a deadline ms from now (-1: cleared)
	OnTimeout  func()         // a blocked read returned a timeout
	WriteGate  func(b []byte) // may block: lets a driver throttle a client
}

func (c *Clock) NewConn(id int) *Conn {
	k := &Conn{ID: id, clk: c}
	k.cond = sync.NewCond(&k.mu)
	c.mu.Lock()
	c.conns[k] = struct{}{}
	c.mu.Unlock()
	return k
}

func (k *Conn) Read(p []byte) (int, error) {
	k.mu.Lock()
	for {
		if len(k.in) > 0 {
			n := copy(p, k.in)
			k.in = k.in[n:]
			k.mu.Unlock()
			return n, nil
		}
		if k.closed {
			k.mu.Unlock()
			return 0, io.ErrClosedPipe
		}
		if k.clientClosed {
			k.mu.Unlock()
			return 0, io.EOF
		}
		if k.armed && k.clk.Now() >= k.deadline {
			k.armed = false
			cb := k.OnTimeout
			k.mu.Unlock()
			if cb != nil {
				cb()
			}
			return 0, timeoutErr{}
		}
		k.reading = true
		k.cond.Wait()
		k.reading = false
	}
}

func (k *Conn) Write(p []byte) (int, error) {
	k.mu.Lock()
	if k.closed {
		k.mu.Unlock()
		return 0, io.ErrClosedPipe
	}
	if k.clientClosed {
		k.mu.Unlock()
		return 0, errors.New("write: broken pipe (client closed)")
	}
	for {
		if k.warmed && k.clk.Now() >= k.wdeadline {
			k.mu.Unlock()
			return 0, timeoutErr{} // os.ErrDeadlineExceeded of a real connection: nothing is written
		}
		if !k.stalled {
			break
		}
		// a client that does not read: the write blocks (socket buffers are taken to be full) until something changes
		k.blockedWriters++
		k.cond.Wait()
		k.blockedWriters--
		if k.closed {
			k.mu.Unlock()
			return 0, io.ErrClosedPipe
		}
		if k.clientClosed {
			k.mu.Unlock()
			return 0, errors.New("write: broken pipe (client closed)")
		}
	}
	k.mu.Unlock()
	b := append([]byte{}, p...)
	if k.WriteGate != nil {
		k.WriteGate(b)
	}
	if k.OnWrite != nil {
		k.OnWrite(b)
	}
	return len(p), nil
}

func (k *Conn) Close() error {
	k.mu.Lock()
	if k.closed {
		k.mu.Unlock()
		return nil
	}
	k.closed = true
	k.cond.Broadcast()
	k.mu.Unlock()
	if k.OnClose != nil {
		k.OnClose()
	}
	return nil
}

func (k *Conn) arm(t time.Time) error {
	var ms int64 = -1
	k.mu.Lock()
	if t.IsZero() {
		k.armed = false
	} else {
		d := time.Until(t).Round(time.Millisecond)
		k.armed = true
		k.deadline = k.clk.Now() + d
		ms = int64(d / time.Millisecond)
	}
	k.cond.Broadcast()
	k.mu.Unlock()
	if k.OnDeadline != nil {
		k.OnDeadline(ms)
	}
	return nil
}
func (k *Conn) armWrite(t time.Time) {
	k.mu.Lock()
	if t.IsZero() {
		k.warmed = false
	} else {
		k.warmed = true
		k.wdeadline = k.clk.Now() + time.Until(t).Round(time.Millisecond)
	}
	k.cond.Broadcast()
	k.mu.Unlock()
}

// SetDeadline sets the read and the write deadline, as net.Conn does.
func (k *Conn) SetDeadline(t time.Time) error      { k.armWrite(t); return k.arm(t) }
func (k *Conn) SetReadDeadline(t time.Time) error  { return k.arm(t) }
func (k *Conn) SetWriteDeadline(t time.Time) error { k.armWrite(t); return nil }

// ---- client side

// WriteBlocked reports whether a Write of the broker is blocked on this connection right now.
func (k *Conn) WriteBlocked() bool {
	k.mu.Lock()
	defer k.mu.Unlock()
	return k.blockedWriters > 0
}

// SetStalled makes the client stop (or resume) reading: while it is stalled the broker's writes block, as they do on a
// connection whose peer does not drain its socket, and fail when the write deadline passes on the virtual clock.
func (k *Conn) SetStalled(on bool) {
	k.mu.Lock()
	k.stalled = on
	k.cond.Broadcast()
	k.mu.Unlock()
}

func (k *Conn) ClientWrite(b []byte) error {
	k.mu.Lock()
	defer k.mu.Unlock()
	if k.closed {
		return io.ErrClosedPipe
	}
	k.in = append(k.in, b...)
	k.cond.Broadcast()
	return nil
}
func (k *Conn) ClientClose() {
	k.mu.Lock()
	k.clientClosed = true
	k.cond.Broadcast()
	k.mu.Unlock()
}

// ClientClosed reports whether the client side has hung up.
func (k *Conn) ClientClosed() bool {
	k.mu.Lock()
	defer k.mu.Unlock()
	return k.clientClosed
}
func (k *Conn) Closed() bool {
	k.mu.Lock()
	defer k.mu.Unlock()
	return k.closed
}

// Reading reports whether the broker is blocked in Read waiting for client bytes.
func (k *Conn) Reading() bool {
	k.mu.Lock()
	defer k.mu.Unlock()
	if !k.reading || len(k.in) > 0 || k.clientClosed || k.closed {
		return false
	}
	if k.armed && k.clk.Now() >= k.deadline {
		return false // a time-out is about to be delivered
	}
	return true
}

// Pending reports whether the broker has unread client bytes.
func (k *Conn) Pending() int {
	k.mu.Lock()
	defer k.mu.Unlock()
	return len(k.in)
}
