// Package dstate builds a real distributed.State whose broadcast queue is owned by the
// harness (the harness is the gossip network).
package dstate

import (
	"context"
	"errors"
	"net"

	"github.com/hashicorp/memberlist"
	"github.com/vx-labs/wasp/v4/wasp/audit"
	"github.com/vx-labs/wasp/v4/wasp/distributed"
	"go.uber.org/zap"
	"google.golang.org/grpc"
)

type Node struct {
	ID    uint64
	State distributed.State
	Bcast *memberlist.TransmitLimitedQueue
	seen  map[string]bool // Keep mode: payloads already reported by New()
}

func New(id uint64) *Node { return NewWithAudit(id, audit.NoneRecorder()) }

// DownAudit is the audit sink seam in its failed position: the real gRPC recorder of wasp/audit on a connection
// whose dialer always fails, so that every RecordEvent returns an error, as it does while the configured sink is
// unreachable.  Auditing is a side channel: whether it works must not change what is stored or broadcast (C09).
func DownAudit() audit.Recorder {
	cc, err := grpc.Dial("audit-sink-down", grpc.WithInsecure(),
		grpc.WithContextDialer(func(context.Context, string) (net.Conn, error) {
			return nil, errors.New("injected: audit sink unreachable")
		}))
	if err != nil {
		panic(err)
	}
	return audit.GRPCRecorder(cc, zap.NewNop())
}

func NewWithAudit(id uint64, a audit.Recorder) *Node {
	b := &memberlist.TransmitLimitedQueue{RetransmitMult: 1, NumNodes: func() int { return 1 }}
	return &Node{ID: id, Bcast: b, State: distributed.NewState(id, b, a)}
}

// Drain returns the broadcasts queued since the last call (each exactly once).
func (n *Node) Drain() [][]byte {
	var out [][]byte
	for {
		m := n.Bcast.GetBroadcasts(0, 1<<24)
		if len(m) == 0 {
			return out
		}
		out = append(out, m...)
	}
}

// NewKeeping builds a node whose transmit queue behaves as in production: a broadcast stays queued until it has been
// handed out many times, so that a later broadcast can still invalidate (displace) it - which Drain's
// take-everything-at-once queue can never show.
func NewKeeping(id uint64, a audit.Recorder) *Node {
	b := &memberlist.TransmitLimitedQueue{RetransmitMult: 1 << 20, NumNodes: func() int { return 1 }} // never retired by being looked at: only a later broadcast may displace one
	return &Node{ID: id, Bcast: b, State: distributed.NewState(id, b, a), seen: map[string]bool{}}
}

// Keeping reports whether the node was built by NewKeeping.
func (n *Node) Keeping() bool { return n.seen != nil }

// New returns the payloads queued since the last call, leaving them in the queue (Keep mode).
func (n *Node) New() [][]byte {
	var out [][]byte
	for _, m := range n.Bcast.GetBroadcasts(0, 1<<24) {
		if !n.seen[string(m)] {
			n.seen[string(m)] = true
			out = append(out, m)
		}
	}
	return out
}

// Held returns what the queue holds now (Keep mode): what the gossip layer would still send.
func (n *Node) Held() [][]byte { return n.Bcast.GetBroadcasts(0, 1<<24) }
