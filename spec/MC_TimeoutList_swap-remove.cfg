CONSTANTS Vals = {"a", "b", "c"} Deadlines = {1400, 1450, 1499, 1500, 2400} Nows = {1000, 2000, 3000} MaxOps = 5 Variant = "swap-remove"
SPECIFICATION Spec
INVARIANTS Sorted
CHECK_DEADLOCK FALSE
