----------------------------- MODULE MC_Retained -----------------------------
EXTENDS Retained
CONSTANT RFilters
MCTopics  == { <<"a">>, <<"a", "b">>, <<"a", "b", "c">>, <<"a", "">>, <<"b">> }
MCFilters == { <<"#">>, <<"a", "#">>, <<"a", "+">>, <<"+">>, <<"a">>, <<"a", "b", "#">>, <<"+", "+">> }
Spec == Init /\ [][Next]_ret
\* a publish on topic t changes the replay of a filter only through t
OneTopicAtATime == [][\A f \in RFilters : \A x \in Replay(ret, f) :
                        (x \notin Replay(ret', f)) => (x[1] \notin DOMAIN ret' \/ ret'[x[1]] # x[2])]_ret
OnlyNonEmpty == \A t \in DOMAIN ret : ret[t] # ""
ReplayIsMatch == \A f \in RFilters : {x[1] : x \in Replay(ret, f)} = {t \in DOMAIN ret : Matches(f, t)}
=============================================================================
