------------------------------- MODULE Topics -------------------------------
(* MQTT 3.1.1 topic names, topic filters and the match relation (section 4.7),      *)
(* plus mount-point prefixing.  Stateless definitions shared by every other module. *)
(* A topic name / filter is the sequence of its levels (strings; a level may be     *)
(* empty: "a//b" = <<"a","","b">>, "/" = <<"","">>).  The string form is the levels *)
(* joined by "/"; the harness builds strings from level sequences, never the other  *)
(* way round, so the level structure in a trace is ground truth.                    *)
EXTENDS Integers, Sequences, FiniteSets, TLC
MWC == "#"
SWC == "+"
\* "#" only as the last level; wildcards occupy a whole level (by construction of the domains)
ValidFilter(f) == Len(f) >= 1 /\ f # <<"">> /\ \A i \in 1..Len(f) : f[i] = MWC => i = Len(f)
ValidTopic(t)  == Len(t) >= 1 /\ t # <<"">> /\ \A i \in 1..Len(t) : t[i] \notin {MWC, SWC}
RECURSIVE Matches(_, _)
Matches(f, t) == IF f = <<>> THEN t = <<>>
                 ELSE IF Head(f) = MWC THEN Len(f) = 1            \* also when t = <<>>: the parent level
                 ELSE IF t = <<>> THEN FALSE
                 ELSE (Head(f) = SWC \/ Head(f) = Head(t)) /\ Matches(Tail(f), Tail(t))
\* all sequences over S of length 1..n
RECURSIVE SeqsUpTo(_, _)
SeqsUpTo(S, n) == IF n = 0 THEN {} ELSE
                    LET shorter == SeqsUpTo(S, n - 1) IN
                    {<<x>> : x \in S} \cup shorter \cup {Append(s, x) : s \in {q \in shorter : Len(q) = n - 1}, x \in S}
TopicsOf(L, n)  == {t \in SeqsUpTo(L, n) : ValidTopic(t)}
FiltersOf(L, n) == {f \in SeqsUpTo(L \cup {MWC, SWC}, n) : ValidFilter(f)}
\* mount points
Prefix(mp, t) == <<mp>> \o t
Trim(mp, t)   == Tail(t)
=============================================================================
