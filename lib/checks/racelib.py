"""Overlapping client operations (shared by C01, C02, C07): one operation is parked at a scheduler gate inside its handler
(harness built with the tag "gates": one-shot gates at the replicated-state calls), others run to completion, the first is
released.  RaceTrace.tla states what clients may rely on under every such interleaving."""
import json
import os
import subprocess
from concurrent.futures import ThreadPoolExecutor

import vlib

FILTERS = [["a", "b"], ["a", "+"], ["#"]]


def setup(retained_before):
    ops = [{"op": "connect", "c": 9, "n": 1, "client": "pub", "ka": 6000},
           {"op": "connect", "c": 8, "n": 1, "client": "witness", "ka": 6000},
           {"op": "sub", "c": 8, "id": 1, "fs": [{"f": ["#"], "q": 1}]},
           {"op": "connect", "c": 1, "n": 1, "client": "racer", "ka": 6000}]
    if retained_before:
        ops.append({"op": "pub", "c": 9, "t": ["a", "b"], "p": "old", "q": 1, "r": True, "id": 40})
    return ops


def scenarios():
    out = []
    k = 0
    for f in FILTERS:
        for q in (0, 1):
            for before in (False, True):
                sub = {"op": "sub", "c": 1, "id": 5, "fs": [{"f": f, "q": 1}]}
                unsub = {"op": "unsub", "c": 1, "id": 6, "fs": [{"f": f, "q": 0}]}
                for retained in (False, True):
                    pub = {"op": "pub", "c": 9, "t": ["a", "b"], "p": "new", "q": q, "r": retained, "id": 41 if q else 0}
                    pub2 = {"op": "pub", "c": 9, "t": ["a", "b"], "p": "newer", "q": q, "r": retained, "id": 42 if q else 0}
                    # a subscription in the making, a publish inside it
                    # (after a retained publish nothing else is published: a later payload would hide that an earlier one was missed)
                    tail = [{"op": "quiesce"}] if retained else [pub2, {"op": "quiesce"}]
                    for hold in ("subs.create", "topics.get"):
                        out.append(setup(before) + [{"op": "race", "hold": hold, "a": sub, "b": [pub]}] + tail)
                    # a publish in the making, a subscription completed inside it
                    holds = ["subs.bypattern"] + (["topics.set"] if retained else [])
                    for hold in holds:
                        out.append(setup(before) + [{"op": "race", "hold": hold, "a": pub, "b": [sub]}] + tail)
                    # the same with an established subscription being taken back
                    out.append(setup(before) + [sub, {"op": "race", "hold": "subs.delete", "a": unsub, "b": [pub]}, pub2, {"op": "quiesce"}])
                    out.append(setup(before) + [sub, {"op": "race", "hold": "subs.bypattern", "a": pub, "b": [unsub]}, pub2, {"op": "quiesce"}])
                    # subscribe, then unsubscribe inside a publish, then subscribe again
                    out.append(setup(before) + [sub, {"op": "race", "hold": "subs.bypattern", "a": pub, "b": [unsub, dict(sub, id=7)]}, pub2, {"op": "quiesce"}])
    # a subscriber leaves (connection loss / DISCONNECT) and a publish for it is handled while its teardown is parked between the
    # removal from the local registry and the removal of its subscriptions: the recipient has vanished - nothing may stick
    sweeps = [{"op": "sweep", "n": 1, "ms": 4500}, {"op": "sweep", "n": 1, "ms": 9000}]
    for q in (1, 2):
        for how in ("close", "disconnect"):
            for npub in (1, 3):
                sub = {"op": "sub", "c": 1, "id": 5, "fs": [{"f": ["a", "b"], "q": q}]}
                leave = {"op": "close", "c": 1} if how == "close" else {"op": "send", "c": 1, "kind": "DISCONNECT"}
                pubs = [{"op": "pub", "c": 9, "t": ["a", "b"], "p": "gone%d" % i, "q": 1, "r": False, "id": 50 + i} for i in range(npub)]
                out.append(setup(False) + [sub, {"op": "race", "hold": "subs.delete", "a": leave, "b": pubs}] + sweeps + [{"op": "quiesce"}])
    # a client that sends SUBSCRIBE and hangs up before the answer can be written: whatever the handler had done by then is
    # undone with the session
    for hold in ("subs.create", "topics.get"):
        for fs in ([["a", "b"]], [["a", "b"], ["c", "#"]], [["#"]]):
            for before in (False, True):
                sub = {"op": "sub", "c": 1, "id": 5, "fs": [{"f": f, "q": 1} for f in fs]}
                out.append(setup(before) + [{"op": "race", "hold": hold, "a": sub, "b": [{"op": "close", "c": 1}]},
                                            {"op": "pub", "c": 9, "t": ["a", "b"], "p": "later", "q": 1, "r": False, "id": 60}] + sweeps + [{"op": "quiesce"}])
    # two CONNECTs with the same client identifier that overlap: one is parked inside its set-up (before / after it looks for
    # earlier sessions, before it registers) while the other completes.  Both are accepted; afterwards one of them is served.
    for hold in ("sess.all", "sess.byclientid", "sess.create", "sess.delete"):
        for pre in (False, True):
            c1 = {"op": "connect", "c": 1, "n": 1, "client": "same", "ka": 10}
            c2 = {"op": "connect", "c": 2, "n": 1, "client": "same", "ka": 10}
            ops = [{"op": "connect", "c": 9, "n": 1, "client": "pub", "ka": 6000}]
            if pre:    # an older session of that client id exists already (a plain takeover comes first)
                ops.append({"op": "connect", "c": 3, "n": 1, "client": "same", "ka": 10})
            ops += [{"op": "race", "hold": hold, "a": c1, "b": [c2]}]
            for _ in range(2):
                ops += [{"op": "send", "c": c, "kind": "PINGREQ"} for c in ((3, 1, 2) if pre else (1, 2))]
            ops.append({"op": "quiesce"})
            out.append(ops)
    # a takeover whose removal of the displaced session's record is parked while that session ends on its own (its client hangs up
    # or disconnects - which is why it reconnects): the record is gone when the removal goes on; the new session is established all the same
    for hold in ("sess.delete", "sess.byclientid", "sess.create"):
        for how in ("close", "disconnect"):
            for ping in (False, True):
                c1 = {"op": "connect", "c": 1, "n": 1, "client": "same", "ka": 10}
                c2 = {"op": "connect", "c": 2, "n": 1, "client": "same", "ka": 10}
                bye = {"op": "close", "c": 1} if how == "close" else {"op": "send", "c": 1, "kind": "DISCONNECT"}
                ops = [{"op": "connect", "c": 9, "n": 1, "client": "pub", "ka": 6000}, c1]
                if ping:
                    ops.append({"op": "send", "c": 1, "kind": "PINGREQ"})
                ops += [{"op": "race", "hold": hold, "a": c2, "b": [bye]}, {"op": "send", "c": 2, "kind": "PINGREQ"}, {"op": "quiesce"}]
                out.append(ops)
    # a client that pipelines CONNECT with DISCONNECT (or hangs up) without waiting for the CONNACK: the set-up is parked where it
    # registers the session (or looks for earlier ones); whatever order the broker does things in, no trace of the session stays
    for hold in ("reg.create", "sess.create", "sess.byclientid"):
        for how in ("disconnect", "close"):
            c1 = {"op": "connect", "c": 1, "n": 1, "client": "hasty", "ka": 10}
            bye = {"op": "send", "c": 1, "kind": "DISCONNECT"} if how == "disconnect" else {"op": "close", "c": 1}
            out.append([{"op": "connect", "c": 9, "n": 1, "client": "pub", "ka": 6000},
                        {"op": "race", "hold": hold, "a": c1, "b": [bye]}] + sweeps + [{"op": "quiesce"}])
    return [{"nodes": [1], "ops": o} for o in out]


def will_scenarios():
    """sessions with a will that end in the middle of something (C13): the client hangs up (or pipelines a DISCONNECT) while its own
    CONNECT, SUBSCRIBE or teardown is parked; two watchers are subscribed to the will topic throughout"""
    out = []
    sweeps = [{"op": "sweep", "n": 1, "ms": 4500}, {"op": "sweep", "n": 1, "ms": 9000}]
    k = 0

    def base():
        return [{"op": "connect", "c": 9, "n": 1, "client": "watch1", "ka": 6000},
                {"op": "sub", "c": 9, "id": 1, "fs": [{"f": ["w", "#"], "q": 1}]},
                {"op": "connect", "c": 8, "n": 1, "client": "watch2", "ka": 6000},
                {"op": "sub", "c": 8, "id": 1, "fs": [{"f": ["w", "+"], "q": 0}, {"f": ["other"], "q": 1}]}]

    def mortal(k):
        return {"op": "connect", "c": 1, "n": 1, "client": "mortal", "ka": 10,
                "will": {"t": ["w", "m%d" % k], "p": "will-%d" % k, "q": k % 3, "r": k % 4 == 3}}
    for hold in ("reg.create", "sess.create", "sess.byclientid"):
        for how in ("close", "disconnect"):
            for _ in range(2):
                k += 1
                bye = {"op": "send", "c": 1, "kind": "DISCONNECT"} if how == "disconnect" else {"op": "close", "c": 1}
                out.append(base() + [{"op": "race", "hold": hold, "a": mortal(k), "b": [bye]}] + sweeps + [{"op": "quiesce"}])
    for hold in ("subs.create", "topics.get"):
        for how in ("close", "disconnect"):
            k += 1
            bye = {"op": "send", "c": 1, "kind": "DISCONNECT"} if how == "disconnect" else {"op": "close", "c": 1}
            sub = {"op": "sub", "c": 1, "id": 5, "fs": [{"f": ["w", "#"], "q": 1}]}
            out.append(base() + [mortal(k), {"op": "race", "hold": hold, "a": sub, "b": [bye]}] + sweeps + [{"op": "quiesce"}])
    for how in ("close", "disconnect"):
        k += 1
        leave = {"op": "close", "c": 1} if how == "close" else {"op": "send", "c": 1, "kind": "DISCONNECT"}
        sub = {"op": "sub", "c": 1, "id": 5, "fs": [{"f": ["a", "b"], "q": 1}]}
        pub = {"op": "pub", "c": 9, "t": ["a", "b"], "p": "meanwhile%d" % k, "q": 1, "r": False, "id": 50}
        out.append(base() + [mortal(k), sub, {"op": "race", "hold": "subs.delete", "a": leave, "b": [pub]}] + sweeps + [{"op": "quiesce"}])
    return [{"nodes": [1], "ops": o} for o in out]


def execute(run, scns, tag, shards=12, timeout=1800):
    spath = os.path.join(run.scratch, "race-%s.ndjson" % tag)
    with open(spath, "w") as f:
        for s in scns:
            f.write(json.dumps(s) + "\n")
    drv = run.gobuild("broker", tags="verif gates")
    shards = max(1, min(shards, len(scns)))
    outs = [os.path.join(run.scratch, "race-%s-%d.ndjson" % (tag, i)) for i in range(shards)]
    crashes = []

    def one(i):
        p = subprocess.run([drv, "-scenarios", spath, "-out", outs[i], "-shard", "%d/%d" % (i, shards)],
                           stdout=subprocess.PIPE, stderr=subprocess.PIPE, text=True, timeout=timeout, cwd=run.scratch)
        if p.returncode != 0:
            crashes.append((i, p.returncode, p.stderr[-6000:]))
    with ThreadPoolExecutor(max_workers=shards) as ex:
        list(ex.map(one, range(shards)))
    tpath = os.path.join(run.scratch, "race-%s.trace.ndjson" % tag)
    with open(tpath, "w") as out:
        for o in outs:
            if os.path.exists(o):
                with open(o) as f:
                    for ln in f:
                        out.write(ln)
                os.unlink(o)
    return tpath, crashes


def classify(scn, line):
    e = scn[line - 1]
    if e["op"] == "quiescent":
        return "race:owed-message-never-received"
    if e["op"] == "srv.write" and e.get("kind") == "PUBLISH":
        return "race:PUBLISH-to-a-session-that-may-not-get-it"
    if e["op"] == "probe":
        if e.get("held"):
            return "race:identifiers-held-at-quiescence"
        if not e.get("sessions") or len({x["client"] for x in e.get("sessions", [])}) < len({x.get("client") for x in scn[:line] if x.get("op") == "cli.send" and x.get("kind") == "CONNECT"}):
            return "race:client-id-left-without-a-session"
        return "race:trace-of-an-ended-session-listed"
    if e["op"] in ("stall", "process.died"):
        return "race:" + e["op"]
    return "race:%s-unexplained" % e["op"]


def check_family(run, prop, verdict, keep=lambda s: True, tag="race", scns=None):
    """-> (scenarios, events, validated, rejected, states)"""
    scns = [s for s in (scenarios() if scns is None else scns) if keep(s)]
    tpath, crashes = execute(run, scns, tag)
    if crashes:
        raise vlib.Inconclusive("broker driver (gates) died: %s" % crashes[0][2][-2000:])
    nev, nscn = vlib.count_lines(tpath, '"op":"new"')
    parked = sum(1 for ln in open(tpath) if '"op":"race.parked"' in ln and '"parked":true' in ln)
    validated, rejected, tstates = vlib.validate_scenarios(run, "RaceTrace", "RaceTrace.cfg", tpath, timeout=3000, max_rejections=4)
    for rj in rejected:
        scn, line = rj["scenario"], rj["line"]
        idx = scn[0]["scn"] - 1
        e = scn[line - 1]
        race = next((o for o in scns[idx]["ops"] if o["op"] == "race"), None) if 0 <= idx < len(scns) else None
        verdict.add(classify(scn, line),
                    "overlapping operations (%s parked at %s while %s ran): event %d %s is not what clients may rely on; trace: %s"
                    % (json.dumps(race["a"]) if race else "?", race["hold"] if race else "?", json.dumps(race["b"]) if race else "?",
                       line, json.dumps(e), json.dumps([x for x in scn[max(0, line - 25):line] if x["op"] in ("cli.send", "srv.write", "race.parked", "race.released", "quiescent")])[:3000]),
                    {"kind": "race", "scenario": scns[idx] if 0 <= idx < len(scns) else None, "rejected": e})
    run.log("overlapping operations: %d interleavings (%d parked at their gate), %d events, %d rejected" % (len(scns), parked, nev, len(rejected)))
    return len(scns), parked, nev, validated, len(rejected), tstates


def replay(run, prop, path):
    rp = json.load(open(path))
    tpath, crashes = execute(run, [rp["scenario"]], "replay", shards=1)
    ok, line, detail, _ = run.validate("RaceTrace", "RaceTrace.cfg", tpath)
    if ok:
        print("replay: accepted (no violation)")
        return 0
    print("replay: rejected at event %d" % line)
    print("VIOLATION property=%s replay=%s" % (prop, path))
    return 1
