---------------------------- MODULE MC_TopicStore ----------------------------
EXTENDS TopicStore
Spec == Init /\ [][Next]_<<store, snap>>
TypeOK == store \in [Keys -> Vals \cup {None}]
\* one key changes per write/remove; a load restores exactly the dumped map
Frame == [][(snap' = snap /\ snap = NoSnap) => Cardinality({k \in Keys : store'[k] # store[k]}) <= 1]_<<store, snap>>
CountRight == CountOf(store) <= K
=============================================================================
