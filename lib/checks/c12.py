"""C12  One live session per client identifier.

(M) Session.tla model-checked on connections sharing a client id over two nodes (OneResolved,
    SuccessorSpared, NoTraceLeft) - MC_Session_takeover*.cfg / MC_Session_chain.cfg.
(G) SessionGen: pairs and chains (3) of connections with one client id on the same or on
    different nodes; the old session's PINGREQ / SUBSCRIBE / DISCONNECT / connection loss
    interleaved with the newer connections in every order; a hand-written family where the
    accepting node still lists a stale record whose tombstone is in flight (still within C12's
    proviso: every earlier session's record has been merged).
(T) BrokerTrace: the new session is always established; a displaced session gets no PINGRESP and
    ends; at quiescence every node lists exactly the live, non-displaced sessions and their
    subscriptions - in particular the successor's record and subscriptions survive the teardown
    of the displaced session.
"""
import vlib
from checks import brokerlib, racelib, sessionlib


def cast(nodes_of):
    return {"nodes": sorted(set(nodes_of.values())), "ka": 10,
            # every session carries a will of its own (a displaced session's will may be published when it ends - once)
            "conns": {c: {"n": n, "client": "same", "filters": [{"f": ["k", str(c)], "q": 1}, {"f": ["k", "#"], "q": 0}],
                          "will": {"t": ["w", "same"], "p": "will-of-c%d" % c, "q": c % 2, "r": False}} for c, n in nodes_of.items()},
            "watchers": [{"c": 7, "n": 1, "user": "", "fs": [{"f": ["w", "#"], "q": 1}]}],
            "publishers": [{"c": 8, "n": 1, "topics": [["k", "1"], ["k", "2"], ["k", "3"]], "q": 1}]}


def stale_tombstone_family():
    """c1 live on node 1; c3 replaces it on node 1; node 2 receives the creations of c1 and c3 but not yet c1's
    tombstone; c2 is accepted on node 2.  Variants differ in which broadcast is held back and for how long."""
    out = []
    for variant in range(4):
        ops = [{"op": "gossip", "mode": "manual"},
               {"op": "connect", "c": 1, "n": 1, "client": "same", "ka": 10}, {"op": "collect"},      # mid 1: create c1
               {"op": "deliver", "mid": 1, "to": 2},
               {"op": "connect", "c": 3, "n": 1, "client": "same", "ka": 10}, {"op": "collect"}]      # mid 2: delete c1 ; mid 3: create c3
        if variant in (0, 1):
            ops += [{"op": "deliver", "mid": 3, "to": 2}]                                             # creation of c3 first, tombstone of c1 late
        else:
            ops += [{"op": "deliver", "mid": 2, "to": 2}, {"op": "deliver", "mid": 3, "to": 2}]       # control: everything merged
        ops += [{"op": "connect", "c": 2, "n": 2, "client": "same", "ka": 10}, {"op": "collect"}]
        if variant in (0, 1):
            ops += [{"op": "deliver", "mid": 2, "to": 2}]
        ops += [{"op": "gossip", "mode": "auto"}]
        if variant % 2 == 1:
            ops += [{"op": "sub", "c": 2, "id": 5, "fs": [{"f": ["k", "2"], "q": 1}]}]
        ops += [{"op": "send", "c": 1, "kind": "PINGREQ"}, {"op": "send", "c": 3, "kind": "PINGREQ"}, {"op": "send", "c": 2, "kind": "PINGREQ"},
                {"op": "quiesce"}]
        out.append({"nodes": [1, 2], "ops": ops})
    return out


def late_news_family():
    """The takeover happens while the gossip between the two nodes is held back: the new session is accepted on node 1 (which
    has merged the old session's record, C12's proviso) and the old session on node 2 ends - or not - before node 2 hears of the
    takeover, so that node 2's own, later-stamped removal of the old record reaches node 1 after the takeover.  Then everything
    is delivered, in order or newest first.  The new session must keep being served and listed everywhere."""
    out = []
    for ender in ("close", "disconnect", "none"):
        for mode in ("auto", "reverse"):
            for subs in (0, 1, 2):
                ops = [{"op": "connect", "c": 8, "n": 1, "client": "pub8", "user": "", "ka": 60000},
                       {"op": "connect", "c": 1, "n": 2, "client": "same", "ka": 10}]
                if subs == 2:
                    ops.append({"op": "sub", "c": 1, "id": 4, "fs": [{"f": ["k", "#"], "q": 0}]})
                ops += [{"op": "gossip", "mode": "hold"},
                        {"op": "connect", "c": 2, "n": 1, "client": "same", "ka": 10}]
                if subs >= 1:
                    ops.append({"op": "sub", "c": 2, "id": 5, "fs": [{"f": ["k", "2"], "q": 1}]})
                if ender == "close":
                    ops.append({"op": "close", "c": 1})
                elif ender == "disconnect":
                    ops.append({"op": "send", "c": 1, "kind": "DISCONNECT"})
                ops += [{"op": "gossip", "mode": mode}, {"op": "settle"}]
                if ender == "none":
                    ops.append({"op": "send", "c": 1, "kind": "PINGREQ"})
                ops += [{"op": "send", "c": 2, "kind": "PINGREQ"},
                        {"op": "pub", "c": 8, "t": ["k", "2"], "p": "after", "q": 1, "id": 7},
                        {"op": "send", "c": 2, "kind": "PINGREQ"}, {"op": "quiesce"}]
                out.append({"nodes": [1, 2], "ops": ops})
    return out


def third_node_family():
    """Three nodes.  The client is on node 1, reconnects to node 2 (which has merged the old session's record); node 3 receives
    node 2's broadcasts (removal of the old record, creation of the new one) BEFORE node 1's (creation of the old record, its
    subscription).  Once everything is delivered node 3 too must resolve the client identifier to the new session."""
    out = []
    for will in (False, True):
        for sub in (False, True):
            for order in ((2, 1), (1, 2)):
                c1 = {"op": "connect", "c": 1, "n": 1, "client": "same", "ka": 10}
                if will:
                    c1["will"] = {"t": ["w", "same"], "p": "will-old", "q": 1, "r": False}
                ops = [{"op": "gossip", "mode": "manual"},
                       {"op": "connect", "c": 8, "n": 3, "client": "pub8", "user": "", "ka": 60000},
                       {"op": "collect"}, {"op": "deliverfrom", "from": 3, "to": 1}, {"op": "deliverfrom", "from": 3, "to": 2},
                       c1]
                if sub:
                    ops.append({"op": "sub", "c": 1, "id": 4, "fs": [{"f": ["k", "#"], "q": 0}]})
                ops += [{"op": "collect"}, {"op": "deliverfrom", "from": 1, "to": 2},
                        {"op": "connect", "c": 2, "n": 2, "client": "same", "ka": 10},
                        {"op": "collect"}]
                for frm in order:                                  # node 3 hears node 2 first (the case) or node 1 first (the control)
                    ops.append({"op": "deliverfrom", "from": frm, "to": 3})
                ops += [{"op": "deliverfrom", "from": 2, "to": 1},
                        {"op": "gossip", "mode": "auto"}, {"op": "quiesce"},
                        {"op": "send", "c": 1, "kind": "PINGREQ"}, {"op": "send", "c": 2, "kind": "PINGREQ"}, {"op": "quiesce"}]
                out.append({"nodes": [1, 2, 3], "ops": ops})
    return out


def check(run):
    thorough = run.tier == "thorough"
    run.model_check("MC_Session", "MC_Session_takeover.cfg")
    if thorough:
        run.model_check("MC_Session", "MC_Session_chain.cfg", timeout=1500)
    enders = ["disconnect", "close"]
    pairs_same = sessionlib.gen(run, "c12a", [1, 2], [1], "N11", 5, ["short"], enders, maxidle=1)
    pairs_diff = sessionlib.gen(run, "c12b", [1, 2], [1, 2], "N12", 5, ["short"], enders, maxidle=1)
    chains = sessionlib.gen(run, "c12c", [1, 2, 3], [1, 2], "N121", 6 if thorough else 5, ["short"], enders, maxidle=0)

    def ok(h):
        return sum(1 for e in h if e["op"] == "connect") >= 2
    fam = [(pairs_same, cast({1: 1, 2: 1})), (pairs_diff, cast({1: 1, 2: 2})), (chains, cast({1: 1, 2: 2, 3: 1}))]
    scns = []
    for hs, c in fam:
        hs = [h for h in hs if ok(h)]
        step = max(1, len(hs) // (1500 if thorough else 85))
        scns += [sessionlib.build(h, c) for h in hs[::step]]
    scns += stale_tombstone_family()
    scns += late_news_family()
    scns += third_node_family()
    run.log("%d takeover scripts" % len(scns))
    tpath, crashes = brokerlib.execute(run, scns, "c12", shards=14, timeout=3000)
    if crashes:
        raise vlib.Inconclusive("broker driver died: %s" % crashes[0][2][-2000:])
    v = vlib.Verdict(run)
    nev, nscn, validated, rejected, tstates = brokerlib.validate(run, "C12", scns, tpath, v)
    # overlapping CONNECTs of one client identifier (one parked inside its set-up while the other completes)
    rn, rparked, rnev, rval, rrej, rts = racelib.check_family(
        run, "C12", v, keep=lambda s: any(o["op"] == "race" and o["a"]["op"] == "connect" for o in s["ops"]), tag="conn")
    validated += rval
    tstates += rts
    rc = v.finish()
    vlib.write_evidence(run, {
        "overlapping_connects": {"interleavings": rn, "parked_at_their_gate": rparked, "events": rnev, "rejections": rrej},
        "traces_validated_against_impl": validated,
        "evaluations": len(scns),
        "distinct_nontrivial": len(scns),
        "rule": "scenario = TLC-generated script with >= 2 connections sharing one client id (pairs on one node, pairs on two nodes, chains of three over "
                "two nodes; depth 5-6; connect / subscribe / ping / publish / DISCONNECT / close in every order, sampled evenly), each ending with a "
                "PINGREQ of every remaining connection and a probe of all nodes; plus 4 hand-written schedules with a tombstone in flight and 18 in which the takeover happens while gossip is held back and the old "
                "session ends (close / DISCONNECT / not at all) before its node hears of it, released in order or newest first; 8 three-node schedules in which the third node hears of the takeover before it hears of the old session",
        "events_validated": nev, "trace_spec_states": tstates, "rejections": len(rejected),
        "samples": [scns[0]["ops"][2:], scns[len(scns) // 2]["ops"][2:], scns[-1]["ops"]],
    }, ["C12's proviso: when a connection is accepted, the accepting node has merged the record of every earlier session of that client id "
        "(gossip is delivered between steps; the hand-written family delays only a tombstone)",
        "node clocks are not skewed in these runs (a takeover delete stamped by a lagging clock cannot win under LWW)"],
        violations=v.n_new)
    run.log("validated %d scripts (%d events), %d rejected (%d known)" % (validated, nev, len(rejected), v.n_known))
    return rc


def replay(run, path):
    import json
    if json.load(open(path)).get("kind") == "race":
        return racelib.replay(run, "C12", path)
    return brokerlib.replay(run, "C12", path)
