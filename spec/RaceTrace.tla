------------------------------ MODULE RaceTrace ------------------------------
(* What clients may rely on when their operations OVERLAP.  BrokerTrace follows scripts *)
(* whose steps are separated by quiescence, so it may update its picture of the          *)
(* subscriptions the moment a SUBSCRIBE is sent.  Here one operation is parked in the    *)
(* middle of its handler (a scheduler gate at a replicated-state call) while others run  *)
(* to completion, and only what holds under EVERY such interleaving is required:         *)
(*                                                                                       *)
(*   an operation is "complete" when its acknowledgement has been written (SUBACK,       *)
(*   UNSUBACK, PUBACK/PUBCOMP); "before" is the order of the recorded events.            *)
(*                                                                                       *)
(*   Live     a publish SENT after a matching subscription was COMPLETE (and not taken    *)
(*            back) reaches that session at least once             (C01, C02)             *)
(*   Latest   at quiescence every session with a complete, still active subscription has  *)
(*            received - live or as a retained replay - the last retained payload of      *)
(*            every matching topic (one sequential publisher per topic) (C07)            *)
(*   Only     a PUBLISH is written to a session only if it had SENT a matching            *)
(*            SUBSCRIBE before, and not if its UNSUBSCRIBE was complete before the        *)
(*            publish was even sent; with the publisher's topic; flagged as retained      *)
(*            only if the publisher retained it                        (C01, C07)         *)
(*   Bounded  no more copies than twice the session's matching subscriptions              *)
EXTENDS Integers, FiniteSets, Sequences, TLC, Json
VARIABLES l, subs, pubs, recv, live, order
T == INSTANCE Topics
Trace == ndJsonDeserialize("trace.ndjson")
Ev == Trace[l]
vars == <<l, subs, pubs, recv, live, order>>
Dom(f) == DOMAIN f
Get(f, k, d) == IF k \in DOMAIN f THEN f[k] ELSE d
Upd(f, k, v) == (k :> v) @@ f
Filters(fs) == {fs[i].f : i \in 1..Len(fs)}

TInit == TLCSet(1, 0) /\ l = 1 /\ subs = {} /\ pubs = <<>> /\ recv = <<>> /\ live = {} /\ order = <<>>

\* subs: [c, f, id, req (index of the SUBSCRIBE), ack (index of the SUBACK, 0), unreq, unack (UNSUBSCRIBE / UNSUBACK indices, 0)]
SendSubscribe ==
  /\ Ev.op = "cli.send" /\ Ev.kind = "SUBSCRIBE" /\ "dropped" \notin DOMAIN Ev
  /\ subs' = subs \cup {[c |-> Ev.c, f |-> f, id |-> Ev.id, req |-> l, ack |-> 0, unreq |-> 0, unack |-> 0] : f \in Filters(Ev.fs)}
  /\ UNCHANGED <<pubs, recv, live, order>>
SubAck ==
  /\ Ev.op = "srv.write" /\ Ev.kind = "SUBACK"
  /\ subs' = {IF s.c = Ev.c /\ s.id = Ev.id /\ s.ack = 0 THEN [s EXCEPT !.ack = l] ELSE s : s \in subs}
  /\ UNCHANGED <<pubs, recv, live, order>>
SendUnsubscribe ==
  /\ Ev.op = "cli.send" /\ Ev.kind = "UNSUBSCRIBE" /\ "dropped" \notin DOMAIN Ev
  /\ subs' = {IF s.c = Ev.c /\ s.f \in Filters(Ev.fs) /\ s.unreq = 0 THEN [s EXCEPT !.unreq = l, !.id = Ev.id] ELSE s : s \in subs}
  /\ UNCHANGED <<pubs, recv, live, order>>
UnsubAck ==
  /\ Ev.op = "srv.write" /\ Ev.kind = "UNSUBACK"
  /\ subs' = {IF s.c = Ev.c /\ s.unreq > 0 /\ s.unack = 0 /\ s.id = Ev.id THEN [s EXCEPT !.unack = l] ELSE s : s \in subs}
  /\ UNCHANGED <<pubs, recv, live, order>>
\* pubs: payload -> [c, id, t, r, q, sent, acked]; order: topic -> sequence of retained payloads in the order they were sent
SendPublish ==
  /\ Ev.op = "cli.send" /\ Ev.kind = "PUBLISH" /\ "dropped" \notin DOMAIN Ev /\ Ev.p # ""
  /\ Ev.p \notin Dom(pubs)
  /\ pubs' = Upd(pubs, Ev.p, [c |-> Ev.c, id |-> Ev.id, t |-> Ev.t, r |-> Ev.r, q |-> Ev.q, sent |-> l, acked |-> 0])
  /\ order' = IF Ev.r THEN Upd(order, Ev.t, Append(Get(order, Ev.t, <<>>), Ev.p)) ELSE order
  /\ UNCHANGED <<subs, recv, live>>
PubAck ==
  /\ Ev.op = "srv.write" /\ Ev.kind \in {"PUBACK", "PUBCOMP"}
  /\ pubs' = [p \in Dom(pubs) |-> IF pubs[p].c = Ev.c /\ pubs[p].id = Ev.id /\ pubs[p].acked = 0 THEN [pubs[p] EXCEPT !.acked = l] ELSE pubs[p]]
  /\ UNCHANGED <<subs, recv, live, order>>
Connected ==
  /\ Ev.op = "srv.write" /\ Ev.kind = "CONNACK" /\ Ev.code = 0
  /\ live' = live \cup {Ev.c} /\ UNCHANGED <<subs, pubs, recv, order>>
Gone ==
  /\ Ev.op \in {"srv.close", "cli.close"} \/ (Ev.op = "cli.send" /\ Ev.kind = "DISCONNECT")
  /\ live' = live \ {Ev.c} /\ UNCHANGED <<subs, pubs, recv, order>>

Matching(c, t) == {s \in subs : s.c = c /\ T!Matches(s.f, t)}
Deliver ==
  /\ Ev.op = "srv.write" /\ Ev.kind = "PUBLISH" /\ Ev.p # ""
  /\ Ev.p \in Dom(pubs)
  /\ LET p == pubs[Ev.p] IN
     /\ Ev.t = p.t                                                              \* Only: the publisher's topic
     /\ (Ev.r => p.r)                                                           \* Only: flagged only if retained by the publisher
     /\ \E s \in Matching(Ev.c, p.t) : s.req < l /\ (s.unack = 0 \/ p.sent < s.unack)     \* Only
     /\ Get(recv, <<Ev.c, Ev.p>>, 0) < 2 * Cardinality(Matching(Ev.c, p.t))              \* Bounded
  /\ recv' = Upd(recv, <<Ev.c, Ev.p>>, Get(recv, <<Ev.c, Ev.p>>, 0) + 1)
  /\ UNCHANGED <<subs, pubs, live, order>>

Active(s) == s.ack > 0 /\ s.unreq = 0 /\ s.c \in live
Sequential(ps) == \A i \in 1..(Len(ps) - 1) : pubs[ps[i]].acked > 0 /\ pubs[ps[i]].acked < pubs[ps[i + 1]].sent
Quiescent ==
  /\ Ev.op = "quiescent"
  \* Live
  /\ \A p \in Dom(pubs) : \A s \in subs :
        (Active(s) /\ s.ack < pubs[p].sent /\ T!Matches(s.f, pubs[p].t) /\ pubs[p].c \in live) => Get(recv, <<s.c, p>>, 0) >= 1
  \* Latest
  /\ \A t \in Dom(order) :
        LET ps == order[t] last == ps[Len(ps)] IN
        (Sequential(ps) /\ pubs[last].c \in live) =>
          \A s \in subs : (Active(s) /\ T!Matches(s.f, t)) => Get(recv, <<s.c, last>>, 0) >= 1
  /\ UNCHANGED <<subs, pubs, recv, live, order>>

\* C06 at the writer: in these scenarios every client acknowledges at once and sweeps precede the probe, so no packet
\* identifier may still be held when everything is quiet
Probe == Ev.op = "probe" /\ Len(Ev.held) = 0 /\ UNCHANGED <<subs, pubs, recv, live, order>>
Other ==
  /\ Ev.op # "probe"
  /\ ~(Ev.op = "cli.send" /\ Ev.kind \in {"SUBSCRIBE", "UNSUBSCRIBE", "PUBLISH", "DISCONNECT"} /\ "dropped" \notin DOMAIN Ev)
  /\ ~(Ev.op = "srv.write" /\ Ev.kind \in {"SUBACK", "UNSUBACK", "PUBACK", "PUBCOMP", "PUBLISH", "CONNACK"})
  /\ Ev.op \notin {"srv.close", "cli.close", "quiescent", "new", "stall", "process.died"}
  /\ UNCHANGED <<subs, pubs, recv, live, order>>
New == Ev.op = "new" /\ subs' = {} /\ pubs' = <<>> /\ recv' = <<>> /\ live' = {} /\ order' = <<>>
EmptyPublish == Ev.op \in {"cli.send", "srv.write"} /\ Ev.kind = "PUBLISH" /\ Ev.p = "" /\ UNCHANGED <<subs, pubs, recv, live, order>>
Refused == Ev.op = "srv.write" /\ Ev.kind = "CONNACK" /\ Ev.code # 0 /\ UNCHANGED <<subs, pubs, recv, live, order>>

Step == /\ l <= Len(Trace) /\ l' = l + 1
        /\ \/ New \/ SendSubscribe \/ SubAck \/ SendUnsubscribe \/ UnsubAck \/ SendPublish \/ PubAck \/ Connected \/ Gone
           \/ Deliver \/ Quiescent \/ Other \/ EmptyPublish \/ Refused \/ Probe
TSpec == TInit /\ [][Step]_vars
HighWater == TLCSet(1, IF TLCGet(1) > l THEN TLCGet(1) ELSE l)
Accepted == IF TLCGet(1) - 1 = Len(Trace) THEN PrintT("TRACE_ACCEPTED")
            ELSE PrintT(<<"REJECTED_AT_LINE", TLCGet(1), Trace[TLCGet(1)]>>) /\ FALSE
=============================================================================
