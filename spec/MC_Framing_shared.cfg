CONSTANTS Base = 2 Conn = {1, 2} Shared = TRUE Packets <- MCPackets
SPECIFICATION Spec
INVARIANT Faithful
CHECK_DEADLOCK FALSE
