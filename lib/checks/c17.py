"""C17  Mount points isolate tenants.

(M) Session.tla (tenants are disjoint instances: client-id resolution is per tenant) and
    Topics.tla Prefix/Trim; the isolation itself is a trace-level property of BrokerTrace.
(G) SessionGen scripts for three connections - two tenants, the same client identifier used
    in both - with subscriptions '#', '+', '+/+', exact; publishers, retained messages and wills
    in each tenant; connect / subscribe / ping / publish / end in every order.
(T) BrokerTrace: a PUBLISH written to a session must stem from a message of the session's own
    tenant and carry exactly the topic levels the publisher used; a session is displaced only by
    a later session of the same client id in the same tenant, so tenant A's session keeps being
    served (PINGRESP, listed on every node) after tenant B connects with its client id.
"""
import json

import vlib
from checks import brokerlib, sessionlib

CAST = {
    "nodes": [1, 2], "ka": 10,
    "conns": {1: {"n": 1, "client": "dev", "user": "tenant:A", "will": {"t": ["st", "dev"], "p": "will-A", "q": 1, "r": False},
                  "filters": [{"f": ["#"], "q": 1}, {"f": ["+", "+"], "q": 0}]},
              2: {"n": 2, "client": "dev", "user": "tenant:B", "will": {"t": ["st", "dev"], "p": "will-B", "q": 0, "r": True},
                  "filters": [{"f": ["#"], "q": 0}, {"f": ["st", "+"], "q": 1}]},
              3: {"n": 1, "client": "dev3", "user": "tenant:A", "filters": [{"f": ["+"], "q": 1}, {"f": ["st", "#"], "q": 2}]}},
    "watchers": [{"c": 7, "n": 2, "user": "tenant:A", "fs": [{"f": ["#"], "q": 1}, {"f": ["..", "@B", "#"], "q": 0}, {"f": ["..", "+", "#"], "q": 0}]},
                 {"c": 6, "n": 1, "user": "tenant:B", "fs": [{"f": ["#"], "q": 1}]},
                 {"c": 5, "n": 1, "user": "", "fs": [{"f": ["#"], "q": 0}, {"f": ["A", "#"], "q": 0}, {"f": ["B", "#"], "q": 0}]}],
    # names that also exist in the other tenant, names spelling the other tenant, and names with '..', '.', empty, leading and
    # trailing levels: a level is a string like any other - nothing in a name may move it to another tenant or be tidied away
    "publishers": [{"c": 8, "n": 1, "user": "tenant:A", "topics": [["st", "dev"], ["x"], ["B", "x"], ["..", "@B", "x"], ["", "lead"], ["e", "", "l"], ["d", "..", "up"]],
                    "q": 1, "r": True},
                   {"c": 9, "n": 2, "user": "tenant:B", "topics": [["st", "dev"], ["x"], ["A", "x"], ["trail", ""], [".", "dot"], ["x", ".", "y"]], "q": 0, "r": False},
                   # a QoS 2 publisher whose PUBREL comes only after the other tenants' publishes of the same round
                   {"c": 10, "n": 1, "user": "tenant:A", "topics": [["alarms", "door"], ["st", "dev"], ["q2"]], "q": 2, "r": False}],
}


def with_tenants(cast, a, b):
    """the same cast with other mount-point names (mount points may contain '/'); the level "@B" stands for tenant b's name"""
    c = json.loads(json.dumps(cast).replace("tenant:A", "tenant:" + a).replace("tenant:B", "tenant:" + b))

    def expand(x):
        if isinstance(x, list) and all(isinstance(y, str) for y in x):
            out = []
            for y in x:
                out += b.split("/") if y == "@B" else [y]
            return out
        if isinstance(x, list):
            return [expand(y) for y in x]
        if isinstance(x, dict):
            return {k: expand(v) for k, v in x.items()}
        return x
    return expand(c)


def failure_family(a, b):
    """The node hosting tenant <a>'s will-carrying sessions fails.  The will topics are named like tenant <b> (its mount point
    followed by a level) and like a topic <b> itself uses; one will is retained.  Watchers of both tenants and of the default
    one are subscribed to '#' before the failure, and another set subscribes afterwards (retained replay)."""
    out = []
    blv = b.split("/")
    alv = a.split("/")
    for r, q in ((True, 1), (True, 0), (False, 1)):
        for late_first in (False, True):
            ops = []
            for c, user in ((7, "tenant:" + a), (6, "tenant:" + b), (5, "")):
                ops += [{"op": "connect", "c": c, "n": 1, "client": "watch%d" % c, "user": user, "ka": 60000},
                        {"op": "sub", "c": c, "id": 1, "fs": [{"f": ["#"], "q": 1}]}]
            ops += [{"op": "connect", "c": 9, "n": 1, "client": "pub9", "user": "tenant:" + b, "ka": 60000},
                    {"op": "pub", "c": 9, "t": ["alarm"], "p": "b-own-alarm", "q": 1, "r": True, "id": 3},
                    {"op": "connect", "c": 1, "n": 2, "client": "dev", "user": "tenant:" + a, "ka": 10,
                     "will": {"t": blv + ["alarm"], "p": "will-named-like-b", "q": q, "r": r}},
                    {"op": "connect", "c": 2, "n": 2, "client": "dev2", "user": "tenant:" + a, "ka": 10,
                     "will": {"t": ["alarm"], "p": "will-alarm", "q": 0, "r": not r}},
                    # will topics that begin like the session's OWN mount point: with a separator, and as a mere string prefix
                    {"op": "connect", "c": 11, "n": 2, "client": "dev3", "user": "tenant:" + a, "ka": 10,
                     "will": {"t": alv + ["status"], "p": "will-named-like-a", "q": q, "r": False}},
                    {"op": "connect", "c": 12, "n": 2, "client": "dev4", "user": "tenant:" + a, "ka": 10,
                     "will": {"t": alv[:-1] + [alv[-1] + "-east", "status"], "p": "will-prefixed-like-a", "q": 1, "r": False}},
                    {"op": "peerfail", "n": 2, "ms": 3300}]
            late = [(4, "tenant:" + b), (3, "tenant:" + a), (10, "")]
            if late_first:
                late.reverse()
            for c, user in late:
                ops += [{"op": "connect", "c": c, "n": 1, "client": "late%d" % c, "user": user, "ka": 60000},
                        {"op": "sub", "c": c, "id": 1, "fs": [{"f": ["#"], "q": 1}, {"f": ["alarm"], "q": 0}]}]
            ops.append({"op": "quiesce"})
            out.append({"nodes": [1, 2], "ops": ops})
    return out


def redelivery_family(a, b):
    """round 8: a delivery inside tenant <a> whose acknowledgement is withheld is sent again (and, for QoS 2, released) when its deadline
    passes: what is sent again carries exactly the name the publisher used, like the first transmission - long names, and names shorter
    than the mount point.  A watcher of tenant <b> and one of the default tenant see nothing of it."""
    out = []
    for q in (1, 2):
        for t in (["plant", "line-4", "temp"], ["x"], [a.split("/")[0]], ["", "y"]):
            tag = "rd%d-%s" % (q, "_".join(t))
            ops = [{"op": "connect", "c": 1, "n": 1, "client": "slow", "user": "tenant:" + a, "ka": 60000, "auto": "none"},
                   {"op": "sub", "c": 1, "id": 1, "fs": [{"f": ["#"], "q": q}]},
                   {"op": "connect", "c": 6, "n": 1, "client": "watch-b", "user": "tenant:" + b, "ka": 60000},
                   {"op": "sub", "c": 6, "id": 1, "fs": [{"f": ["#"], "q": 1}]},
                   {"op": "connect", "c": 5, "n": 1, "client": "watch-d", "user": "", "ka": 60000},
                   {"op": "sub", "c": 5, "id": 1, "fs": [{"f": ["#"], "q": 1}]},
                   {"op": "connect", "c": 9, "n": 1, "client": "pub", "user": "tenant:" + a, "ka": 60000},
                   {"op": "pub", "c": 9, "t": t, "p": tag, "q": 1, "r": False, "id": 1},
                   {"op": "sweep", "n": 1, "ms": 3300}, {"op": "sweep", "n": 1, "ms": 6600}]
            if q == 1:
                ops += [{"op": "ackmsg", "c": 1, "p": tag, "kind": "PUBACK"}]
            else:
                ops += [{"op": "ackmsg", "c": 1, "p": tag, "kind": "PUBREC"}, {"op": "sweep", "n": 1, "ms": 9900},
                        {"op": "ackmsg", "c": 1, "p": tag, "kind": "PUBCOMP"}]
            ops += [{"op": "sweep", "n": 1, "ms": 13200}, {"op": "quiesce"}]
            out.append({"nodes": [1], "ops": ops})
    return out


def check(run):
    thorough = run.tier == "thorough"
    run.model_check("MC_Session", "MC_Session_takeover.cfg")
    hs = sessionlib.gen(run, "c17", [1, 2, 3], [1, 2], "N121", 5 if not thorough else 6, ["short"], ["disconnect", "close"], maxidle=0)
    hs = [h for h in hs if sum(1 for e in h if e["op"] == "connect") >= 2 and any(e["op"] == "publish" for e in h)]
    hs = hs[:: max(1, len(hs) // (3000 if thorough else 220))]
    # (a mount point nested inside another one, like "A" and "A/x", aliases topics by construction: not claimed)
    casts = [with_tenants(CAST, "A", "B"), with_tenants(CAST, "org/north", "org/south"), with_tenants(CAST, "org/north", "B")]
    scns = []
    for i, h in enumerate(hs):
        c = json.loads(json.dumps(casts[i % 3]))
        c["conns"] = {int(k): v for k, v in c["conns"].items()}
        scns.append(sessionlib.build(h, c))
    # the same client identifier in both tenants, with keep-alive exchanges before and after the other tenant's session connects:
    # resolving a client identifier (at CONNECT and at every PINGREQ) must never cross tenants
    E = lambda op, c, x="": {"op": op, "c": c, "x": x}
    same = [[E("connect", 1), E("ping", 1), E("connect", 2), E("ping", 2), E("ping", 1), E("publish", 0)],
            [E("connect", 1), E("connect", 2), E("ping", 2), E("ping", 1), E("publish", 0), E("ping", 2)],
            [E("connect", 2), E("ping", 2), E("connect", 1), E("sub", 1), E("publish", 0), E("ping", 2), E("ping", 1)],
            [E("connect", 1), E("ping", 1), E("connect", 2), E("end", 2, "disconnect"), E("ping", 1), E("publish", 0)],
            [E("connect", 1), E("ping", 1), E("connect", 2), E("connect", 3), E("ping", 1), E("ping", 2), E("ping", 3)]]
    for h in same:
        for cst in casts:
            c = json.loads(json.dumps(cst))
            c["conns"] = {int(k): v for k, v in c["conns"].items()}
            scns.append(sessionlib.build(h, c))
    ff = failure_family("A", "B") + failure_family("org/north", "org/south") + failure_family("A", "org/south")
    scns += ff
    scns += redelivery_family("A", "B") + redelivery_family("org/north", "org/south")
    run.log("%d tenant scripts (%d with the failure of a node hosting wills named like the other tenant)" % (len(scns), len(ff)))
    tpath, crashes = brokerlib.execute(run, scns, "c17", shards=14, timeout=3000)
    if crashes:
        raise vlib.Inconclusive("broker driver died: %s" % crashes[0][2][-2000:])
    v = vlib.Verdict(run)
    nev, nscn, validated, rejected, tstates = brokerlib.validate(run, "C17", scns, tpath, v)
    rc = v.finish()
    vlib.write_evidence(run, {
        "traces_validated_against_impl": validated,
        "evaluations": len(scns),
        "distinct_nontrivial": len(scns),
        "rule": "scenario = TLC-generated script (depth %d, >= 2 connects and >= 1 publish round) for 3 connections in tenants A, B, A with client ids "
                "dev, dev, dev3 on two nodes; each publish round publishes in both tenants (one retained) on topics that also exist in the other "
                "tenant and on topics named like the other tenant; three '#' watchers (A, B, default tenant); plus node failures with (retained) wills "
                "whose topics are named like the other tenant's mount point, watched before and subscribed to after the failure; plus 5 schedules in which the "
                "same client identifier is used in both tenants with keep-alive exchanges before and after the other one connects" % (6 if thorough else 5),
        "events_validated": nev, "trace_spec_states": tstates, "rejections": len(rejected),
        "samples": [hs[0], hs[len(hs) // 2]],
    }, ["mount points named like 'org/north' (with a '/') are exercised; a mount point that is a prefix-plus-'/' of another one AND publishes topics that spell the other one's name would alias by construction - the casts avoid topics starting with the sibling's last component; '+' and '#' in mount-point names are not exercised",
        "the harness' authentication seam maps user 'tenant:<name>' to mount point <name>"],
        violations=v.n_new)
    run.log("validated %d scripts (%d events), %d rejected (%d known)" % (validated, nev, len(rejected), v.n_known))
    return rc


def replay(run, path):
    return brokerlib.replay(run, "C17", path)
