package commitlog

import (
	"io"
	"sync"

	"github.com/pkg/errors"
)

type Cursor interface {
	io.ReadSeeker
}

type cursor struct {
	mtx            sync.Mutex
	currentSegment Segment
	pos            int64
	log            *commitLog
}

func (c *cursor) Seek(offset int64, whence int) (int64, error) {
	c.mtx.Lock()
	defer c.mtx.Unlock()
	return c.seek(offset, whence)
}

func (c *cursor) seek(offset int64, whence int) (int64, error) {
	var err error
	var target uint64
	switch whence {
	case io.SeekEnd:
		lastOffset := int64(c.log.currentOffset)
		if offset > lastOffset {
			target = uint64(lastOffset)
		} else {
			target = uint64(lastOffset + offset)
		}
	case io.SeekStart:
		if offset < 0 {
			return 0, errors.New("invalid offset")
		}
		target = uint64(offset)
	case io.SeekCurrent:
		return 0, errors.New("SeekCurrent unsupported when reading the log")
	default:
		return 0, errors.New("invalid whence")
	}
	c.currentSegment = c.log.lookupOffset(target)
	c.pos, err = c.currentSegment.LookupPosition(target)
	return int64(target), err

}

func (c *cursor) Read(p []byte) (int, error) {
	c.mtx.Lock()
	defer c.mtx.Unlock()
	var total int

	for {
		n, err := c.currentSegment.ReadAt(p[total:], c.pos)
		c.pos += int64(n)
		total += n
		if err == io.EOF {
			currentLogOffset := c.currentSegment.BaseOffset() + c.currentSegment.CurrentOffset()
			if c.log.currentOffset == currentLogOffset {
				return total, err
			}
			c.currentSegment = c.log.lookupOffset(currentLogOffset)
			c.pos = 0
			if len(p) > total {
				continue
			}
		}
		return total, err
	}
}
