------------------------------ MODULE MC_Inbound ------------------------------
EXTENDS Inbound
CONSTANT MaxToggles
Spec == Init /\ [][Next]_vars
MCHosts == [m \in Msgs |-> CASE m = "m1" -> {"n1", "n2"} [] m = "m2" -> {"n2"} [] OTHER -> {}]
MCNodeOf == [c \in Client |-> "n1"]
\* C05: an acknowledgement exists only if every hosting node's log has the message
AckAfterStore == \A a \in acks : \A d \in HostsOf[a[3]] : InLog(d, a[3])
\* C05: a message is resolved for distribution at most once (never on PUBLISH alone for QoS 2: hs members have fwd 0)
ForwardOnce == (\A m \in Msgs : fwd[m] <= 1) /\ (\A k \in Dom(hs) : fwd[hs[k]] = 0)
\* C14: appended only to hosting nodes, at most once each
OnlyDestinations == \A n \in Node : \A i, j \in 1..Len(logs[n]) :
                       /\ n \in HostsOf[logs[n][i]] /\ (logs[n][i] = logs[n][j] => i = j)
\* C14: a failing destination does not keep the others from being served
FailureIsolation == [][\A r \in reqs : (r.resolved /\ r.failed) => \A d \in r.todo : d \notin down => ENABLED Store(r, d)]_vars
=============================================================================
