"""C18  No client input can crash the broker or stall other clients.

(M) ConnFsm.tla model-checked (BrokerAlive, OnlyOffenderEnds, WitnessServable).
(G) ConnFsmGen: every sequence of 3 (thorough 4, sampled) inputs over all control packet types
    (also those only a broker sends), MALFORMED and EOF, starting before CONNECT.  Per MALFORMED
    the harness supplies structure-aware byte mutations of valid packets: truncation at every
    offset (followed by EOF), every type/flag nibble, remaining-length edge values (0, len+-1,
    127/128, 16383/16384, 2097151/2097152, 268435455, 5 bytes), inner length prefixes (0, len+-1,
    0xFFFF), QoS 3, empty topic lists, identifier 0, well-formed packets with wildcard / odd topic
    names and misplaced wildcards in filters, and seeded random bytes.
(T) the brokers run in child processes of the check: a panic kills the process (exit status and
    panic trace are the observation).  After every hostile stream a pre-established witness pair
    does a QoS 1 round trip; BrokerTrace validates that only the offender's session ends, that the
    witness is served, and that nothing stalls (a stall is a recorded event without a spec step).
"""
import json
import os
import random
import re

import vlib
from checks import brokerlib, transportlib


# ---- a tiny MQTT encoder (python side), used only to build valid packets that are then mutated
def lp(b):
    return bytes([len(b) >> 8, len(b) & 255]) + b


def remlen(n):
    out = b""
    while True:
        d = n % 128
        n //= 128
        if n:
            d |= 0x80
        out += bytes([d])
        if not n:
            return out


def frame(first, body):
    return bytes([first]) + remlen(len(body)) + body


def valid(kind, k=0):
    cid = ("h%d" % k).encode()
    if kind == "CONNECT":
        return frame(0x10, lp(b"MQTT") + bytes([4, 2, 0, 60]) + lp(cid))
    if kind.startswith("CONNECTWILL"):
        # will flag + will QoS (0, 1 or 2) [+ will retain]
        q = int(kind[-1]) if kind[-1].isdigit() else 1
        flags = 0x02 | 0x04 | (q << 3) | (0x20 if q == 1 else 0)
        return frame(0x10, lp(b"MQTT") + bytes([4, flags, 0, 60]) + lp(cid) + lp(b"hw/t") + lp(b"hostile-will"))
    if kind == "CONNACK":
        return frame(0x20, bytes([0, 0]))
    if kind.startswith("PUBLISH"):
        q = int(kind[-1])
        body = lp(b"h/x") + (bytes([0, 7]) if q else b"") + b"hostile"
        return frame(0x30 | (q << 1), body)
    if kind in ("PUBACK", "PUBREC", "PUBCOMP", "UNSUBACK"):
        return frame({"PUBACK": 0x40, "PUBREC": 0x50, "PUBCOMP": 0x70, "UNSUBACK": 0xb0}[kind], bytes([0, 7]))
    if kind == "PUBREL":
        return frame(0x62, bytes([0, 7]))
    if kind == "SUBSCRIBE":
        return frame(0x82, bytes([0, 9]) + lp(b"h/x") + bytes([1]) + lp(b"h/y/z") + bytes([0]))
    if kind == "SUBACK":
        return frame(0x90, bytes([0, 9, 1]))
    if kind == "UNSUBSCRIBE":
        return frame(0xa2, bytes([0, 9]) + lp(b"h/x"))
    if kind == "PINGREQ":
        return bytes([0xc0, 0])
    if kind == "PINGRESP":
        return bytes([0xd0, 0])
    if kind == "DISCONNECT":
        return bytes([0xe0, 0])
    raise KeyError(kind)


BASES = ["CONNECT", "CONNECTWILL", "PUBLISH0", "PUBLISH1", "PUBLISH2", "PUBACK", "PUBREL", "SUBSCRIBE", "UNSUBSCRIBE", "PINGREQ", "DISCONNECT"]


def mutations(rng, thorough):
    """-> list of (class, bytes, eof_after)"""
    out = []
    for b in BASES:
        v = valid(b)
        for i in range(1, len(v)):
            out.append(("truncated-%s@%d" % (b, i), v[:i], True))
        body = v[2:] if v[1] < 128 else v[3:]
        for first in (range(256) if thorough or b in ("PUBLISH1", "SUBSCRIBE") else range(0, 256, 16)):
            out.append(("firstbyte-%s-%02x" % (b, first), bytes([first]) + v[1:], False))
        for rl in [0, len(body) - 1, len(body) + 1, 127, 128, 16383, 16384, 2097151, 2097152]:
            if rl >= 0:
                out.append(("remlen-%s-%d" % (b, rl), v[:1] + remlen(rl) + body, rl < 100000))
        if b in ("PUBLISH1", "SUBSCRIBE"):
            # the largest length MQTT can announce: the decoder allocates it up front (256 MB) and waits for the bytes
            out.append(("remlen-%s-268435455" % b, v[:1] + remlen(268435455) + body, False))
        out.append(("remlen5-%s" % b, v[:1] + bytes([0xff, 0xff, 0xff, 0xff, 0x7f]) + body, True))
    # inner length prefixes
    for b, off in (("CONNECT", 2), ("CONNECT", 12), ("PUBLISH1", 2), ("SUBSCRIBE", 4), ("UNSUBSCRIBE", 4), ("CONNECTWILL", 16)):
        v = bytearray(valid(b))
        ln = (v[off] << 8) | v[off + 1]
        for x in (0, max(ln - 1, 0), ln + 1, 0xFFFF, 0x7FFF):
            w = bytearray(v)
            w[off], w[off + 1] = x >> 8, x & 255
            out.append(("innerlen-%s@%d=%d" % (b, off, x), bytes(w), False))
            out.append(("innerlen-eof-%s@%d=%d" % (b, off, x), bytes(w), True))
    out.append(("qos3-publish", frame(0x36, lp(b"h/x") + bytes([0, 7]) + b"p"), False))
    out.append(("subscribe-no-topics", frame(0x82, bytes([0, 9])), False))
    out.append(("subscribe-qos3", frame(0x82, bytes([0, 9]) + lp(b"h/x") + bytes([3])), False))
    out.append(("subscribe-empty-filter", frame(0x82, bytes([0, 9]) + lp(b"") + bytes([0])), False))
    out.append(("unsubscribe-no-topics", frame(0xa2, bytes([0, 9])), False))
    out.append(("publish-id0", frame(0x32, lp(b"h/x") + bytes([0, 0]) + b"p"), False))
    out.append(("publish-empty-topic", frame(0x30, lp(b"") + b"p"), False))
    out.append(("puback-id0", frame(0x40, bytes([0, 0])), False))
    out.append(("empty-body-publish", bytes([0x32, 0]), False))
    out.append(("empty-body-subscribe", bytes([0x82, 0]), False))
    out.append(("empty-body-connect", bytes([0x10, 0]), False))
    out.append(("connect-bad-protocol", frame(0x10, lp(b"MQIsdp") + bytes([4, 2, 0, 60]) + lp(b"x")), False))
    out.append(("connect-version-9", frame(0x10, lp(b"MQTT") + bytes([9, 2, 0, 60]) + lp(b"x")), False))
    # well-formed packets that violate the protocol where it meets shared state: topic names with wildcards (retained or not),
    # filters with misplaced wildcards, odd level structures, a retained will on a wildcard topic.  The names overlap with the
    # witnesses' retained topics wit/r0..2 when read as patterns, but match none of the witnesses' (exact) filters.
    for t in (b"wit/+", b"wit/#", b"#", b"+/+", b"wit/r0/#", b"+", b"/", b"//", b"wit//", b"$SYS/x", b"wit/" + b"a/" * 300 + b"z", b"w" * 40000):
        for q, ret in ((0, True), (1, True), (1, False)):
            body = lp(t) + (bytes([0, 11]) if q else b"") + b"hostile-semantic"
            out.append(("publish-%s-topic-%s" % ("retained" if ret else "plain", t[:12].decode()), frame(0x30 | (q << 1) | (1 if ret else 0), body), False))
    for f in (b"wit/#/x", b"wit/r+", b"#/#", b"wit/+/#/+", b"+wit", b"#"):
        out.append(("subscribe-filter-%s" % f.decode(), frame(0x82, bytes([0, 9]) + lp(f) + bytes([1])), False))
        out.append(("unsubscribe-filter-%s" % f.decode(), frame(0xa2, bytes([0, 9]) + lp(f)), False))
    # reserved requested-QoS values on filters that match what other clients publish: the subscription is stored as sent and
    # the value meets the delivery path later, on somebody else's publish
    for f in (b"#", b"wit", b"wit/#", b"+"):
        for rq in (3, 4, 127, 128, 255):
            out.append(("subscribe-filter-%s-reserved-qos-%d" % (f.decode(), rq), frame(0x82, bytes([0, 9]) + lp(f) + bytes([rq])), False))
    out.append(("subscribe-filter-two-one-reserved-qos", frame(0x82, bytes([0, 9]) + lp(b"wit") + bytes([1]) + lp(b"#") + bytes([3])), False))
    for q in (0, 1):
        flags = 0x02 | 0x04 | (q << 3) | 0x20
        out.append(("connect-retained-will-on-wildcard-topic-q%d" % q,
                    frame(0x10, lp(b"MQTT") + bytes([4, flags, 0, 60]) + lp(b"hw%d" % q) + lp(b"wit/+") + lp(b"hostile-will")), True))
    for i in range(60 if not thorough else 600):
        n = rng.randint(1, 40)
        out.append(("random-%d" % i, bytes(rng.randrange(256) for _ in range(n)), rng.random() < 0.5))
    return out


def hostile_ops(c, pre_connect, stream):
    """stream: list of ('raw', cls, bytes, eof) | ('valid', kind)"""
    ops = [{"op": "connect", "c": c, "n": 1, "client": "h%d" % c, "ka": 60}] if pre_connect else \
          [{"op": "open", "c": c, "n": 1}]
    for item in stream:
        if item[0] == "raw":
            ops.append({"op": "raw", "c": c, "hex": item[2].hex(), "cls": item[1], "ms": 8})
            if item[3]:
                ops.append({"op": "close", "c": c, "nowait": True})
                ops.append({"op": "wait", "ms": 8})
                break
        else:
            ops.append({"op": "raw", "c": c, "hex": valid(item[1], c).hex(), "cls": "valid-" + item[1], "ms": 8})
    return ops


def witness_trip(k):
    ops = [{"op": "pub", "c": 91, "t": ["wit"], "p": "w%d" % k, "q": 1, "id": 1 + k % 60000}]
    if k % 4 == 3:
        # other clients "continue to publish and receive normally" also means: retained publishes are stored, a new client can
        # connect, subscribe (retained replay), ping and leave
        r = "r%d" % (k % 3)
        c = 300 + k
        ops += [{"op": "pub", "c": 91, "t": ["wit", r], "p": "ret%d" % k, "q": 1, "r": True, "id": 2 + k % 60000},
                {"op": "connect", "c": c, "n": 1, "client": "wit-late%d" % k, "ka": 60000},
                {"op": "sub", "c": c, "id": 1, "fs": [{"f": ["wit", r], "q": 1}]},
                {"op": "send", "c": c, "kind": "PINGREQ"},
                {"op": "send", "c": c, "kind": "DISCONNECT"}]
    return ops


def build(streams):
    ops = [{"op": "connect", "c": 90, "n": 1, "client": "wit-sub", "ka": 60000},
           {"op": "sub", "c": 90, "id": 1, "fs": [{"f": ["wit"], "q": 1}]},
           {"op": "connect", "c": 91, "n": 1, "client": "wit-pub", "ka": 60000},
           {"op": "pub", "c": 91, "t": ["wit", "r0"], "p": "ret-a", "q": 1, "r": True, "id": 60001},
           {"op": "pub", "c": 91, "t": ["wit", "r1"], "p": "ret-b", "q": 1, "r": True, "id": 60002}]
    for i, (pre, stream) in enumerate(streams):
        ops += hostile_ops(100 + i, pre, stream)
        ops += witness_trip(i)
        if i % 5 == 4:
            # whatever the offenders left half-done (a QoS 2 publish never released, deliveries never acknowledged) times out
            ops.append({"op": "sweep", "n": 1, "ms": 3300})
            ops += witness_trip(1000 + i)
    ops += [{"op": "sweep", "n": 1, "ms": 6600}, {"op": "quiesce"}]
    return {"nodes": [1], "lenient": True, "ops": ops}


def stalled_subscriber(qos, ka):
    """A subscriber stops reading (its connection stays open) while messages for it and for others keep coming.  The broker's
    writes to it block; they fail when the connection's write deadline passes (twice its keep-alive), the session is dropped
    and the others get everything.  Virtual time moves in steps of 0.9 keep-alives with 3.5 s of real time in between (the
    in-flight table's retransmission deadlines run on the real clock)."""
    ops = [{"op": "connect", "c": 90, "n": 1, "client": "wit-sub", "ka": 60000},
           {"op": "sub", "c": 90, "id": 1, "fs": [{"f": ["wit"], "q": 1}]},
           {"op": "connect", "c": 91, "n": 1, "client": "wit-pub", "ka": 60000},
           {"op": "connect", "c": 1, "n": 1, "client": "sleeper", "ka": ka},
           {"op": "sub", "c": 1, "id": 1, "fs": [{"f": ["wit"], "q": qos}]},
           {"op": "pub", "c": 91, "t": ["wit"], "p": "before", "q": 1, "id": 1},
           {"op": "stall", "c": 1, "on": True}]
    for i in range(3):
        ops.append({"op": "pub", "c": 91, "t": ["wit"], "p": "during%d" % i, "q": 1, "id": 2 + i, "nowait": True})
    for i in range(5):
        ops += [{"op": "wait", "ms": 3500}, {"op": "idle", "ms": int(ka * 900), "nowait": True}]
    ops += [{"op": "wait", "ms": 500}, {"op": "pub", "c": 91, "t": ["wit"], "p": "after", "q": 1, "id": 9}, {"op": "quiesce"}]
    return {"nodes": [1], "lenient": True, "ops": ops}


def check(run):
    thorough = run.tier == "thorough"
    rng = random.Random(run.seed)
    run.model_check("MC_ConnFsm", "MC_ConnFsm.cfg")
    cfg = 'CONSTANTS Conn = {"h1"} Witness = "w" Depth = %d\nSPECIFICATION GSpec\nCONSTRAINT Dump\nCHECK_DEADLOCK FALSE\n'
    seqs = vlib.gen_behaviours(run, "ConnFsmGen", "Gen_ConnFsm.cfg", cfg % 3)
    if thorough:
        s4 = vlib.gen_behaviours(run, "ConnFsmGen", "Gen_ConnFsm4.cfg", cfg % 4)
        rng.shuffle(s4)
        seqs += s4[:20000]
    muts = mutations(rng, thorough)
    run.log("%d packet-type sequences from TLC, %d byte-level mutations" % (len(seqs), len(muts)))
    streams = []
    mi = 0
    for seq in seqs:
        st = []
        for k in seq:
            if k == "MALFORMED":
                m = muts[mi % len(muts)]
                mi += 1
                st.append(("raw", m[0], m[1], m[2]))
            elif k == "EOF":
                st.append(("raw", "eof", b"", True))
            elif k == "CONNECT":
                # a CONNECT without a will, or with a will of QoS 0 / 1 / 2: the will is published when the stream ends badly
                st.append(("valid", ["CONNECT", "CONNECTWILL0", "CONNECTWILL1", "CONNECTWILL2"][len(streams) % 4]))
            else:
                st.append(("valid", k))
        streams.append((False, st))
    for m in muts:                                   # every mutation on its own, before and after a valid CONNECT
        streams.append((False, [("raw", m[0], m[1], m[2])]))
        streams.append((True, [("raw", m[0], m[1], m[2])]))
    if not thorough:
        # the well-formed protocol violations are few and always run; the byte-level streams are sampled
        def semantic(st):
            return len(st[1]) == 1 and st[1][0][0] == "raw" and st[1][0][1].startswith(("publish-", "subscribe-filter", "unsubscribe-filter", "connect-retained-will"))
        must = [st for st in streams if semantic(st)]
        rest = [st for st in streams if not semantic(st)]
        rng.shuffle(rest)
        streams = rest[:max(0, 3200 - len(must))] + must
        rng.shuffle(streams)
    per = 16
    scns = [build(streams[i:i + per]) for i in range(0, len(streams), per)]
    scns += [stalled_subscriber(1, 10), stalled_subscriber(2, 4)] + ([stalled_subscriber(0, 10), stalled_subscriber(1, 3)] if thorough else [])
    run.log("%d hostile streams in %d broker scenarios (+ stalled subscribers)" % (len(streams), len(scns)))
    v = vlib.Verdict(run)
    # every scenario runs in a broker process of its own; a panic is recorded in the trace as "process.died" with the panic text
    tpath, crashes = brokerlib.execute(run, scns, "c18", shards=14, timeout=6000)
    if crashes:
        raise vlib.Inconclusive("broker driver died: %s" % crashes[0][2][-2000:])
    crashed = sum(1 for ln in open(tpath) if '"op":"process.died"' in ln)
    nev, nscn, validated, rejected, tstates = brokerlib.validate(run, "C18", scns, tpath, v)
    # below the MQTT layer: the same broker behind its real listeners
    tr = transportlib.check_family(run, "C18", v, thorough)
    validated += tr["validated"]
    tstates += tr["trace_spec_states"]
    rc = v.finish()
    vlib.write_evidence(run, {
        "transports": tr,
        "traces_validated_against_impl": validated,
        "evaluations": len(streams),
        "distinct_nontrivial": len(streams),
        "rule": "stream = TLC-generated sequence of 3 inputs over 18 kinds (each MALFORMED realised by the next byte-level mutation) or a single "
                "mutation before / after a valid CONNECT; %d mutations: truncations at every offset + EOF, first-byte values, remaining-length edge "
                "values, inner length prefixes, QoS 3, empty lists, id 0, wildcard / odd topic names (retained or not), misplaced wildcards in filters, a "
                "retained will on a wildcard topic, random bytes; 16 streams per broker scenario, a witness QoS 1 round trip after each and, after every "
                "fourth, a retained publish plus a new client that connects, subscribes (retained replay), pings and disconnects"
                % len(muts),
        "broker_process_deaths": crashed, "events_validated": nev, "trace_spec_states": tstates, "rejections": len(rejected),
        "samples": [seqs[0], seqs[len(seqs) // 2], {"mutation": muts[0][0]}, {"mutation": muts[len(muts) // 2][0]}],
    }, ["which byte strings realise 'malformed' is outside TLA+: the specification only says what may happen after one",
        "hostile clients may legitimately create state (a mutated packet can be a valid SUBSCRIBE): probes in these scenarios only claim the "
        "registry and the identifier pool, not the full listings"],
        violations=v.n_new)
    run.log("validated %d scenarios (%d events), %d rejected, %d process deaths (%d known)" % (validated, nev, len(rejected), crashed, v.n_known))
    return rc


def replay(run, path):
    if json.load(open(path)).get("kind") == "transport":
        return transportlib.replay(run, "C18", path)
    return brokerlib.replay(run, "C18", path)
