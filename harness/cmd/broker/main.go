// Scenario driver for the in-process broker harness (C01-C03, C05, C07, C11-C14, C16-C18).
// Reads scenarios (one JSON object per line), executes each on fresh real nodes and writes
// one NDJSON trace. See lib/checks/brokerlib.py for the scenario language.
package main

import (
	"bufio"
	"bytes"
	"crypto/sha256"
	"encoding/hex"
	"encoding/json"
	"flag"
	"fmt"
	"io/ioutil"
	"os"
	"os/exec"
	"path/filepath"
	"sort"
	"strconv"
	"strings"
	"time"

	"github.com/vx-labs/wasp/v4/wasp"
	"github.com/vx-labs/wasp/v4/wasp/auth"

	"verifharness/internal/mq"
	"verifharness/internal/node"
	"verifharness/internal/rec"
)

type willSpec struct {
	T []string `json:"t"`
	P string   `json:"p"`
	Q int      `json:"q"`
	R bool     `json:"r"`
	// Size > 0 pads the will payload to that many bytes (a CONNECT packet may legally be much larger than 64 KiB)
	Size int `json:"size,omitempty"`
}
type fq struct {
	F []string `json:"f"`
	Q int      `json:"q"`
}
type op struct {
	Op      string    `json:"op"`
	C       int       `json:"c"`
	N       int       `json:"n"`
	Client  string    `json:"client"`
	User    string    `json:"user"`
	Pass    string    `json:"pass"`
	KA      int       `json:"ka"`
	Clean   bool      `json:"clean"`
	Will    *willSpec `json:"will"`
	Auto    string    `json:"auto"`
	ID      int       `json:"id"`
	Fs      []fq      `json:"fs"`
	T       []string  `json:"t"`
	P       string    `json:"p"`
	Q       int       `json:"q"`
	R       bool      `json:"r"`
	Dup     bool      `json:"dup"`
	Kind    string    `json:"kind"`
	Hex     string    `json:"hex"`
	Cls     string    `json:"cls"`
	Ms      int       `json:"ms"`
	Mode    string    `json:"mode"`
	Mid     int       `json:"mid"`
	To      int       `json:"to"`
	From    int       `json:"from"`
	K       int       `json:"k"`
	On      bool      `json:"on"`
	NoWait  bool      `json:"nowait"`
	Size    int       `json:"size"`
	Hold    string    `json:"hold"`    // race: the gate at which operation A is parked
	A       *op       `json:"a"`       // race: the operation that is parked
	B       []op      `json:"b"`       // race: the operations that run to completion meanwhile
	Order   []int     `json:"order"`   // peerfail: the order in which the survivors are told
	Stagger bool      `json:"stagger"` // peerfail: deliver gossip between the notifications
	Cut     int       `json:"cut"`     // connect / pub: the packet arrives in two segments, cut after this many bytes; the operations in B run in between
	Mlen    int       `json:"mlen"`    // segs: the body length of this packet in the model (FramingGen)
	Streams []stream  `json:"streams"` // segs: the packets of each connection's stream
	Plan    []seg     `json:"plan"`    // segs: the delivery schedule, in bytes of the model's encoding
}
type stream struct {
	C    int  `json:"c"`
	Pkts []op `json:"pkts"`
}
type seg struct {
	C int `json:"c"`
	N int `json:"n"`
}
type authEnt struct {
	U string `json:"u"`
	P string `json:"p"`
	M string `json:"m"`
}
type prefill struct {
	N        int `json:"n"`
	Count    int `json:"count"`
	Consumed int `json:"consumed"`
}
type scenario struct {
	Lenient bool      `json:"lenient"` // probes do not claim to list everything (hostile clients may have created state)
	Prefill []prefill `json:"prefill"`
	Nodes   []int     `json:"nodes"`
	Auth    []authEnt `json:"auth"` // when present: a credentials file for the real auth.FileHandler
	Ops     []op      `json:"ops"`
	// AuditDown: the audit sink of every node is unreachable for the whole scenario
	AuditDown bool `json:"auditdown"`
	// RealRPC: the nodes reach each other through the project's rpc package (see node.World.RealRPC)
	RealRPC bool `json:"realrpc"`
}

type runner struct {
	tdSeen  map[int]time.Time
	root    *rec.Recorder
	lenient bool
	w       *node.World
	r       *rec.Recorder
	gossip  string
	stall   bool
}

func (x *runner) client(c int) *node.Client {
	return x.w.Conns[c]
}

// settled: nothing the scenario has started is still in progress inside the brokers.
func (x *runner) settledOnce() (bool, string) {
	w := x.w
	for c, cl := range w.Conns {
		sid := fmt.Sprintf("s%d", c)
		if cl.Node.Down || cl.Hostile() {
			continue // nothing is expected of a failed node, and an offender may be in any state
		}
		if !cl.Established() && !cl.Ended() && w.Count("reg.create:"+sid) > 0 && cl.Conn.ClientClosed() {
			// a client that hung up before it saw its CONNACK, although the broker had registered its session: the
			// teardown of that session is under way - wait for it like for any other
			if w.Count("shutdown.done:"+sid) == 0 || !cl.ClosedByBroker() {
				return false, fmt.Sprintf("teardown of c%d (registered, never acknowledged)", c)
			}
			cl.MarkEnded()
			continue
		}
		if cl.Established() && !cl.Ended() {
			if w.Count("shutdown.done:"+sid) > 0 {
				// teardown finished; the broker closes the connection right after it, on the same goroutine: wait for
				// that close so that it is recorded before the next step.  (A fixed grace period here was a source
				// of false alarms on a loaded machine; if the close never comes the settle times out and the
				// stall - "close of cN" - is what gets reported.)
				if !cl.ClosedByBroker() {
					return false, fmt.Sprintf("close of c%d", c)
				}
				cl.MarkEnded()
				continue
			}
			// served and idle: every packet processed and the connection loop is waiting for the next one
			if !cl.Conn.Reading() || w.Count("conn.pkt.done:"+sid) < cl.Sent() {
				return false, fmt.Sprintf("c%d (%d/%d packets processed, reading=%v)", c, w.Count("conn.pkt.done:"+sid), cl.Sent(), cl.Conn.Reading())
			}
		}
	}
	if w.Count("publish.enq") != w.Count("publish.done") {
		return false, "publish workers"
	}
	for id, n := range w.Nodes {
		if n.Down {
			continue
		}
		a, c := n.Log.Counts()
		if a != c {
			return false, fmt.Sprintf("log consumer of node %d (%d/%d)", id, c, a)
		}
	}
	if w.Count("writer.enq") != w.Count("writer.done") {
		return false, "writer"
	}
	return true, ""
}

func (x *runner) settle() bool {
	why := ""
	ok := x.w.WaitFor(func() bool {
		a, y := x.settledOnce()
		why = y
		if !a {
			return false
		}
		if x.gossip == "auto" && x.w.PumpAll() > 0 {
			return false
		}
		b, y2 := x.settledOnce()
		why = y2
		return b
	}, 10*time.Second)
	if !ok {
		x.r.Emit(rec.Ev{"op": "stall", "waiting_for": why})
		x.stall = true
	}
	return ok
}

func levelsOf(w *node.World, mounted string) (string, []string) { return w.SplitMounted(mounted) }

func (x *runner) probe() {
	ids := []int{}
	for id := range x.w.Nodes {
		ids = append(ids, id)
	}
	sort.Ints(ids)
	for _, id := range ids {
		n := x.w.Nodes[id]
		if n.Down {
			continue
		}
		id := id
		// the listing is taken and recorded atomically with respect to every other recorded event
		x.r.Do(func() rec.Ev {
			type sess struct {
				S      string `json:"s"`
				Client string `json:"client"`
				Peer   int    `json:"peer"`
				Mount  string `json:"mount"`
			}
			type sub struct {
				S     string   `json:"s"`
				Mount string   `json:"mount"`
				F     []string `json:"f"`
				Q     int      `json:"q"`
				Peer  int      `json:"peer"`
			}
			type ret struct {
				Mount string   `json:"mount"`
				T     []string `json:"t"`
				P     string   `json:"p"`
			}
			ss := []sess{}
			for _, s := range n.State.SessionMetadatas().All() {
				ss = append(ss, sess{S: s.SessionID, Client: s.ClientID, Peer: int(s.Peer), Mount: s.MountPoint})
			}
			sort.Slice(ss, func(i, j int) bool { return ss[i].S < ss[j].S })
			us := []sub{}
			for _, s := range n.State.Subscriptions().All() {
				m, f := levelsOf(x.w, string(s.Pattern))
				us = append(us, sub{S: s.SessionID, Mount: m, F: f, Q: int(s.QoS), Peer: int(s.Peer)})
			}
			sort.Slice(us, func(i, j int) bool {
				if us[i].S != us[j].S {
					return us[i].S < us[j].S
				}
				return strings.Join(us[i].F, "/") < strings.Join(us[j].F, "/")
			})
			rs := []ret{}
			if msgs, err := n.State.Topics().Get([]byte("#")); err == nil {
				for _, m := range msgs {
					mp, t := levelsOf(x.w, string(m.Publish.Topic))
					rs = append(rs, ret{Mount: mp, T: t, P: string(m.Publish.Payload)})
				}
			}
			sort.Slice(rs, func(i, j int) bool {
				return rs[i].Mount+strings.Join(rs[i].T, "/") < rs[j].Mount+strings.Join(rs[j].T, "/")
			})
			local := []string{}
			for _, s := range n.Local.ListSessions() {
				local = append(local, s.ID())
			}
			sort.Strings(local)
			held := wasp.VerifPoolOutstanding(n.Writer)
			if held == nil {
				held = []int32{}
			}
			// what this node resolves each listed client identifier to (C12)
			type res struct {
				Client string `json:"client"`
				Mount  string `json:"mount"`
				S      string `json:"s"`
			}
			rv := []res{}
			seen := map[[2]string]bool{}
			for _, s := range ss {
				k := [2]string{s.Client, s.Mount}
				if seen[k] {
					continue
				}
				seen[k] = true
				r := res{Client: s.Client, Mount: s.Mount}
				if md, err := n.State.SessionMetadatas().ByClientID(s.Client, s.Mount); err == nil {
					r.S = md.SessionID
				}
				rv = append(rv, r)
			}
			return rec.Ev{"op": "probe", "n": id, "synced": x.gossip == "auto" && !x.lenient, "sessions": ss, "subs": us, "retained": rs, "local": local, "held": held,
				"resolve": rv}
		})
	}
}

func (x *runner) autoResponder(cl *node.Client, mode string) {
	cl.OnPkt = func(p mq.Packet) {
		ack := mode == "all" || mode == "norel"
		rel := mode == "all" || mode == "noack"
		switch p.Type {
		case mq.PUBLISH:
			if !ack {
				return
			}
			if p.QoS == 1 {
				cl.Send(rec.Ev{"kind": "PUBACK", "id": p.ID, "auto": true}, mq.PubAck(p.ID))
			} else if p.QoS == 2 {
				cl.Send(rec.Ev{"kind": "PUBREC", "id": p.ID, "auto": true}, mq.PubRec(p.ID))
			}
		case mq.PUBREL:
			if ack {
				cl.Send(rec.Ev{"kind": "PUBCOMP", "id": p.ID, "auto": true}, mq.PubComp(p.ID))
			}
		case mq.PUBREC:
			if rel {
				cl.Send(rec.Ev{"kind": "PUBREL", "id": p.ID, "auto": true}, mq.PubRel(p.ID))
			}
		}
	}
}

func (x *runner) run(idx int, s scenario) {
	w := node.NewWorld(x.root)
	x.w = w
	x.gossip = "auto"
	x.stall = false
	x.lenient = s.Lenient
	w.AuditDown = s.AuditDown
	w.RealRPC = s.RealRPC
	x.tdSeen = nil
	defer w.Close()
	if len(s.Nodes) == 0 {
		s.Nodes = []int{1}
	}
	tbl := s.Auth
	if tbl == nil {
		tbl = []authEnt{}
	}
	pf := s.Prefill
	if pf == nil {
		pf = []prefill{}
	}
	w.R.Emit(rec.Ev{"op": "new", "scn": idx, "nodes": s.Nodes, "table": tbl, "prefill": pf})
	x.r = w.R
	if len(s.Auth) > 0 {
		dir, _ := ioutil.TempDir("", "brokerauth")
		defer os.RemoveAll(dir)
		buf := ""
		for _, e := range s.Auth {
			buf += fmt.Sprintf("%s:%s", e.U, sha(e.P))
			if e.M != "" {
				buf += ":" + e.M
			}
			buf += "\n"
		}
		path := filepath.Join(dir, "creds")
		ioutil.WriteFile(path, []byte(buf), 0600)
		h, err := auth.FileHandler(path)
		if err != nil {
			x.r.Emit(rec.Ev{"op": "harness-error", "what": "credentials file: " + err.Error()})
			return
		}
		w.Auth = h
	}
	for _, id := range s.Nodes {
		var pre *node.Prefill
		for _, p := range s.Prefill {
			if p.N == id {
				pre = &node.Prefill{Count: p.Count, Consumed: p.Consumed}
			}
		}
		if _, err := w.AddNodePrefilled(id, pre); err != nil {
			x.r.Emit(rec.Ev{"op": "harness-error", "what": err.Error()})
			return
		}
	}
	time.Sleep(20 * time.Millisecond) // workers register themselves
	for _, o := range s.Ops {
		if x.stall {
			return
		}
		x.step(o)
	}
}

// own runs one client operation without waiting for the brokers to settle and returns when the client has its answer
// (SUBACK, UNSUBACK, PUBACK / PUBCOMP, or - for packets without one - when the connection loop has processed it).
func (x *runner) own(o op) {
	cl := x.client(o.C)
	if cl == nil {
		x.step(o)
		return
	}
	want := map[string]int{"sub": mq.SUBACK, "unsub": mq.UNSUBACK}[o.Op]
	if o.Op == "pub" && o.Q == 1 {
		want = mq.PUBACK
	} else if o.Op == "pub" && o.Q == 2 {
		want = mq.PUBCOMP
	}
	before := 0
	if want != 0 {
		before = cl.CountRecv(want)
	}
	o.NoWait = true
	x.step(o)
	if o.Op == "close" {
		return // the broker notices when it gets to it (its handler may be parked at a gate)
	}
	sid := fmt.Sprintf("s%d", o.C)
	patience := 5 * time.Second
	if o.Op == "send" {
		patience = time.Second // a packet sent behind a parked handler is simply not looked at yet
	}
	ok := x.w.WaitFor(func() bool {
		if cl.ClosedByBroker() {
			return true
		}
		if want != 0 {
			return cl.CountRecv(want) > before
		}
		return x.w.Count("conn.pkt.done:"+sid) >= cl.Sent()
	}, patience)
	if !ok && o.Op != "send" {
		x.r.Emit(rec.Ev{"op": "race.note", "what": "no answer within 5 s", "to": o.Op, "c": o.C})
	}
	if o.Op == "pub" {
		// a publish is complete when its deliveries have been written: the writer resolves the recipients of a stored
		// message when it gets to it, which may be after the acknowledgement to the publisher
		x.w.WaitFor(x.backgroundIdle, 3*time.Second)
	}
}

// backgroundIdle: publish workers, log consumers and writers have nothing left to do (connection loops are not looked at:
// one of them may be parked at a gate).
func (x *runner) backgroundIdle() bool {
	w := x.w
	if w.Count("publish.enq") != w.Count("publish.done") || w.Count("writer.enq") != w.Count("writer.done") {
		return false
	}
	for _, n := range w.Nodes {
		if n.Down {
			continue
		}
		if a, c := n.Log.Counts(); a != c {
			return false
		}
	}
	return true
}

// encode builds the packet of a connect / sub / unsub / pub / send operation and the event that records it.
func (x *runner) encode(o op) (rec.Ev, []byte) {
	w := x.w
	switch o.Op {
	case "connect":
		return rec.Ev{"kind": "CONNECT", "client": o.Client, "user": o.User, "pass": o.Pass, "ka": o.KA, "haswill": false, "will": willSpec{T: []string{}}},
			mq.Connect(o.Client, o.User, o.Pass, o.KA, true, nil)
	case "sub":
		fs, qs := []string{}, []int{}
		for _, f := range o.Fs {
			fs = append(fs, w.Register(f.F))
			qs = append(qs, f.Q)
		}
		return rec.Ev{"kind": "SUBSCRIBE", "id": o.ID, "fs": o.Fs}, mq.Subscribe(o.ID, fs, qs)
	case "unsub":
		fs := []string{}
		for _, f := range o.Fs {
			fs = append(fs, w.Register(f.F))
		}
		return rec.Ev{"kind": "UNSUBSCRIBE", "id": o.ID, "fs": o.Fs}, mq.Unsubscribe(o.ID, fs)
	case "pub":
		payload := o.P
		if o.Size > len(payload) {
			payload = payload + "|" + strings.Repeat("x", o.Size-len(payload)-1)
		}
		return rec.Ev{"kind": "PUBLISH", "t": o.T, "p": node.PayloadID([]byte(payload)), "q": o.Q, "r": o.R, "id": o.ID, "dup": o.Dup},
			mq.Publish(w.Register(o.T), []byte(payload), o.Q, o.R, o.Dup, o.ID)
	case "send":
		switch o.Kind {
		case "PINGREQ":
			return rec.Ev{"kind": o.Kind, "id": o.ID}, mq.PingReq()
		case "DISCONNECT":
			return rec.Ev{"kind": o.Kind, "id": o.ID}, mq.Disconnect()
		}
	}
	panic("segs: cannot encode " + o.Op + " " + o.Kind)
}

// segs: the streams of several connections are handed to the broker in segments, in the order and with the sizes of the plan
// (a schedule of FramingGen: sizes are in bytes of the model's encoding, mapped to the real packets header byte by header byte and
// body proportionally).  A packet is recorded as sent when its last byte is; after every segment the driver waits until the
// broker has read it all.
func (x *runner) segs(o op) {
	w := x.w
	type pk struct {
		ev         rec.Ev
		raw        []byte
		connect    bool
		o          op
		start, end int // real offsets in the stream
	}
	type st struct {
		cl     *node.Client
		raw    []byte
		pkts   []pk
		realAt []int // model offset -> real offset
		mdone  int
		next   int // next packet to complete
	}
	sts := map[int]*st{}
	for _, sm := range o.Streams {
		t := &st{realAt: []int{0}}
		for _, po := range sm.Pkts {
			po.C = sm.C
			if po.Op == "connect" {
				cl := w.Open(sm.C, po.N)
				x.autoResponder(cl, "all")
			}
			ev, raw := x.encode(po)
			hdr := 1
			for raw[hdr]&0x80 != 0 {
				hdr++
			}
			hdr++
			mh := 2
			if po.Mlen >= 2 { // Base = 2 in the model: two remaining-length bytes
				mh = 3
			}
			if hdr != mh {
				panic(fmt.Sprintf("segs: packet %s has a %d-byte fixed header, the model's has %d", po.Op, hdr, mh))
			}
			base := len(t.raw)
			for i := 1; i <= mh; i++ {
				t.realAt = append(t.realAt, base+i)
			}
			body := len(raw) - hdr
			for j := 1; j <= po.Mlen; j++ {
				t.realAt = append(t.realAt, base+hdr+j*body/po.Mlen)
			}
			t.pkts = append(t.pkts, pk{ev: ev, raw: raw, connect: po.Op == "connect", o: po, start: base, end: base + len(raw)})
			t.raw = append(t.raw, raw...)
		}
		t.cl = x.client(sm.C)
		sts[sm.C] = t
	}
	for _, sg := range o.Plan {
		t := sts[sg.C]
		r0, r1 := t.realAt[t.mdone], t.realAt[t.mdone+sg.N]
		t.mdone += sg.N
		pos := r0
		completed := false
		for t.next < len(t.pkts) && t.pkts[t.next].end <= r1 {
			p := t.pkts[t.next]
			if p.connect {
				t.cl.SendConnect(p.ev, t.raw[pos:p.end])
				ok := w.WaitFor(func() bool { return t.cl.CountRecv(mq.CONNACK) > 0 || t.cl.ClosedByBroker() }, 10*time.Second)
				if !ok {
					x.r.Emit(rec.Ev{"op": "stall", "waiting_for": fmt.Sprintf("CONNACK or close on c%d", sg.C)})
					x.stall = true
					return
				}
				if t.cl.CountRecv(mq.CONNACK) > 0 && t.cl.Received()[0].Code == 0 {
					t.cl.MarkEstablished()
				}
			} else {
				t.cl.Send(p.ev, t.raw[pos:p.end])
			}
			pos = p.end
			t.next++
			completed = true
		}
		if pos < r1 {
			t.cl.Conn.ClientWrite(t.raw[pos:r1])
		}
		w.WaitFor(func() bool { return t.cl.Conn.Reading() || t.cl.ClosedByBroker() }, 2*time.Second)
		if completed {
			if !x.settle() {
				return
			}
		}
	}
}

// firstSegment: when the operation asks for it (cut), the first bytes of the packet are written on their own - as a TCP segment of
// their own would arrive -, the broker is given the time to read them and to wait for more, the operations in B run, and the rest
// of the packet is returned for the caller to send (and to record: a packet is sent when its last byte is).
func (x *runner) firstSegment(cl *node.Client, o op, raw []byte) []byte {
	if o.Cut <= 0 || o.Cut >= len(raw) {
		return raw
	}
	if cl.Conn.ClientWrite(raw[:o.Cut]) != nil {
		return raw
	}
	x.w.WaitFor(func() bool { return cl.Conn.Reading() }, 2*time.Second)
	for _, b := range o.B {
		x.step(b)
	}
	return raw[o.Cut:]
}

func (x *runner) step(o op) {
	w := x.w
	switch o.Op {
	case "connect":
		cl := w.Open(o.C, o.N)
		mode := o.Auto
		if mode == "" {
			mode = "all"
		}
		x.autoResponder(cl, mode)
		var will *mq.Will
		ev := rec.Ev{"kind": "CONNECT", "client": o.Client, "user": o.User, "pass": o.Pass, "ka": o.KA, "haswill": o.Will != nil}
		if o.Will != nil {
			payload := o.Will.P
			if o.Will.Size > len(payload) {
				payload = payload + "|" + strings.Repeat("x", o.Will.Size-len(payload)-1)
			}
			will = &mq.Will{Topic: w.Register(o.Will.T), Payload: []byte(payload), QoS: o.Will.Q, Retain: o.Will.R}
			ev["will"] = willSpec{T: o.Will.T, P: node.PayloadID([]byte(payload)), Q: o.Will.Q, R: o.Will.R}
		} else {
			ev["will"] = willSpec{T: []string{}}
		}
		cl.SendConnect(ev, x.firstSegment(cl, o, mq.Connect(o.Client, o.User, o.Pass, o.KA, true, will)))
		if o.NoWait {
			return
		}
		ok := w.WaitFor(func() bool { return cl.CountRecv(mq.CONNACK) > 0 || cl.ClosedByBroker() }, 10*time.Second)
		if !ok {
			x.r.Emit(rec.Ev{"op": "stall", "waiting_for": fmt.Sprintf("CONNACK or close on c%d", o.C)})
			x.stall = true
			return
		}
		if cl.CountRecv(mq.CONNACK) > 0 && cl.Received()[0].Code == 0 {
			cl.MarkEstablished()
		}
		x.settle()
	case "segs":
		x.segs(o)
	case "open":
		x.autoResponder(w.Open(o.C, o.N), "none")
	case "sub":
		cl := x.client(o.C)
		fs := []string{}
		qs := []int{}
		for _, f := range o.Fs {
			fs = append(fs, w.Register(f.F))
			qs = append(qs, f.Q)
		}
		cl.Send(rec.Ev{"kind": "SUBSCRIBE", "id": o.ID, "fs": o.Fs}, mq.Subscribe(o.ID, fs, qs))
		if !o.NoWait {
			x.settle()
		}
	case "unsub":
		cl := x.client(o.C)
		fs := []string{}
		for _, f := range o.Fs {
			fs = append(fs, w.Register(f.F))
		}
		cl.Send(rec.Ev{"kind": "UNSUBSCRIBE", "id": o.ID, "fs": o.Fs}, mq.Unsubscribe(o.ID, fs))
		if !o.NoWait {
			x.settle()
		}
	case "pub":
		cl := x.client(o.C)
		payload := o.P
		if o.Size > len(payload) {
			payload = payload + "|" + strings.Repeat("x", o.Size-len(payload)-1)
		}
		cl.Send(rec.Ev{"kind": "PUBLISH", "t": o.T, "p": node.PayloadID([]byte(payload)), "q": o.Q, "r": o.R, "id": o.ID, "dup": o.Dup},
			x.firstSegment(cl, o, mq.Publish(w.Register(o.T), []byte(payload), o.Q, o.R, o.Dup, o.ID)))
		if !o.NoWait {
			x.settle()
		}
	case "send":
		cl := x.client(o.C)
		var raw []byte
		switch o.Kind {
		case "PUBACK":
			raw = mq.PubAck(o.ID)
		case "PUBREC":
			raw = mq.PubRec(o.ID)
		case "PUBREL":
			raw = mq.PubRel(o.ID)
		case "PUBCOMP":
			raw = mq.PubComp(o.ID)
		case "PINGREQ":
			raw = mq.PingReq()
		case "DISCONNECT":
			raw = mq.Disconnect()
		case "CONNECT":
			raw = mq.Connect(o.Client, o.User, o.Pass, o.KA, true, nil)
		}
		cl.Send(rec.Ev{"kind": o.Kind, "id": o.ID}, raw)
		if !o.NoWait {
			x.settle()
		}
	case "gate":
		x.client(o.C).SetGate(o.On)
	case "stall":
		// the client stops (or resumes) reading: the broker's writes to it block until its write deadline passes
		x.client(o.C).Conn.SetStalled(o.On)
	case "burst":
		// K publishes in a row without waiting for anything in between
		cl := x.client(o.C)
		topic := w.Register(o.T)
		for i := 0; i < o.K; i++ {
			payload := fmt.Sprintf("%s-%d", o.P, i)
			if o.Size > 0 {
				sz := o.Size
				if o.Size < 0 {
					sz = []int{0, 1, 10, 200, 3000, 70000}[i%6]
				}
				if sz > len(payload) {
					payload = payload + "|" + strings.Repeat("x", sz-len(payload)-1)
				}
			}
			id := 0
			if o.Q > 0 {
				id = 1 + (o.ID+i)%60000
			}
			cl.Send(rec.Ev{"kind": "PUBLISH", "t": o.T, "p": node.PayloadID([]byte(payload)), "q": o.Q, "r": false, "id": id, "dup": false},
				mq.Publish(topic, []byte(payload), o.Q, false, false, id))
			if o.Ms > 0 && i%o.Ms == o.Ms-1 {
				x.settle()
			}
		}
		if !o.NoWait {
			x.settle()
		}
	case "ackmsg":
		// answer the delivery of payload P with a packet of the given kind, using the identifier the broker chose
		cl := x.client(o.C)
		id := -1
		for _, p := range cl.Received() {
			if p.Type == mq.PUBLISH && node.PayloadID(p.Payload) == o.P && p.QoS > 0 {
				id = p.ID
			}
		}
		if id < 0 {
			// the script answers a delivery that everything before it (a publish to a subscribed, connected session, then
			// quiescence) entitles the client to: its absence is the broker's doing and no specification step explains it
			x.r.Emit(rec.Ev{"op": "delivery.missing", "c": o.C, "p": o.P})
			x.stall = true
			return
		}
		var raw []byte
		switch o.Kind {
		case "PUBACK":
			raw = mq.PubAck(id)
		case "PUBREC":
			raw = mq.PubRec(id)
		case "PUBCOMP":
			raw = mq.PubComp(id)
		case "PUBREL":
			raw = mq.PubRel(id)
		}
		cl.Send(rec.Ev{"kind": o.Kind, "id": id}, raw)
		if !o.NoWait {
			x.settle()
		}
	case "raw":
		cl := x.client(o.C)
		b, _ := hex.DecodeString(o.Hex)
		if cl.Established() {
			cl.Send(rec.Ev{"kind": "RAW", "cls": o.Cls, "hex": o.Hex}, b)
		} else {
			cl.SendConnect(rec.Ev{"kind": "RAW", "cls": o.Cls, "hex": o.Hex}, b)
		}
		if !o.NoWait {
			time.Sleep(time.Duration(maxi(o.Ms, 5)) * time.Millisecond)
		}
	case "close":
		x.client(o.C).Close()
		if !o.NoWait {
			x.settle()
		}
	case "idle":
		x.r.Emit(rec.Ev{"op": "time", "ms": o.Ms})
		w.Clock.Advance(time.Duration(o.Ms) * time.Millisecond)
		time.Sleep(3 * time.Millisecond)
		if !o.NoWait {
			x.settle()
		}
	case "sweep":
		n := w.Nodes[o.N]
		n.Queue.Expire(time.Now().Add(time.Duration(o.Ms) * time.Millisecond))
		x.settle()
	case "gossip":
		// auto: deliver everything in order after every step; hold: deliver nothing; reverse: deliver everything, newest first
		switch o.Mode {
		case "reverse":
			w.Reverse = true
			x.gossip = "auto"
		case "dup":
			w.Dup = true
			x.gossip = "auto"
		case "auto":
			w.Reverse = false
			x.gossip = "auto"
		default:
			x.gossip = o.Mode
		}
	case "collect":
		w.Collect()
	case "deliver":
		if g := w.Msg(o.Mid); g != nil {
			w.Deliver(g, o.To)
		}
		x.settle()
	case "deliverfrom":
		// manual gossip: everything node From has queued so far and node To has not received yet, in order
		for i := 1; ; i++ {
			g := w.Msg(i)
			if g == nil {
				break
			}
			if g.From == o.From && !w.WasSent(g.ID, o.To) {
				w.Deliver(g, o.To)
			}
		}
		x.settle()
	case "peerfail":
		// node N dies: its connections vanish silently; survivors are told by the membership layer
		dead := w.Nodes[o.N]
		dead.Down = true
		x.r.Emit(rec.Ev{"op": "peer.fail", "n": o.N})
		// the membership layer tells the survivors one after the other, in the given order (default: ascending); with
		// Stagger the gossip queued by one survivor's reaction is delivered before the next survivor is told
		order := o.Order
		if len(order) == 0 {
			for id := range w.Nodes {
				order = append(order, id)
			}
			sort.Ints(order)
		}
		for _, id := range order {
			n := w.Nodes[id]
			if n != nil && id != o.N && !n.Down {
				n.Members.NotifyGossipLeave(uint64(o.N))
				x.r.Emit(rec.Ev{"op": "peer.leave.notified", "n": id, "dead": o.N})
				if o.Stagger {
					x.settle()
				}
			}
		}
		x.settle()
		if o.Ms > 0 {
			time.Sleep(time.Duration(o.Ms) * time.Millisecond) // the survivors' purge timer (3 s, real time)
			// on a loaded machine the timer's goroutine may run late: wait until the purge is visible (a purge that
			// never happens is still seen - after this bounded wait the script goes on and the probe shows the records)
			w.WaitFor(func() bool {
				for id, n := range w.Nodes {
					if id != o.N && !n.Down && len(n.State.SessionMetadatas().ByPeer(uint64(o.N))) > 0 {
						return false
					}
				}
				return true
			}, 8*time.Second)
			x.r.Emit(rec.Ev{"op": "purge.waited", "ms": o.Ms})
			x.settle()
		}
	case "race":
		// operation A is parked at gate Hold inside the broker; the operations B run to completion; A is released.
		// Without the build tag "gates" nothing is parked: A simply runs first.
		if o.A == nil {
			return
		}
		if strings.HasPrefix(o.Hold, "write:") {
			// operation A (a sweep of the in-flight table) is parked inside a write to a client that does not read - a
			// retransmission to connection N blocks as it would on a full socket; the operations B run to completion
			// meanwhile; then the client reads again.  Needs no scheduler gate: the blocked write is the gate.
			c, _ := strconv.Atoi(strings.TrimPrefix(o.Hold, "write:"))
			slow := x.client(c)
			slow.Conn.SetStalled(true)
			doneA := make(chan struct{})
			go func() {
				if o.A.Op == "sweep" {
					w.Nodes[o.A.N].Queue.Expire(time.Now().Add(time.Duration(o.A.Ms) * time.Millisecond))
				} else {
					x.own(*o.A)
				}
				close(doneA)
			}()
			isParked := w.WaitFor(func() bool { return slow.Conn.WriteBlocked() }, 2*time.Second)
			x.r.Emit(rec.Ev{"op": "race.parked", "hold": o.Hold, "parked": isParked})
			for _, b := range o.B {
				x.own(b)
			}
			slow.Conn.SetStalled(false)
			x.r.Emit(rec.Ev{"op": "race.released", "hold": o.Hold})
			select {
			case <-doneA:
			case <-time.After(10 * time.Second):
				x.r.Emit(rec.Ev{"op": "race.note", "what": "operation A did not finish within 10 s", "to": o.A.Op, "c": o.A.C})
			}
			x.settle()
			return
		}
		w.Gates.Arm(o.Hold)
		parked := w.Gates.Parked(o.Hold)
		doneA := make(chan struct{})
		go func() { x.own(*o.A); close(doneA) }()
		isParked := false
		if parked != nil {
			select {
			case <-parked:
				isParked = true
			case <-doneA:
			case <-time.After(2 * time.Second):
			}
		} else {
			<-doneA
		}
		if !isParked {
			w.Gates.Release(o.Hold) // A never came by: the gate must not catch somebody else
		}
		x.r.Emit(rec.Ev{"op": "race.parked", "hold": o.Hold, "parked": isParked})
		for _, b := range o.B {
			x.own(b)
		}
		w.Gates.Release(o.Hold)
		x.r.Emit(rec.Ev{"op": "race.released", "hold": o.Hold})
		select {
		case <-doneA:
		case <-time.After(10 * time.Second):
			x.r.Emit(rec.Ev{"op": "race.note", "what": "operation A did not finish within 10 s", "to": o.A.Op, "c": o.A.C})
		}
		x.settle()
	case "faillog":
		w.Nodes[o.N].Log.FailNext(o.K)
		x.r.Emit(rec.Ev{"op": "inject", "what": "log.append", "n": o.N, "k": o.K})
	case "slowlog":
		w.Nodes[o.N].Log.SlowNext(o.K, time.Duration(o.Ms)*time.Millisecond)
		x.r.Emit(rec.Ev{"op": "inject", "what": "slow.append", "n": o.N, "k": o.K, "ms": o.Ms})
	case "failrpc":
		w.Nodes[o.From].FailRPC(o.To, o.On)
		x.r.Emit(rec.Ev{"op": "inject", "what": "rpc", "from": o.From, "to": o.To, "on": o.On})
	case "wait":
		time.Sleep(time.Duration(o.Ms) * time.Millisecond)
	case "settle":
		x.settle()
	case "quiesce":
		if x.settle() {
			x.probe()
			x.r.Emit(rec.Ev{"op": "quiescent"})
		}
	default:
		x.r.Emit(rec.Ev{"op": "harness-error", "what": "unknown op " + o.Op})
	}
}

func sha(p string) string {
	return fmt.Sprintf("%x", sha256.Sum256([]byte(p)))
}

func maxi(a, b int) int {
	if a > b {
		return a
	}
	return b
}

func main() {
	scn := flag.String("scenarios", "", "scenario file (NDJSON)")
	out := flag.String("out", "trace.ndjson", "trace output")
	shard := flag.String("shard", "0/1", "process scenarios i (mod n)")
	one := flag.Int("one", 0, "run only scenario N (1-based) in this process")
	flag.Parse()
	if *one > 0 {
		runOne(*scn, *out, *one)
		return
	}
	// Every scenario runs in a process of its own: goroutines of a finished scenario (a hostile connection still being
	// parsed, a late teardown) cannot reach the hooks or the trace of the next one, and a panic of the broker kills
	// exactly one scenario, which is then recorded as "process.died".
	parts := strings.Split(*shard, "/")
	si, _ := strconv.Atoi(parts[0])
	sn, _ := strconv.Atoi(parts[1])
	in, err := os.Open(*scn)
	if err != nil {
		panic(err)
	}
	total := 0
	sc := bufio.NewScanner(in)
	sc.Buffer(make([]byte, 1<<20), 1<<28)
	for sc.Scan() {
		total++
	}
	in.Close()
	self, _ := os.Executable()
	f, err := os.Create(*out)
	if err != nil {
		panic(err)
	}
	defer f.Close()
	for n := 1; n <= total; n++ {
		if (n-1)%sn != si {
			continue
		}
		tmp := fmt.Sprintf("%s.%d", *out, n)
		cmd := exec.Command(self, "-scenarios", *scn, "-out", tmp, "-one", strconv.Itoa(n))
		var stderr bytes.Buffer
		cmd.Stderr = &stderr
		done := make(chan error, 1)
		cmd.Start()
		go func() { done <- cmd.Wait() }()
		var werr error
		select {
		case werr = <-done:
		case <-time.After(300 * time.Second):
			cmd.Process.Kill()
			werr = <-done
			stderr.WriteString("\nharness: scenario exceeded 300 s and was killed")
		}
		if b, err := ioutil.ReadFile(tmp); err == nil {
			f.Write(b)
			if len(b) > 0 && b[len(b)-1] != '\n' {
				f.Write([]byte("\n"))
			}
		}
		os.Remove(tmp)
		if werr != nil {
			msg := stderr.String()
			if len(msg) > 6000 {
				msg = msg[:3000] + "\n...\n" + msg[len(msg)-3000:]
			}
			b, _ := json.Marshal(rec.Ev{"op": "process.died", "scn": n, "exit": werr.Error(), "stderr": msg})
			f.Write(append(b, '\n'))
		}
	}
	fmt.Fprintf(os.Stderr, "scenarios=%d\n", total)
}

func runOne(scnFile, out string, idx int) {
	f, err := os.Create(out)
	if err != nil {
		panic(err)
	}
	defer f.Close()
	r := rec.New(f)
	r.AutoFlush = true
	defer r.Flush()
	in, err := os.Open(scnFile)
	if err != nil {
		panic(err)
	}
	sc := bufio.NewScanner(in)
	sc.Buffer(make([]byte, 1<<20), 1<<28)
	x := &runner{r: r, root: r}
	n := 0
	for sc.Scan() {
		n++
		if n != idx {
			continue
		}
		var s scenario
		if err := json.Unmarshal(sc.Bytes(), &s); err != nil {
			panic(err)
		}
		x.run(n, s)
		r.Flush()
	}
}
