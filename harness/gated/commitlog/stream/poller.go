package stream

import (
	"context"
	"io"
	"time"

	"github.com/vx-labs/commitlog"
)

type eofBehaviour int

const (
	// EOFBehaviourPoll will make the session poll for new records after an EOF error is received
	EOFBehaviourPoll eofBehaviour = 1 << iota
	// EOFBehaviourExit wil make the session exit when EOF is received
	EOFBehaviourExit eofBehaviour = 1 << iota
)

// ConsumerOpts describes stream session preferences
type ConsumerOpts struct {
	Name                      string
	MaxBatchSize              int
	MinBatchSize              int
	MaxBatchMemorySizeInBytes int
	MaxRecordCount            int64
	FromOffset                int64
	EOFBehaviour              eofBehaviour
	OffsetProvider            OffsetIterator
	Middleware                []func(Processor, ConsumerOpts) Processor
}

type Batch struct {
	FirstOffset   uint64
	LastTimestamp uint64
	Records       [][]byte
}
type poller struct {
	maxBatchSize              int
	minBatchSize              int
	maxBatchMemorySizeInBytes int
	currentMemorySizeInBytes  int
	recordCountdown           int64
	current                   Batch
	ch                        chan Batch
	err                       error
}

type Poller interface {
	Ready() <-chan Batch
	Error() error
}

func newPoller(ctx context.Context, r io.ReadSeeker, opts ConsumerOpts) Poller {
	var offset int64

	offset, _ = r.Seek(opts.FromOffset, io.SeekStart)
	if opts.OffsetProvider != nil {
		opts.OffsetProvider.AdvanceTo(uint64(opts.FromOffset))
	}
	s := &poller{
		ch:                        make(chan Batch),
		maxBatchSize:              opts.MaxBatchSize,
		maxBatchMemorySizeInBytes: opts.MaxBatchMemorySizeInBytes,
		recordCountdown:           opts.MaxRecordCount,
		minBatchSize:              opts.MinBatchSize,
		current: Batch{
			FirstOffset: uint64(offset),
			Records:     [][]byte{},
		},
	}
	go s.run(ctx, r, opts)
	return s
}

func (s *poller) Error() error {
	return s.err
}
func (s *poller) Ready() <-chan Batch {
	return s.ch
}
func (s *poller) waitFlush(ctx context.Context) error {
	if len(s.current.Records) == 0 {
		return nil
	}
	select {
	case s.ch <- s.current:
		s.currentMemorySizeInBytes = 0
		s.current = Batch{
			FirstOffset: s.current.FirstOffset + uint64(len(s.current.Records)),
			Records:     [][]byte{},
		}
	case <-ctx.Done():
		return ctx.Err()
	}
	return nil
}
func (s *poller) tryFlush(ctx context.Context) error {
	if len(s.current.Records) == 0 {
		return nil
	}
	select {
	case s.ch <- s.current:
		s.currentMemorySizeInBytes = 0
		s.current = Batch{
			FirstOffset: s.current.FirstOffset + uint64(len(s.current.Records)),
			Records:     [][]byte{},
		}
	case <-ctx.Done():
		return ctx.Err()
	default:
	}
	return nil
}
func (s *poller) run(ctx context.Context, r io.ReadSeeker, opts ConsumerOpts) {
	decoder := commitlog.NewDecoder(r)
	defer close(s.ch)
	ticker := time.NewTicker(100 * time.Millisecond)
	defer ticker.Stop()
	for {
		if opts.OffsetProvider != nil {
			next, err := opts.OffsetProvider.Next()
			if err != nil {
				if err == io.EOF {
					if err := s.waitFlush(ctx); err != nil {
						s.err = err
						return
					}
					if opts.EOFBehaviour == EOFBehaviourExit {
						return
					}
					select {
					case <-ticker.C:
						continue
					case <-ctx.Done():
						return
					}
				} else {
					s.err = err
					return
				}
			}
			_, err = r.Seek(int64(next), io.SeekStart)
			if err != nil {
				s.err = err
				return
			}
		}
		if s.recordCountdown == 0 {
			if err := s.waitFlush(ctx); err != nil {
				s.err = err
			}
			return
		}
		entry, err := decoder.Decode()
		if err == nil {
			if s.currentMemorySizeInBytes+len(entry.Payload()) > s.maxBatchMemorySizeInBytes {
				if err := s.waitFlush(ctx); err != nil {
					s.err = err
					return
				}
			}
			if len(s.current.Records) == 0 {
				s.current.FirstOffset = entry.Offset()
			}
			s.current.Records = append(s.current.Records, entry.Payload())
			s.currentMemorySizeInBytes += len(entry.Payload())
			if s.recordCountdown > 0 {
				s.recordCountdown--
			}
			s.current.LastTimestamp = entry.Timestamp()
		}
		if len(s.current.Records) >= s.maxBatchSize {
			if err := s.waitFlush(ctx); err != nil {
				s.err = err
				return
			}
			continue
		} else if len(s.current.Records) > s.minBatchSize || entry == nil {
			if err := s.tryFlush(ctx); err != nil {
				s.err = err
				return
			}
		}
		if err != nil {
			if err == io.EOF {
				if err := s.waitFlush(ctx); err != nil {
					s.err = err
					return
				}
				if opts.EOFBehaviour == EOFBehaviourExit {
					return
				}
				select {
				case <-ticker.C:
					continue
				case <-ctx.Done():
					return
				}
			} else {
				s.err = err
				return
			}
		}
	}
}
