// Driver for C06 (allocator level): replays call sequences on the real
// identifier allocator and records every call with its result.
//
//	idpool -scenarios file    one JSON object per line: {"min":1,"max":3,"calls":[{"op":"get","i":0},...]}
//	idpool -random N -len L   seeded random histories on small and production-size ranges
package main

import (
	"bufio"
	"encoding/json"
	"flag"
	"fmt"
	"math/rand"
	"os"
	"strconv"
	"time"

	"github.com/vx-labs/wasp/v4/wasp"
	"verifharness/internal/rec"
)

type call struct {
	Op string `json:"op"`
	I  int32  `json:"i"`
}
type scenario struct {
	Min   int32  `json:"min"`
	Max   int32  `json:"max"`
	Calls []call `json:"calls"`
}

// A call that panics or does not return (a lock left held) ends the scenario: both are reported as "panic": true, a hang
// additionally as "hang": true.  The allocator is mutex-protected and O(intervals): three seconds is for ever.
var hung bool
var hangs int // calls that never returned so far: after two the run stops (every one costs three seconds and a goroutine)

func guarded(f func()) (panicked bool) {
	done := make(chan bool, 1)
	go func() {
		defer func() { done <- recover() != nil }()
		f()
	}()
	select {
	case p := <-done:
		return p
	case <-time.After(3 * time.Second):
		hung = true
		hangs++
		return true
	}
}

func doGet(p wasp.VerifMIDPool) (r int32, panicked bool) {
	panicked = guarded(func() { r = p.Get() })
	return r, panicked
}
func doPut(p wasp.VerifMIDPool, i int32) (panicked bool) {
	return guarded(func() { p.Put(i) })
}

func run(r *rec.Recorder, n int, s scenario) {
	p := wasp.VerifNewMIDPool(s.Min, s.Max)
	r.Emit(rec.Ev{"op": "new", "scn": n, "min": s.Min, "max": s.Max, "r": 0, "i": 0, "panic": false})
	for _, c := range s.Calls {
		switch c.Op {
		case "get":
			v, pn := doGet(p)
			r.Emit(rec.Ev{"op": "get", "r": v, "i": 0, "panic": pn, "hang": hung})
			if pn {
				hung = false
				return
			}
		case "put":
			pn := doPut(p, c.I)
			r.Emit(rec.Ev{"op": "put", "r": 0, "i": c.I, "panic": pn, "hang": hung})
			if pn {
				hung = false
				return
			}
		}
	}
}

func main() {
	scn := flag.String("scenarios", "", "scenario file (NDJSON)")
	out := flag.String("out", "trace.ndjson", "trace output")
	nrand := flag.Int("random", 0, "number of random histories")
	rlen := flag.Int("len", 40, "length of random histories")
	big := flag.Int("big", 0, "number of long histories on the production range 1..65535 (and 0..65535)")
	biglen := flag.Int("biglen", 100000, "length of those")
	flag.Parse()
	f, err := os.Create(*out)
	if err != nil {
		panic(err)
	}
	defer f.Close()
	r := rec.New(f)
	defer r.Flush()
	n := 0
	if *scn != "" {
		in, err := os.Open(*scn)
		if err != nil {
			panic(err)
		}
		sc := bufio.NewScanner(in)
		sc.Buffer(make([]byte, 1<<20), 1<<26)
		for sc.Scan() {
			var s scenario
			if err := json.Unmarshal(sc.Bytes(), &s); err != nil {
				panic(err)
			}
			n++
			run(r, n, s)
			if hangs >= 2 {
				return
			}
		}
	}
	seed, _ := strconv.ParseInt(os.Getenv("VERIF_SEED"), 10, 64)
	rng := rand.New(rand.NewSource(seed*7919 + 17))
	for k := 0; k < *nrand; k++ {
		min := int32(rng.Intn(3))       // 0,1,2
		max := min + int32(rng.Intn(6)) // size 1..6
		s := scenario{Min: min, Max: max}
		// phases: mostly-get / mostly-put, so that exhaustion and emptiness are both reached
		pget := 0.5
		for j := 0; j < *rlen; j++ {
			if j%8 == 0 {
				pget = []float64{0.85, 0.5, 0.15}[rng.Intn(3)]
			}
			if rng.Float64() < pget {
				s.Calls = append(s.Calls, call{Op: "get"})
			} else {
				s.Calls = append(s.Calls, call{Op: "put", I: min - 1 + int32(rng.Intn(int(max-min)+3))})
			}
		}
		n++
		run(r, n, s)
		if hangs >= 2 {
			return
		}
	}
	// production-size range: the trace would be large if every call were logged, and
	// TLC sets of 65k elements are slow; these runs are checked by the same rule in
	// compressed form: the driver logs calls, TLC validates them like any other trace,
	// but only a window of identifiers is ever outstanding (<= 64) plus exhaustion phases
	// on a shifted small window are covered by the small ranges above.
	for k := 0; k < *big; k++ {
		s := scenario{Min: int32(k % 2), Max: 65535}
		held := []int32{}
		p := wasp.VerifNewMIDPool(s.Min, s.Max)
		n++
		r.Emit(rec.Ev{"op": "new", "scn": n, "min": s.Min, "max": s.Max, "r": 0, "i": 0, "panic": false})
		for j := 0; j < *biglen; j++ {
			if len(held) < 48 && (len(held) == 0 || rng.Intn(100) < 55) {
				v, pn := doGet(p)
				r.Emit(rec.Ev{"op": "get", "r": v, "i": 0, "panic": pn})
				if pn {
					break
				}
				if v >= s.Min && v <= s.Max {
					held = append(held, v)
				}
			} else {
				var i int32
				switch rng.Intn(10) {
				case 0:
					i = int32(rng.Intn(65540)) - 2 // arbitrary, mostly not outstanding
				default:
					x := rng.Intn(len(held))
					i = held[x]
					held = append(held[:x], held[x+1:]...)
				}
				// keep our own view in step when the arbitrary release hit a held id
				for x := range held {
					if held[x] == i {
						held = append(held[:x], held[x+1:]...)
						break
					}
				}
				pn := doPut(p, i)
				r.Emit(rec.Ev{"op": "put", "r": 0, "i": i, "panic": pn})
				if pn {
					break
				}
			}
		}
	}
	fmt.Fprintf(os.Stderr, "scenarios=%d\n", n)
}
