---------------------------- MODULE AckQueueGen ----------------------------
(* Scenario generator for C04/C03: call sequences over the Queue interface, guided  *)
(* by the model state so that the interesting calls dominate: acknowledgements of    *)
(* every packet type for keys that are registered (one type for unknown keys),       *)
(* duplicate registrations, registrations whose deadlines coincide or fall into the  *)
(* same second, sweeps before / between / after them.  Only calls are recorded;      *)
(* results are left to the real queue.  The model here resolves its own              *)
(* nondeterminism (sweep window) by firing exactly Must - it only steers generation. *)
EXTENDS AckQueue, Json
CONSTANTS Depth, GenKinds
VARIABLES hist
Call(c) == hist' = Append(hist, c)
GInit == Init /\ hist = <<>>
GNext == /\ Len(hist) < Depth
         /\ \/ \E k \in Keys, kind \in GenKinds, d \in Deadlines :
                  Insert(k, kind, d) /\ Call([op |-> "insert", s |-> k[1], id |-> k[2], kind |-> kind, d |-> d, ty |-> "", now |-> 0])
            \/ \E k \in Keys, ty \in AckTypes :
                  /\ ((\E x \in Dom(entries) : x[1] = k[1] /\ x[2] = k[2]) \/ (ty = "PUBACK" /\ k[2] = 1))
                  /\ Ack(k, ty) /\ Call([op |-> "ack", s |-> k[1], id |-> k[2], kind |-> "", d |-> 0, ty |-> ty, now |-> 0])
            \/ \E now \in Sweeps :
                  Sweep(now, Must(entries, now)) /\ Call([op |-> "sweep", s |-> "", id |-> 0, kind |-> "", d |-> 0, ty |-> "", now |-> now])
GSpec == GInit /\ [][GNext]_<<vars, hist>>
Dump == (Len(hist) = Depth) => PrintT(<<"BEHAV", ToJson(hist)>>)
=============================================================================
