CONSTANTS K = 5 Vals = {"v1", "v2"}
SPECIFICATION Spec
INVARIANTS TypeOK CountRight
PROPERTY Frame
CHECK_DEADLOCK FALSE
