CONSTANTS Node = {"n1"} Conn = {"c1"} Filter = {"f1"} NodeOf <- NodeOf1 ClientOf <- DiffClient HasWill <- AllWill MaxTime = 9 MaxStamp = 8
SPECIFICATION Spec
INVARIANTS NoTraceLeft ClosedAtEnd EndsOnlyForCause NoEarlyExpiry WillIffUnclean
CHECK_DEADLOCK FALSE
