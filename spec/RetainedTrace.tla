---------------------------- MODULE RetainedTrace ----------------------------
(* Trace validation for C07 at store level (TopicsState.Set/Delete/Get, on the        *)
(* origin node and on a replica that received the broadcasts) and at broker level     *)
(* (retained PUBLISH packets read by a client right after SUBACK).                    *)
EXTENDS Integers, FiniteSets, Sequences, TLC, Json
VARIABLES l, ret
R == INSTANCE Retained WITH RTopics <- {}, Payloads <- {}
Trace == ndJsonDeserialize("trace.ndjson")
Ev == Trace[l]
ToSet(s) == {s[i] : i \in 1..Len(s)}
TInit == TLCSet(1, 0) /\ l = 1 /\ ret = <<>>
Step == /\ l <= Len(Trace) /\ l' = l + 1
        /\ \/ Ev.op = "new" /\ ret' = <<>>
           \/ Ev.op = "pub" /\ ~Ev.panic /\ ret' = R!PublishNew(ret, Ev.t, Ev.p)
           \/ /\ Ev.op = "get" /\ ~Ev.panic
              /\ Len(Ev.got) = Cardinality(ToSet(Ev.got))                           \* exactly once per topic
              /\ {<<g.t, g.p>> : g \in ToSet(Ev.got)} = R!Replay(ret, Ev.f)         \* most recent payload of every matching topic
              /\ \A g \in ToSet(Ev.got) : g.r                                       \* flagged as retained
              /\ UNCHANGED ret
TSpec == TInit /\ [][Step]_<<l, ret>>
HighWater == TLCSet(1, IF TLCGet(1) > l THEN TLCGet(1) ELSE l)
Accepted == IF TLCGet(1) - 1 = Len(Trace) THEN PrintT("TRACE_ACCEPTED")
            ELSE PrintT(<<"REJECTED_AT_LINE", TLCGet(1), Trace[TLCGet(1)]>>) /\ FALSE
=============================================================================
