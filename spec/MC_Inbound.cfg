CONSTANTS Node = {"n1", "n2"} Client = {"c1"} Msgs = {"m1", "m2"} Ids = {1, 2} HostsOf <- MCHosts NodeOf <- MCNodeOf MaxToggles = 2
SPECIFICATION Spec
INVARIANTS AckAfterStore ForwardOnce OnlyDestinations
PROPERTY FailureIsolation
CHECK_DEADLOCK FALSE
