CONSTANTS Msgs = {"m1", "m2", "m3", "big1", "big2"} Big = {"big1", "big2"} Guard = FALSE MaxSteps = 8
SPECIFICATION Spec
INVARIANTS Faithful
CHECK_DEADLOCK FALSE
