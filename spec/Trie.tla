-------------------------------- MODULE Trie --------------------------------
(* The two tries of the repository, transcribed the way the code walks them, to show *)
(* at design level that they refine the maps / the match relation that C01, C07 and   *)
(* C19 are stated in (the binding to the real code is C01/C07/C19's trace validation).*)
(*                                                                                     *)
(* A trie is a prefix-closed set of paths (sequences of level tokens; <<>> is the      *)
(* root) with a value at some of them.                                                 *)
(*   subscription tree (subscriptions/node.go): Upsert(filter, v) stores or clears the *)
(*     value at the filter's node and, on the way back up, prunes a child that holds    *)
(*     neither a value nor children; Walk(topic) descends level by level, following     *)
(*     the children "+" and the topic's token, reporting a "#" child at every level     *)
(*     (also when the topic is exhausted: the parent level) and the node the topic      *)
(*     ends at.                                                                         *)
(*   retained tree (topics/node.go): Insert / Remove (prunes a child only if it holds   *)
(*     neither children nor a value); Match(filter) descends along the filter: "#"      *)
(*     collects the whole subtree (the node itself included), "+" every child.          *)
EXTENDS Topics
CONSTANTS Keys,        \* the filters (subscription tree) or topic names (retained tree) that operations use
          Queries,     \* the topics walked / the filters matched
          Vals,
          Mode,                \* "subs" (Upsert / Walk) or "ret" (Insert / Remove / Match)
          PruneIgnoresValue,   \* negative control: the pinned retained tree pruned a child with no children even if it held a value (D9)
          HashSkipsParent      \* negative control: the pinned walk did not report a "#" child when the topic was exhausted (D7)
VARIABLES nodes, val   \* nodes: set of paths; val: [nodes -> Vals \cup {""}]
vars == <<nodes, val>>
Prefixes(p) == {SubSeq(p, 1, i) : i \in 0..Len(p)}
Children(N, p) == {q \in N : Len(q) = Len(p) + 1 /\ SubSeq(q, 1, Len(p)) = p}
Last(q) == q[Len(q)]
Init == nodes = {<<>>} /\ val = [p \in {<<>>} |-> ""]
\* prune bottom-up along path k, exactly the nodes the recursive update/remove revisits on its way back
RECURSIVE Prune(_, _, _)
Prune(N, V, k) == IF k = <<>> THEN N
                  ELSE IF (V[k] = "" \/ PruneIgnoresValue) /\ Children(N, k) = {} THEN Prune(N \ {k}, V, SubSeq(k, 1, Len(k) - 1))
                  ELSE N
Written(k, v) == LET N1 == nodes \cup Prefixes(k) IN [p \in N1 |-> IF p = k THEN v ELSE IF p \in nodes THEN val[p] ELSE ""]
\* subscription tree: update, then prune on the way back up
Upsert(k, v) ==
  LET V1 == Written(k, v)
      N2 == Prune(DOMAIN V1, V1, k) IN
  /\ nodes' = N2 /\ val' = [p \in N2 |-> V1[p]]
\* retained tree: insert never prunes; remove fails (and changes nothing) when the path does not exist
Insert(k, v) == LET V1 == Written(k, v) IN nodes' = DOMAIN V1 /\ val' = V1
Remove(k) == IF k \in nodes
             THEN LET V1 == [val EXCEPT ![k] = ""]
                      N2 == Prune(nodes, V1, k) IN nodes' = N2 /\ val' = [p \in N2 |-> V1[p]]
             ELSE UNCHANGED vars
\* ---- Walk of the subscription tree: values reached from node p with the rest of the topic
RECURSIVE WalkFrom(_, _)
WalkFrom(p, rest) ==
  IF rest = <<>> THEN {p} \cup (IF HashSkipsParent THEN {} ELSE {q \in Children(nodes, p) : Last(q) = MWC})
  ELSE UNION {IF Last(q) = MWC THEN {q}
              ELSE IF Last(q) = SWC \/ Last(q) = Head(rest) THEN WalkFrom(q, Tail(rest)) ELSE {} : q \in Children(nodes, p)}
Walk(t) == {p \in WalkFrom(<<>>, t) : val[p] # ""}
\* ---- Match of the retained tree: nodes reached from node p with the rest of the filter
Subtree(p) == {q \in nodes : Len(q) >= Len(p) /\ SubSeq(q, 1, Len(p)) = p}
RECURSIVE MatchFrom(_, _)
MatchFrom(p, rest) ==
  IF rest = <<>> THEN {p}
  ELSE IF Head(rest) = MWC THEN Subtree(p)
  ELSE IF Head(rest) = SWC THEN UNION {MatchFrom(q, Tail(rest)) : q \in Children(nodes, p)}
  ELSE UNION {MatchFrom(q, Tail(rest)) : q \in {c \in Children(nodes, p) : Last(c) = Head(rest)}}
Match(f) == {p \in MatchFrom(<<>>, f) : val[p] # ""}
Next == \E k \in Keys : IF Mode = "subs" THEN (\E v \in Vals : Upsert(k, v)) \/ Upsert(k, "")
                           ELSE (\E v \in Vals : Insert(k, v)) \/ Remove(k)
=============================================================================
