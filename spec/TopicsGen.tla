----------------------------- MODULE TopicsGen -----------------------------
(* Prints the exhaustive C01/C07 domains: every valid topic name and every valid     *)
(* topic filter of at most N levels over the level alphabet L (as level sequences). *)
EXTENDS Topics, Json
CONSTANTS L, N
VARIABLE x
Init == x = 0
Next == x = 0 /\ x' = 1 /\ PrintT(<<"DOMAIN", ToJson([topics |-> TopicsOf(L, N), filters |-> FiltersOf(L, N)])>>)
Spec == Init /\ [][Next]_x
=============================================================================
