// Driver for C04 (in-flight table level): replays call sequences on the real
// ack.Queue and records return values and every callback invocation.
//
// Scenario file: one JSON array of calls per line,
//
//	{"op":"insert","s":"s1","id":1,"kind":"pub1","d":5000}
//	{"op":"ack","s":"s1","id":1,"ty":"PUBACK"}
//	{"op":"sweep","now":5200}
//
// times are milliseconds relative to a fixed base instant that is a whole second.
// Every scenario is closed by a sweep far in the future so that every registered
// exchange must have shown its outcome by the end.
package main

import (
	"bufio"
	"encoding/json"
	"flag"
	"fmt"
	"os"
	"time"

	"github.com/vx-labs/mqtt-protocol/packet"
	"github.com/vx-labs/wasp/v4/wasp/ack"
	"verifharness/internal/rec"
)

type call struct {
	Op   string `json:"op"`
	S    string `json:"s"`
	ID   int32  `json:"id"`
	Kind string `json:"kind"`
	D    int64  `json:"d"`
	Ty   string `json:"ty"`
	Now  int64  `json:"now"`
}

var base = time.Unix(1700000000, 0)

func at(ms int64) time.Time { return base.Add(time.Duration(ms) * time.Millisecond) }

func mkInsert(kind string, id int32) packet.Packet {
	switch kind {
	case "pub0":
		return &packet.Publish{Header: &packet.Header{Qos: 0}, MessageId: id, Topic: []byte("t")}
	case "pub1":
		return &packet.Publish{Header: &packet.Header{Qos: 1}, MessageId: id, Topic: []byte("t")}
	case "pub2":
		return &packet.Publish{Header: &packet.Header{Qos: 2}, MessageId: id, Topic: []byte("t")}
	case "pubrec":
		return &packet.PubRec{Header: &packet.Header{}, MessageId: id}
	case "pubrel":
		return &packet.PubRel{Header: &packet.Header{}, MessageId: id}
	}
	panic("kind " + kind)
}
func mkAck(ty string, id int32) packet.Packet {
	switch ty {
	case "PUBACK":
		return &packet.PubAck{Header: &packet.Header{}, MessageId: id}
	case "PUBREC":
		return &packet.PubRec{Header: &packet.Header{}, MessageId: id}
	case "PUBREL":
		return &packet.PubRel{Header: &packet.Header{}, MessageId: id}
	case "PUBCOMP":
		return &packet.PubComp{Header: &packet.Header{}, MessageId: id}
	}
	panic("ack type " + ty)
}

type cb struct {
	Tag     int  `json:"tag"`
	Expired bool `json:"expired"`
}

func run(r *rec.Recorder, n int, calls []call) {
	q := ack.NewQueue()
	r.Emit(rec.Ev{"op": "new", "scn": n})
	tag := 0
	var cbs []cb
	for _, c := range append(calls, call{Op: "sweep", Now: 100000000}) {
		cbs = []cb{}
		switch c.Op {
		case "insert":
			tag++
			t := tag
			err := q.Insert(c.S, mkInsert(c.Kind, c.ID), at(c.D), func(expired bool, stored, received packet.Packet) {
				cbs = append(cbs, cb{Tag: t, Expired: expired})
			})
			r.Emit(rec.Ev{"op": "insert", "s": c.S, "id": c.ID, "kind": c.Kind, "d": c.D, "ok": err == nil, "tag": t, "cbs": cbs})
		case "ack":
			err := q.Ack(c.S, mkAck(c.Ty, c.ID))
			r.Emit(rec.Ev{"op": "ack", "s": c.S, "id": c.ID, "ty": c.Ty, "ok": err == nil, "cbs": cbs})
		case "sweep":
			q.Expire(at(c.Now))
			r.Emit(rec.Ev{"op": "sweep", "now": c.Now, "cbs": cbs})
		}
	}
}

func main() {
	scn := flag.String("scenarios", "", "scenario file (one JSON array per line)")
	out := flag.String("out", "trace.ndjson", "trace output")
	flag.Parse()
	f, err := os.Create(*out)
	if err != nil {
		panic(err)
	}
	defer f.Close()
	r := rec.New(f)
	defer r.Flush()
	in, err := os.Open(*scn)
	if err != nil {
		panic(err)
	}
	sc := bufio.NewScanner(in)
	sc.Buffer(make([]byte, 1<<20), 1<<26)
	n := 0
	for sc.Scan() {
		var calls []call
		if err := json.Unmarshal(sc.Bytes(), &calls); err != nil {
			panic(err)
		}
		n++
		run(r, n, calls)
	}
	fmt.Fprintf(os.Stderr, "scenarios=%d\n", n)
}
