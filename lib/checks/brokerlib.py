"""Shared by the broker-level checks: run scenarios on the in-process node harness (driver
cmd/broker, sharded over several processes), validate the recorded traces with BrokerTrace.

Scenario language (one JSON object): {"nodes":[1,2], "auth":[{u,p,m}]?, "ops":[...]}, ops:
  connect{c,n,client,user,pass,ka,will{t,p,q,r}?,auto}  sub{c,id,fs[{f,q}]}  unsub{c,id,fs[{f}]}
  pub{c,t,p,q,r,id,dup,size?}  send{c,kind,id}  raw{c,hex,cls}  close{c}  idle{ms}  sweep{n,ms}
  gossip{mode}  collect  deliver{mid,to}  peerfail{n,ms}  faillog{n,k}  failrpc{from,to,on}
  quiesce  wait{ms}
"""
import json
import os
import subprocess
from concurrent.futures import ThreadPoolExecutor

import vlib


def execute(run, scns, tag, shards=8, timeout=1800):
    spath = os.path.join(run.scratch, "scn-%s.ndjson" % tag)
    with open(spath, "w") as f:
        for s in scns:
            f.write(json.dumps(s) + "\n")
    drv = run.gobuild("broker")
    shards = max(1, min(shards, len(scns)))
    outs = [os.path.join(run.scratch, "broker-%s-%d.ndjson" % (tag, i)) for i in range(shards)]
    crashes = []

    def one(i):
        p = subprocess.run([drv, "-scenarios", spath, "-out", outs[i], "-shard", "%d/%d" % (i, shards)],
                           stdout=subprocess.PIPE, stderr=subprocess.PIPE, text=True, timeout=timeout, cwd=run.scratch)
        if p.returncode != 0:
            crashes.append((i, p.returncode, p.stderr[-6000:]))
    with ThreadPoolExecutor(max_workers=shards) as ex:
        list(ex.map(one, range(shards)))
    tpath = os.path.join(run.scratch, "broker-%s.ndjson" % tag)
    with open(tpath, "w") as out:
        for o in outs:
            if os.path.exists(o):
                with open(o) as f:
                    for ln in f:
                        out.write(ln)
                os.unlink(o)
    return tpath, crashes


def segmented(auth=None, cuts=(1, 2, 3)):
    """Packets that arrive in two TCP segments while other sessions are busy: (a) a long CONNECT (two-byte remaining length) of the
    22nd..24th connection is cut after 1-3 bytes and every established session pings before the rest arrives; (b) a long PUBLISH of
    the first session is cut and 21 other clients connect before the rest arrives.  Segmentation is the network's business: each
    packet must be handled as if it had arrived whole (credentials checked, session served, publish acknowledged and delivered)."""
    def cred(i):
        if not auth:
            return {}
        e = auth[i % len(auth)]
        return {"user": e["u"], "pass": e["p"]}
    out = []
    n0 = 21
    for cut in cuts:
        ops = []
        for i in range(n0):
            ops.append(dict({"op": "connect", "c": 1 + i, "n": 1, "client": "early%d" % i, "ka": 6000}, **cred(i)))
        pings = [{"op": "send", "c": 1 + i, "kind": "PINGREQ"} for i in range(n0)]
        for j in range(3):
            c = 30 + j
            ops.append(dict({"op": "connect", "c": c, "n": 1, "client": "late%d-%s" % (j, "x" * 140), "ka": 6000, "cut": cut + j, "b": pings}, **cred(j)))
            ops.append({"op": "sub", "c": c, "id": 1, "fs": [{"f": ["seg", "late%d" % j], "q": 1}]})
            ops.append({"op": "pub", "c": c, "t": ["seg", "late%d" % j], "p": "late-%d-%d" % (cut, j), "q": 1, "r": False, "id": 5})
        ops.append({"op": "quiesce"})
        out.append({"nodes": [1], "ops": ops})
        ops = [dict({"op": "connect", "c": 1, "n": 1, "client": "first", "ka": 6000}, **cred(0)),
               {"op": "sub", "c": 1, "id": 1, "fs": [{"f": ["seg", "#"], "q": 1}]}]
        others = [dict({"op": "connect", "c": 2 + i, "n": 1, "client": "other%d" % i, "ka": 6000}, **cred(i + 1)) for i in range(n0)]
        ops.append({"op": "pub", "c": 1, "t": ["seg", "first"], "p": "first-%d" % cut, "q": 1, "r": False, "id": 7, "size": 300, "cut": cut, "b": others})
        ops.append({"op": "pub", "c": 2, "t": ["seg", "second"], "p": "second-%d" % cut, "q": 1, "r": False, "id": 8, "size": 200, "cut": cut + 1,
                    "b": [{"op": "send", "c": 1, "kind": "PINGREQ"}]})
        ops.append({"op": "quiesce"})
        out.append({"nodes": [1], "ops": ops})
    if auth:
        for s in out:
            s["auth"] = auth
    return out


FRAMING_CFG = """CONSTANTS Base = 2 Conn = {1, 2} MaxSeg = %d Packets <- GPackets
SPECIFICATION GSpec
CONSTRAINT Dump
CHECK_DEADLOCK FALSE
"""


def framing_model(run):
    """the design model of the byte-stream layer, and its negative control (one header buffer shared by all decoders must break Faithful)"""
    import vlib
    run.model_check("MC_Framing", "MC_Framing.cfg")
    neg = run.tlc("MC_Framing", "MC_Framing_shared.cfg", allow_violation=True, name="negative-control:Shared=TRUE")
    if "Faithful" not in neg.violated:
        raise vlib.Inconclusive("negative control failed: Framing with a shared header buffer does not violate Faithful")


def framing(run, n, maxseg=3, auth=None):
    """TLC-generated delivery schedules (FramingGen: every way to cut two connections' streams at the offsets that matter to a decoder,
    up to maxseg segments each, in every order across the connections), realised by the driver's `segs` operation.  The two connections
    are 20 connections apart, so that they are set up by the same worker."""
    import vlib
    hs = vlib.gen_behaviours(run, "FramingGen", "Gen_Framing_%d.cfg" % maxseg, FRAMING_CFG % maxseg)
    hs = [h for h in hs if len(h) > 2]
    step = max(1, len(hs) // n)
    hs = hs[run.seed % step:: step][:n]

    def cred(i):
        if not auth:
            return {}
        e = auth[i % len(auth)]
        return {"user": e["u"], "pass": e["p"]}
    out = []
    for k, h in enumerate(hs):
        # nothing is delivered to a connection while its own stream is half-sent (its client could not answer in the middle of a
        # packet): connection 1 publishes to the watcher (connection 10) and subscribes to a topic that is used afterwards only
        ops = [dict({"op": "connect", "c": 1, "n": 1, "client": "first", "ka": 6000}, **cred(0))]
        ops += [dict({"op": "connect", "c": 10 + i, "n": 1, "client": "filler%d" % i, "ka": 6000}, **cred(0 if i == 0 else i + 1)) for i in range(19)]
        ops.append({"op": "sub", "c": 10, "id": 1, "fs": [{"f": ["fr", "a"], "q": 1}]})
        s1 = [{"op": "sub", "id": 3, "fs": [{"f": ["fr", "c"], "q": 1}], "mlen": 1},
              {"op": "pub", "t": ["fr", "a"], "p": "fr-own-%d" % k, "q": 1, "r": False, "id": 7, "size": 300, "mlen": 3},
              {"op": "send", "kind": "PINGREQ", "mlen": 0}]
        s2 = [dict({"op": "connect", "n": 1, "client": "late-" + "x" * 140, "ka": 6000, "mlen": 2}, **cred(1)),
              {"op": "sub", "id": 4, "fs": [{"f": ["fr", "b"], "q": 1}], "mlen": 1}]
        ops.append({"op": "segs", "streams": [{"c": 1, "pkts": s1}, {"c": 2, "pkts": s2}], "plan": h})
        ops.append({"op": "pub", "c": 2, "t": ["fr", "b"], "p": "fr-late-%d" % k, "q": 1, "r": False, "id": 9})
        ops.append({"op": "pub", "c": 10, "t": ["fr", "c"], "p": "fr-cross-%d" % k, "q": 1, "r": False, "id": 10})
        ops.append({"op": "quiesce"})
        s = {"nodes": [1], "ops": ops}
        if auth:
            s["auth"] = auth
        out.append(s)
    return out


def context(scn, line, k=14, full=False):
    if full:      # for the replay file: everything but the chatter, so that a rejection that does not reproduce can still be read
        return [e for e in scn[:line] if e["op"] not in ("gossip.out", "gossip.deliver", "conn.deadline")][-k:]
    keep = [e for e in scn[:line] if e["op"] not in ("log.consume", "log.get", "gossip.out", "gossip.deliver", "conn.deadline",
                                                      "ack.ack.call", "ack.ack.ret", "writer.done", "publish.done", "auth")]
    return keep[-k:]


def classify(scn, line):
    """Signature of a rejection, from the rejected event and cheap context (classification only)."""
    e = scn[line - 1]
    op = e["op"]
    if op == "process.died":
        err = e.get("stderr", "")
        if "panic:" not in err and "fatal error:" not in err:
            return "harness-error"       # the driver process ended for another reason (killed, time-out): not evidence
        return "broker-process-died:" + ("decoder" if "mqtt-protocol" in err else "other")
    if op == "stall":
        return "stall:" + str(e.get("waiting_for", "")).split(" (")[0]
    if op == "harness-error":
        return "harness-error"
    if op == "probe":
        if e.get("held"):
            return "probe:identifiers-held-at-quiescence"
        ended = set()
        for x in scn[:line - 1]:
            if x["op"] == "shutdown.done":
                ended.add(x["s"])
        listed = {s["s"] for s in e.get("sessions", [])}
        if listed & ended:
            disc = any(x["op"] == "cli.send" and x.get("kind") == "DISCONNECT" for x in scn[:line - 1])
            return "probe:ended-session-still-listed" + ("-after-disconnect" if disc else "")
        if {s["s"] for s in e.get("subs", [])} & ended:
            return "probe:subscription-of-ended-session-listed"
        clients = {}
        for s_ in e.get("sessions", []):
            clients.setdefault((s_["client"], s_["mount"]), set()).add(s_["s"])
        if any(len(v) > 1 for v in clients.values()):
            return "probe:client-id-resolves-to-two-sessions"
        return "probe:listing-differs"
    if op == "quiescent":
        pend = [x for x in scn[:line - 1] if x["op"] == "shutdown.done"]
        closed = {x["c"] for x in scn[:line - 1] if x["op"] == "srv.close"}
        if pend and not all(int(x["s"][1:]) in closed for x in pend):
            return "quiescent:connection-not-closed-at-session-end"
        # a session whose read timed out (keep-alive expiry) and that was never torn down
        timed = {x["c"] for x in scn[:line - 1] if x["op"] == "conn.timeout"}
        down = {int(x["s"][1:]) for x in pend if x["s"][1:].isdigit()}
        est = {x["c"] for x in scn[:line - 1] if x["op"] == "srv.write" and x.get("kind") == "CONNACK" and x.get("code") == 0}
        if (timed & est) - down:
            return "quiescent:silent-session-still-served"
        first = next((x for x in scn if x["op"] == "log.append"), None)
        delivered = {x["p"] for x in scn[:line - 1] if x["op"] == "srv.write" and x.get("kind") == "PUBLISH"}
        if first and first.get("off") == 0 and first["p"] not in delivered:
            return "quiescent:first-log-entry-never-delivered"
        return "quiescent:obligation-outstanding"
    if op == "conn.timeout":
        last = [x for x in scn[:line - 1] if x["op"] == "cli.send" and x["c"] == e["c"]]
        return "timeout-within-keepalive" + ("-right-after-connect" if last and last[-1].get("kind") == "CONNECT" else "")
    if op == "cli.send" and "dropped" not in e:
        return "silent-session-still-served"
    if op == "srv.write":
        return "srv.write:%s-unexplained" % e.get("kind")
    if op == "log.append":
        wills = {x["will"]["p"] for x in scn[:line - 1] if x["op"] == "cli.send" and x.get("kind") == "CONNECT" and x.get("haswill")}
        if e.get("p") in wills:
            return "log.append:will-unexplained"
        return "log.append:" + ("unprefixed-topic" if e.get("mount") == "" else "unexplained")
    if op == "reg.delete":
        return "session-ended-without-cause"
    return op + "-unexplained"


def validate(run, prop, scns, tpath, verdict, max_rejections=4, chunk_events=40000):
    nev, nscn = vlib.count_lines(tpath, '"op":"new"')
    validated, rejected, tstates = vlib.validate_scenarios(run, "BrokerTrace", "BrokerTrace.cfg", tpath, timeout=3000,
                                                           max_rejections=max_rejections, chunk_events=chunk_events)
    for rj in rejected:
        scn, line = rj["scenario"], rj["line"]
        e = scn[line - 1]
        sig = classify(scn, line)
        if sig.startswith("harness-error"):
            raise vlib.Inconclusive("harness error: %s" % json.dumps(e)[:1500])
        idx = scn[0]["scn"] - 1
        if sig.startswith("stall:") and 0 <= idx < len(scns) and not os.environ.get("VERIF_NO_STALL_RETRY"):
            # a stall is only evidence if it is not an artefact of a loaded machine: run the scenario once more, alone
            tp2, cr2 = execute(run, [scns[idx]], "retry%d" % idx, shards=1)
            if not cr2:
                ok2, line2, detail2, _ = run.validate("BrokerTrace", "BrokerTrace.cfg", tp2)
                if ok2:
                    run.notes.append("a stall in scenario %d did not reproduce when the scenario was re-run alone; ignored" % (idx + 1))
                    continue
        scenario = scns[idx] if 0 <= idx < len(scns) else None
        known = any(f.get("signature") == sig for f in verdict.known)
        extra = {}
        if scenario and not known and not verdict.violations and not os.environ.get("VERIF_NO_MINIMISE"):
            small, tries = minimise(run, scenario, sig, budget=6 if sig.startswith("stall") else 40)   # a stall costs 10 s per attempt
            if len(small["ops"]) < len(scenario["ops"]):
                extra = {"original_scenario": scenario, "minimised_in_runs": tries}
                scenario = small
        verdict.add(sig, "broker trace: event %d %s is not a step of the broker specification; preceding events: %s"
                    % (line, json.dumps(e), json.dumps(context(scn, line - 1))),
                    dict({"kind": "broker", "scenario": scenario, "rejected": e, "trace": context(scn, line, 150, full=True)}, **extra))
    return nev, nscn, validated, rejected, tstates


def minimise(run, scenario, sig, budget=40):
    """Rule V2: drop operations of a rejected scenario while the same rejection (signature) persists on the real code.
    One greedy pass from the end; every candidate is re-executed and re-validated.  Used for the first new violation only."""
    ops = list(scenario["ops"])
    tries = 0
    i = len(ops) - 1
    while i >= 0 and tries < budget:
        if ops[i]["op"] in ("quiesce",):
            i -= 1
            continue
        cand = dict(scenario, ops=ops[:i] + ops[i + 1:])
        tries += 1
        try:
            tp, cr = execute(run, [cand], "min%d" % tries, shards=1)
            if cr:
                same = sig.startswith("broker-process-died")
            else:
                ok, line, detail, _ = run.validate("BrokerTrace", "BrokerTrace.cfg", tp)
                if ok:
                    same = False
                else:
                    ev = vlib.load_events(tp)
                    same = classify(ev, line) == sig
        except vlib.Inconclusive:
            same = False
        if same:
            ops = cand["ops"]
        i -= 1
    return dict(scenario, ops=ops), tries


def replay(run, prop, path):
    rp = json.load(open(path))
    tpath, crashes = execute(run, [rp["scenario"]], "replay", shards=1)
    if crashes:
        print("replay: the broker process died:\n%s" % crashes[0][2][-1500:])
        print("VIOLATION property=%s replay=%s" % (prop, path))
        return 1
    events = vlib.load_events(tpath)
    spec = rp.get("tracespec", "BrokerTrace")      # scripts with lagging gossip are judged by ViewTrace.tla (C14)
    ok, line, detail, _ = run.validate(spec, spec + ".cfg", tpath)
    if ok:
        print("replay: accepted (no violation)")
        return 0
    print("replay: rejected at event %d: %s" % (line, json.dumps(events[line - 1])))
    print("VIOLATION property=%s replay=%s" % (prop, path))
    return 1
