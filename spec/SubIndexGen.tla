---------------------------- MODULE SubIndexGen ----------------------------
(* History generator for C01: every sequence of Depth subscribe / unsubscribe /      *)
(* re-subscribe operations over the configured sessions and filters (prefix-related  *)
(* filters, wildcards at every position), so that the same active set is reached     *)
(* along many different paths.                                                       *)
EXTENDS SubIndex, Json
CONSTANT Depth
VARIABLE hist
GInit == Init /\ hist = <<>>
GNext == /\ Len(hist) < Depth
         /\ \E s \in Sessions, f \in Filters :
              \/ \E q \in QoSes : Subscribe(s, f, q) /\ hist' = Append(hist, [op |-> "sub", s |-> s, f |-> f, q |-> q])
              \/ /\ \E y \in active : y.f = f          \* removing something never subscribed by anybody is uninformative
                 /\ Unsubscribe(s, f) /\ hist' = Append(hist, [op |-> "unsub", s |-> s, f |-> f, q |-> 0])
GSpec == GInit /\ [][GNext]_<<active, hist>>
Dump == (Len(hist) = Depth) => PrintT(<<"BEHAV", ToJson(hist)>>)
F1 == { <<"a", "#">>, <<"a", "+">>, <<"a">>, <<"#">> }
F2 == { <<"a", "b", "#">>, <<"a", "b">>, <<"+", "b">>, <<"a", "", "+">>, <<"", "#">> }
=============================================================================
