CONSTANTS Min = 1 Max = 3 Depth = 5
SPECIFICATION Spec
CONSTRAINT Dump
CHECK_DEADLOCK FALSE
