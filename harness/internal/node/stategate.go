//go:build gates

package node

import (
	"sync"

	"github.com/vx-labs/mqtt-protocol/packet"
	"github.com/vx-labs/wasp/v4/wasp/api"
	"github.com/vx-labs/wasp/v4/wasp/distributed"
)

// Gates are one-shot scheduler gates at the entry of the replicated-state calls the packet handlers make: when a
// point is armed, the first goroutine that reaches it parks there until the driver releases it.  The driver uses them
// to run one client operation entirely "inside" another one at a chosen point - a deterministic interleaving that no
// amount of load would produce reliably.  The wrappers embed the real interfaces, so that methods a change adds to them
// are forwarded without the harness knowing them.
type gate struct {
	release chan struct{}
	parked  chan struct{}
	taken   bool
}

type Gates struct {
	mu sync.Mutex
	m  map[string]*gate
}

func newGates() *Gates { return &Gates{m: map[string]*gate{}} }

// GatesBuilt reports whether the harness was built with the gates (build tag "gates").
const GatesBuilt = true

// Arm makes the next arrival at point park there until Release.
func (g *Gates) Arm(point string) {
	g.mu.Lock()
	g.m[point] = &gate{release: make(chan struct{}), parked: make(chan struct{})}
	g.mu.Unlock()
}

// Parked returns a channel that is closed once a goroutine is parked at point (nil if the point is not armed).
func (g *Gates) Parked(point string) <-chan struct{} {
	g.mu.Lock()
	defer g.mu.Unlock()
	if x := g.m[point]; x != nil {
		return x.parked
	}
	return nil
}

// Release disarms point and lets the parked goroutine, if any, go on.
func (g *Gates) Release(point string) {
	g.mu.Lock()
	x := g.m[point]
	delete(g.m, point)
	g.mu.Unlock()
	if x != nil {
		close(x.release)
	}
}

func (g *Gates) at(point string) {
	g.mu.Lock()
	x := g.m[point]
	if x == nil || x.taken { // one-shot: later arrivals pass, also while the first one is still parked
		g.mu.Unlock()
		return
	}
	x.taken = true
	g.mu.Unlock()
	close(x.parked)
	<-x.release
}

func wrapState(s distributed.State, g *Gates) distributed.State { return gatedState{s, g} }

type gatedState struct {
	distributed.State
	g *Gates
}

func (s gatedState) Subscriptions() distributed.SubscriptionsState {
	return gatedSubs{s.State.Subscriptions(), s.g}
}
func (s gatedState) SessionMetadatas() distributed.SessionMetadatasState {
	return gatedSess{s.State.SessionMetadatas(), s.g}
}
func (s gatedState) Topics() distributed.TopicsState { return gatedTopics{s.State.Topics(), s.g} }

type gatedSubs struct {
	distributed.SubscriptionsState
	g *Gates
}

func (s gatedSubs) Create(sessionID string, pattern []byte, qos int32) error {
	s.g.at("subs.create")
	return s.SubscriptionsState.Create(sessionID, pattern, qos)
}
func (s gatedSubs) Delete(sessionID string, pattern []byte) error {
	s.g.at("subs.delete")
	return s.SubscriptionsState.Delete(sessionID, pattern)
}
func (s gatedSubs) ByPattern(pattern []byte) []api.Subscription {
	s.g.at("subs.bypattern")
	return s.SubscriptionsState.ByPattern(pattern)
}

type gatedSess struct {
	distributed.SessionMetadatasState
	g *Gates
}

func (s gatedSess) Create(id string, clientID string, connectedAt int64, lwt *packet.Publish, mountpoint string) error {
	s.g.at("sess.create")
	return s.SessionMetadatasState.Create(id, clientID, connectedAt, lwt, mountpoint)
}
func (s gatedSess) Delete(id string) error {
	s.g.at("sess.delete")
	return s.SessionMetadatasState.Delete(id)
}
func (s gatedSess) All() []api.SessionMetadatas {
	s.g.at("sess.all")
	return s.SessionMetadatasState.All()
}
func (s gatedSess) ByClientID(clientID string, mountPoint string) (api.SessionMetadatas, error) {
	s.g.at("sess.byclientid")
	return s.SessionMetadatasState.ByClientID(clientID, mountPoint)
}

type gatedTopics struct {
	distributed.TopicsState
	g *Gates
}

func (s gatedTopics) Set(message *packet.Publish) error {
	s.g.at("topics.set")
	return s.TopicsState.Set(message)
}
func (s gatedTopics) Delete(topic []byte) error {
	s.g.at("topics.delete")
	return s.TopicsState.Delete(topic)
}
func (s gatedTopics) Get(pattern []byte) ([]api.RetainedMessage, error) {
	s.g.at("topics.get")
	return s.TopicsState.Get(pattern)
}
