package commitlog

import (
	"encoding/binary"
	"errors"
	"fmt"
	"io"
	"os"
	"path"

	"github.com/tysontate/gommap"
)

const (
	indexValueSize = 8
)

var encoding = binary.BigEndian

var (
	ErrIndexAlreadyExists    = errors.New("index already exists")
	ErrIndexDoesNotExist     = errors.New("index does not exist")
	ErrInvalidIndexValue     = errors.New("value to index does not respect size limit")
	ErrInvalidOffsetTooShort = errors.New("invalid offset: offset is too short")
	ErrInvalidOffsetTooBig   = errors.New("invalid offset: offset is too big")
	ErrMMapFailed            = errors.New("mmap failed")
	ErrFSyncFailed           = errors.New("file sync failed")
	ErrMSyncFailed           = errors.New("mmap sync failed")
	ErrIndexCorrupt          = errors.New("index corrupt")
)

type Index interface {
	Sync() error
	FilePath() string
	Name() string
	io.Closer
	writePosition(offset, position uint64) error
	readPosition(offset uint64) (uint64, error)
}

type index struct {
	path string
	fd   *os.File
	data gommap.MMap
}

func indexName(datadir, suffix string, id uint64) string {
	return path.Join(datadir, fmt.Sprintf("%d.%s.index", id, suffix))
}

func createIndex(datadir, suffix string, id uint64, segmentSize uint64) (Index, error) {
	filename := indexName(datadir, suffix, id)
	if fileExists(filename) {
		return nil, ErrIndexAlreadyExists
	}
	fd, err := os.OpenFile(filename, os.O_RDWR|os.O_CREATE|os.O_TRUNC, 0650)
	if err != nil {
		return nil, err
	}
	err = fd.Truncate(int64(segmentSize * indexValueSize))
	if err != nil {
		fd.Close()
		os.Remove(filename)
		return nil, err
	}
	idx := &index{fd: fd, path: filename}
	return idx, idx.mmap()
}
func openIndex(datadir, suffix string, id uint64, segmentSize uint64) (Index, error) {
	filename := indexName(datadir, suffix, id)
	if !fileExists(filename) {
		return nil, ErrIndexDoesNotExist
	}
	fd, err := os.OpenFile(filename, os.O_RDWR, 0650)
	if err != nil {
		return nil, err
	}

	idx := &index{fd: fd, path: filename}

	err = verifyIndex(fd, segmentSize)
	if err != nil {
		return nil, err
	}
	return idx, idx.mmap()
}

func (i *index) FilePath() string {
	return i.path
}
func (i *index) Name() string {
	return i.fd.Name()
}

func verifyIndex(r io.ReadSeeker, size uint64) error {
	_, err := r.Seek(0, 0)
	if err != nil {
		return ErrIndexCorrupt
	}
	buf := make([]byte, indexValueSize)
	var i uint64
	for i = 0; i < size; i++ {
		n, err := r.Read(buf)
		if err != nil || n != indexValueSize {
			return ErrIndexCorrupt
		}
	}
	n, err := r.Read(buf)
	if err == io.EOF && n == 0 {
		_, err := r.Seek(0, 0)
		return err
	}
	return ErrIndexCorrupt
}
func (i *index) mmap() error {
	mmapedData, err := gommap.Map(i.fd.Fd(), gommap.PROT_READ|gommap.PROT_WRITE, gommap.MAP_SHARED)
	if err != nil {
		return ErrMMapFailed
	}
	i.data = mmapedData
	return nil
}

func (i *index) Sync() error {
	if err := i.fd.Sync(); err != nil {
		return ErrFSyncFailed
	}
	if err := i.data.Sync(gommap.MS_SYNC); err != nil {
		return ErrMMapFailed
	}
	return nil
}

func (i *index) Close() error {
	err := i.Sync()
	if err != nil {
		return err
	}
	err = i.data.UnsafeUnmap()
	if err != nil {
		return err
	}
	return i.fd.Close()
}
func (i *index) writePosition(offset, position uint64) error {
	writeOffset := offset * indexValueSize
	encoding.PutUint64(i.data[writeOffset:writeOffset+indexValueSize], position)
	return nil
}

func (i *index) readPosition(offset uint64) (uint64, error) {
	writeOffset := offset * indexValueSize
	return encoding.Uint64(i.data[writeOffset : writeOffset+indexValueSize]), nil
}
