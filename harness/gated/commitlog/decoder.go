package commitlog

import (
	"io"
)

type Decoder interface {
	Decode() (Entry, error)
}

type decoder struct {
	headerBuf []byte
	r         io.Reader
}

func (d *decoder) Decode() (Entry, error) {
	e, err := readEntry(d.r, d.headerBuf)
	return e, err
}

func NewDecoder(r io.Reader) Decoder {
	return &decoder{r: r, headerBuf: make([]byte, EntryHeaderSize)}
}
