CONSTANTS Sess = {"s1", "s2"} Ids = {0, 1, 2} Deadlines = {5000, 5300, 1000} Sweeps = {2500, 5200, 9000}
 Sec = 1000 MaxTag = 4
SPECIFICATION Spec
CONSTRAINT Bound
INVARIANTS ExactlyOnce TagsUnique
PROPERTIES OutcomeStable Independent
CHECK_DEADLOCK FALSE
