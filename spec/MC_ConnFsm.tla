------------------------------ MODULE MC_ConnFsm ------------------------------
EXTENDS ConnFsm
CONSTANT MaxServed
Spec == Init /\ [][Next]_vars
Bound == served <= MaxServed
BrokerAlive == up
OnlyOffenderEnds == phase[Witness] = "live"
WitnessServable == ENABLED RoundTrip
=============================================================================
