------------------------------ MODULE ViewTrace ------------------------------
(* C14 with lagging gossip: "a message published on one node is appended exactly once to    *)
(* the message log of each node that hosts at least one matching subscription KNOWN TO THE  *)
(* PUBLISHING NODE, and to no other node's log".  BrokerTrace judges scripts in which gossip *)
(* is delivered between steps (every node knows everything); this specification follows     *)
(* what each node knows - its own sessions' subscriptions when the change is made, the       *)
(* others' when the broadcast that carries the change is delivered - for scripts in which    *)
(* the harness holds broadcasts back and delivers them by hand, in order.                    *)
(*   knows[n]  : set of [s, peer, f] node n believes subscribed                              *)
(*   carry[m]  : the subscription changes broadcast m carries (decoded by the harness)       *)
(*   pubs[p]   : publish p: publishing node, topic, the destinations resolved from           *)
(*               knows[publishing node] at the moment the PUBLISH is sent                    *)
(*   logs[n]   : payloads appended to node n's log                                           *)
(*   dl        : <<c, p>> -> copies written to connection c                                  *)
EXTENDS Integers, FiniteSets, Sequences, TLC, Json
VARIABLES l, conn, knows, carry, pubs, logs, dl, acked
T == INSTANCE Topics
Trace == ndJsonDeserialize("trace.ndjson")
Ev == Trace[l]
vars == <<l, conn, knows, carry, pubs, logs, dl, acked>>
Dom(f) == DOMAIN f
ToSet(s) == {s[i] : i \in 1..Len(s)}
Upd(f, k, v) == (k :> v) @@ f
Get(f, k, d) == IF k \in DOMAIN f THEN f[k] ELSE d
Mount == "_default"
RECURSIVE Apply(_, _)
Apply(K, cs) == IF cs = <<>> THEN K
                ELSE LET c == Head(cs)
                         e == [s |-> c.s, peer |-> c.peer, f |-> c.f]
                     IN Apply(IF c.on THEN K \cup {e} ELSE K \ {e}, Tail(cs))
Full(t) == <<Mount>> \o t
Dests(n, t) == {e.peer : e \in {x \in knows[n] : T!Matches(x.f, Full(t))}}
TInit == TLCSet(1, 0) /\ l = 1 /\ conn = <<>> /\ knows = <<>> /\ carry = <<>> /\ pubs = <<>> /\ logs = <<>> /\ dl = <<>> /\ acked = {}
New == /\ Ev.op = "new" /\ conn' = <<>> /\ carry' = <<>> /\ pubs' = <<>> /\ dl' = <<>> /\ acked' = {}
       /\ knows' = [n \in ToSet(Ev.nodes) |-> {}] /\ logs' = [n \in ToSet(Ev.nodes) |-> {}]
Open == /\ Ev.op = "conn.open" /\ conn' = Upd(conn, Ev.c, [n |-> Ev.n, s |-> Ev.s])
        /\ UNCHANGED <<knows, carry, pubs, logs, dl, acked>>
\* a node knows the changes to its own sessions' subscriptions from the moment it makes them (the scripts collect the broadcast
\* right after the step that made the change); the others learn them when the broadcast arrives
Out == /\ Ev.op = "gossip.out" /\ carry' = Upd(carry, Ev.mid, Ev.subs)
       /\ knows' = [knows EXCEPT ![Ev.n] = Apply(@, Ev.subs)]
       /\ UNCHANGED <<conn, pubs, logs, dl, acked>>
In == /\ Ev.op = "gossip.deliver" /\ Ev.mid \in Dom(carry)
      /\ knows' = [knows EXCEPT ![Ev.to] = Apply(@, carry[Ev.mid])]
      /\ UNCHANGED <<conn, carry, pubs, logs, dl, acked>>
Publish == /\ Ev.op = "cli.send" /\ Ev.kind = "PUBLISH" /\ Ev.c \in Dom(conn) /\ Ev.p \notin Dom(pubs)
           /\ pubs' = Upd(pubs, Ev.p, [n |-> conn[Ev.c].n, c |-> Ev.c, id |-> Ev.id, q |-> Ev.q, t |-> Ev.t, dests |-> Dests(conn[Ev.c].n, Ev.t)])
           /\ UNCHANGED <<conn, knows, carry, logs, dl, acked>>
\* appended only where the publishing node knows a matching subscription to be hosted, and there at most once
LogAppend == /\ Ev.op = "log.append" /\ Ev.p \in Dom(pubs) /\ Ev.ok
             /\ Ev.n \in pubs[Ev.p].dests /\ Ev.p \notin logs[Ev.n] /\ Ev.t = pubs[Ev.p].t /\ Ev.mount = Mount
             /\ logs' = [logs EXCEPT ![Ev.n] = @ \cup {Ev.p}]
             /\ UNCHANGED <<conn, knows, carry, pubs, dl, acked>>
\* acknowledged only when every destination the publishing node knew of has the message
Ack == /\ Ev.op = "srv.write" /\ Ev.kind = "PUBACK"
       /\ \E p \in Dom(pubs) : /\ pubs[p].c = Ev.c /\ pubs[p].id = Ev.id /\ pubs[p].q = 1 /\ p \notin acked
                               /\ \A d \in pubs[p].dests : p \in logs[d]
                               /\ acked' = acked \cup {p}
       /\ UNCHANGED <<conn, knows, carry, pubs, logs, dl>>
\* each hosting node writes the message only to its own sessions, once per subscription it knows to match
Deliver == /\ Ev.op = "srv.write" /\ Ev.kind = "PUBLISH" /\ Ev.c \in Dom(conn) /\ Ev.p \in Dom(pubs) /\ ~Ev.r
           /\ LET n == conn[Ev.c].n
                  mine == {x \in knows[n] : x.s = conn[Ev.c].s /\ x.peer = n /\ T!Matches(x.f, Full(pubs[Ev.p].t))} IN
              /\ Ev.p \in logs[n] /\ Ev.t = pubs[Ev.p].t
              /\ Get(dl, <<Ev.c, Ev.p>>, 0) < Cardinality(mine)
           /\ dl' = Upd(dl, <<Ev.c, Ev.p>>, Get(dl, <<Ev.c, Ev.p>>, 0) + 1)
           /\ UNCHANGED <<conn, knows, carry, pubs, logs, acked>>
\* at rest: every destination known at publish time was served, and every session that was and still is known to its own node as a
\* matching subscriber got its copy of what is in that node's log
Quiescent == /\ Ev.op = "quiescent"
             /\ \A p \in Dom(pubs) : \A d \in pubs[p].dests : p \in logs[d]
             /\ \A p \in Dom(pubs) : pubs[p].q = 1 => p \in acked
             /\ UNCHANGED <<conn, knows, carry, pubs, logs, dl, acked>>
Other == /\ Ev.op \notin {"new", "conn.open", "gossip.out", "gossip.deliver", "log.append", "quiescent", "stall", "process.died", "delivery.missing"}
         /\ ~(Ev.op = "cli.send" /\ Ev.kind = "PUBLISH")
         /\ ~(Ev.op = "srv.write" /\ Ev.kind \in {"PUBACK", "PUBLISH"})
         /\ UNCHANGED <<conn, knows, carry, pubs, logs, dl, acked>>
Step == /\ l <= Len(Trace) /\ l' = l + 1
        /\ (New \/ Open \/ Out \/ In \/ Publish \/ LogAppend \/ Ack \/ Deliver \/ Quiescent \/ Other)
TSpec == TInit /\ [][Step]_vars
HighWater == TLCSet(1, IF TLCGet(1) > l THEN TLCGet(1) ELSE l)
Accepted == IF TLCGet(1) - 1 = Len(Trace) THEN PrintT("TRACE_ACCEPTED")
            ELSE PrintT(<<"REJECTED_AT_LINE", TLCGet(1), Trace[TLCGet(1)]>>) /\ FALSE
=============================================================================
