"""Scenario construction shared by C11, C12, C13, C17 from SessionGen behaviours."""
import json

import vlib

GEN = ('CONSTANTS Conn = {%s} Nodes = {%s} NodeOf <- %s Depth = %d Idles = {%s} Enders = {%s} MaxIdle = %d AllowPeerFail = %s\n'
       'SPECIFICATION Spec\nCONSTRAINT Dump\nCHECK_DEADLOCK FALSE\n')


def gen(run, name, conns, nodes, nodeof, depth, idles, enders, maxidle=2, peerfail=False, simulate=None):
    return vlib.gen_behaviours(run, "SessionGen", "Gen_Session_%s.cfg" % name,
                               GEN % (", ".join(map(str, conns)), ", ".join(map(str, nodes)), nodeof, depth,
                                      ", ".join('"%s"' % i for i in idles), ", ".join('"%s"' % e for e in enders), maxidle,
                                      "TRUE" if peerfail else "FALSE"),
                               simulate=simulate, depth=depth + 1 if simulate else None)


IDLE = {"short": 0.5, "edge": 0.95, "long": 2.1, "verylong": 10}


def build(h, cast):
    """cast: nodes, ka (seconds), conns{c:{n,client,user,will,filters,auto}}, watchers[{c,n,user,fs}], publishers[{c,n,user,topics,q,r}]"""
    ops = []
    ka = cast.get("ka", 10)
    for w in cast.get("watchers", []):
        ops.append({"op": "connect", "c": w["c"], "n": w["n"], "client": "watch%d" % w["c"], "user": w.get("user", ""), "ka": 60000})
        ops.append({"op": "sub", "c": w["c"], "id": 1, "fs": w["fs"]})
    for p in cast.get("publishers", []):
        ops.append({"op": "connect", "c": p["c"], "n": p["n"], "client": "pub%d" % p["c"], "user": p.get("user", ""), "ka": 60000,
                    "auto": "norel" if p.get("q") == 2 else "all"})
    npub = 0
    nsub = {}
    gone = set()
    for e in h:
        op, c = e["op"], e["c"]
        if op == "connect":
            k = cast["conns"][str(c)] if str(c) in cast["conns"] else cast["conns"][c]
            o = {"op": "connect", "c": c, "n": k["n"], "client": k["client"], "user": k.get("user", ""), "ka": ka, "auto": k.get("auto", "all")}
            if k.get("will"):
                o["will"] = k["will"]
            ops.append(o)
        elif op == "ping":
            ops.append({"op": "send", "c": c, "kind": "PINGREQ"})
        elif op == "sub":
            k = cast["conns"][c]
            i = nsub.get(c, 0)
            nsub[c] = i + 1
            f = k["filters"][i % len(k["filters"])]
            ops.append({"op": "sub", "c": c, "id": 10 + i, "fs": [f]})
        elif op == "idle":
            ops.append({"op": "idle", "ms": int(IDLE[e["x"]] * ka * 1000)})
        elif op == "end":
            gone.add(c)
            if e["x"] == "disconnect":
                ops.append({"op": "send", "c": c, "kind": "DISCONNECT"})
            elif e["x"] == "close":
                ops.append({"op": "close", "c": c})
            elif e["x"] == "malformed":
                ops.append({"op": "raw", "c": c, "hex": "f000", "cls": "reserved-type", "ms": 30})
                ops.append({"op": "settle"})     # the teardown's broadcasts are delivered before the script goes on
            elif e["x"] == "second-connect":
                ops.append({"op": "send", "c": c, "kind": "CONNECT", "client": "again"})
        elif op == "publish":
            rels = []
            # QoS 2 publishers go first and release (PUBREL) only after everybody else has published in between
            for p in sorted(cast.get("publishers", []), key=lambda p: -p.get("q", 1)):
                npub += 1
                t = p["topics"][npub % len(p["topics"])]
                ops.append({"op": "pub", "c": p["c"], "t": t, "p": "p%d" % npub, "q": p.get("q", 1), "r": p.get("r", False), "id": 100 + npub})
                if p.get("q") == 2:
                    rels.append({"op": "send", "c": p["c"], "kind": "PUBREL", "id": 100 + npub})
            ops += rels
        elif op == "peerfail":
            ops.append({"op": "peerfail", "n": c, "ms": 3300})
    # every connection that may still be served says hello once more, so that displaced sessions are told
    failed = {e["c"] for e in h if e["op"] == "peerfail"}
    for c in sorted(cast["conns"]):
        if c not in gone and cast["conns"][c]["n"] not in failed and any(e["op"] == "connect" and e["c"] == c for e in h):
            ops.append({"op": "send", "c": c, "kind": "PINGREQ"})
    ops.append({"op": "quiesce"})
    return {"nodes": cast["nodes"], "ops": ops}
