package stream

import (
	"context"
	"io"

	"go.uber.org/zap"
)

type consumer struct {
	opts ConsumerOpts
}
type consumerOpts func(*ConsumerOpts)
type OffsetIterator interface {
	Next() (uint64, error)
	AdvanceTo(uint64)
}

func FromOffset(o int64) consumerOpts {
	return func(c *ConsumerOpts) { c.FromOffset = o }
}
func WithMaxRecordCount(o int64) consumerOpts {
	return func(c *ConsumerOpts) { c.MaxRecordCount = o }
}
func WithMaxBatchSize(v int) consumerOpts {
	return func(c *ConsumerOpts) { c.MaxBatchSize = v }
}
func WithMinBatchSize(v int) consumerOpts {
	return func(c *ConsumerOpts) { c.MinBatchSize = v }
}
func WithEOFBehaviour(v eofBehaviour) consumerOpts {
	return func(c *ConsumerOpts) { c.EOFBehaviour = v }
}
func WithOffsetIterator(v OffsetIterator) consumerOpts {
	return func(c *ConsumerOpts) { c.OffsetProvider = v }
}
func WithName(v string) consumerOpts {
	return func(c *ConsumerOpts) { c.Name = v }
}
func WithPerformanceLogging(latenessEstimator LatenessEstimator, logger *zap.Logger) consumerOpts {
	return func(c *ConsumerOpts) {
		c.Middleware = append(c.Middleware, func(p Processor, opts ConsumerOpts) Processor {
			if (opts.Name) != "" {
				logger = logger.With(zap.String("consumer_name", opts.Name))
			}
			logger = logger.With(
				zap.Int("consumer_max_batch_size", opts.MaxBatchSize),
			)
			return PerformanceLogger(latenessEstimator, logger, p)
		})
	}
}

// TODO: WithCheckpoint(SnapshotStorage, interval) consumerOpts ?

type Consumer interface {
	Consume(ctx context.Context, r io.ReadSeeker, processor Processor) error
}

func NewConsumer(opts ...consumerOpts) Consumer {
	config := ConsumerOpts{
		MaxBatchSize:              10,
		MinBatchSize:              10,
		MaxBatchMemorySizeInBytes: 20000000,
		EOFBehaviour:              EOFBehaviourPoll,
		FromOffset:                0,
		MaxRecordCount:            -1,
	}
	for _, opt := range opts {
		opt(&config)
	}
	return consumer{opts: config}
}

func (c consumer) Consume(ctx context.Context, r io.ReadSeeker, processor Processor) error {
	return consume(ctx, r, c.opts, processor)
}
