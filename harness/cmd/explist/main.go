// Driver for C04 (bare expiry structure): replays call sequences on the real expiration.List
// (the one ack.Queue uses, expiration.NewList) and records every call with its result.
//
//	explist -scenarios file -out trace   one JSON array per line: [{"op":"ins","v":"a","d":1400}, {"op":"del",...}, {"op":"exp","now":2000}]
//
// Times are milliseconds after a fixed whole-second epoch.
package main

import (
	"bufio"
	"encoding/json"
	"flag"
	"os"
	"time"

	"github.com/vx-labs/wasp/v4/wasp/expiration"
	"verifharness/internal/rec"
)

type call struct {
	Op  string `json:"op"`
	V   string `json:"v"`
	D   int64  `json:"d"`
	Now int64  `json:"now"`
}

var epoch = time.Unix(1700000000, 0)

func at(ms int64) time.Time { return epoch.Add(time.Duration(ms) * time.Millisecond) }

func guarded(f func()) (panicked bool) {
	defer func() {
		if recover() != nil {
			panicked = true
		}
	}()
	f()
	return false
}

func run(r *rec.Recorder, n int, calls []call) {
	l := expiration.NewList()
	r.Emit(rec.Ev{"op": "new", "scn": n, "v": "", "d": 0, "now": 0, "fired": []string{}, "panic": false})
	for _, c := range calls {
		switch c.Op {
		case "ins":
			pn := guarded(func() { l.Insert(c.V, at(c.D)) })
			r.Emit(rec.Ev{"op": "ins", "v": c.V, "d": c.D, "now": 0, "fired": []string{}, "panic": pn})
		case "del":
			pn := guarded(func() { l.Delete(c.V, at(c.D)) })
			r.Emit(rec.Ev{"op": "del", "v": c.V, "d": c.D, "now": 0, "fired": []string{}, "panic": pn})
		case "exp":
			fired := []string{}
			pn := guarded(func() {
				for _, x := range l.Expire(at(c.Now)) {
					fired = append(fired, x.(string))
				}
			})
			r.Emit(rec.Ev{"op": "exp", "v": "", "d": 0, "now": c.Now, "fired": fired, "panic": pn})
		}
	}
}

func main() {
	scn := flag.String("scenarios", "", "scenario file (NDJSON)")
	out := flag.String("out", "trace.ndjson", "trace output")
	flag.Parse()
	f, err := os.Create(*out)
	if err != nil {
		panic(err)
	}
	defer f.Close()
	r := rec.New(f)
	defer r.Flush()
	in, err := os.Open(*scn)
	if err != nil {
		panic(err)
	}
	sc := bufio.NewScanner(in)
	sc.Buffer(make([]byte, 1<<20), 1<<26)
	n := 0
	for sc.Scan() {
		if len(sc.Bytes()) == 0 {
			continue
		}
		var calls []call
		if err := json.Unmarshal(sc.Bytes(), &calls); err != nil {
			panic(err)
		}
		n++
		run(r, n, calls)
	}
}
