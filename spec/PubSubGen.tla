------------------------------ MODULE PubSubGen ------------------------------
(* Scripts for C02 in which every client both publishes and subscribes: PUBLISH at     *)
(* QoS 0/1/2 with small packet identifiers, PUBREL delayed arbitrarily (the inbound     *)
(* handshake stays open while other traffic flows to the same session), sweeps.         *)
(* State kept only to make the scripts well-formed (no repeated PUBLISH on an open      *)
(* handshake: that is C05's subject).                                                   *)
EXTENDS Integers, Sequences, FiniteSets, TLC, Json
CONSTANTS Clients, Ids, Depth
VARIABLES open, lapsed, hist
Init == open = {} /\ lapsed = {} /\ hist = <<>>
Rec(r) == hist' = Append(hist, r)
Next == /\ Len(hist) < Depth
        /\ \/ \E c \in Clients, q \in 0..2, id \in Ids :
                /\ <<c, id>> \notin open
                /\ open' = IF q = 2 THEN open \cup {<<c, id>>} ELSE open
                /\ lapsed' = lapsed \ {<<c, id>>}
                /\ Rec([op |-> "pub", c |-> c, q |-> q, id |-> id])
           \/ \E k \in open : open' = open \ {k} /\ UNCHANGED lapsed /\ Rec([op |-> "rel", c |-> k[1], q |-> 2, id |-> k[2]])
           \* a PUBREL that arrives after its handshake has timed out (the message was dropped: nothing may be acknowledged)
           \/ \E k \in lapsed : lapsed' = lapsed \ {k} /\ UNCHANGED open /\ Rec([op |-> "rel", c |-> k[1], q |-> 2, id |-> k[2]])
           \/ /\ open # {} /\ lapsed' = lapsed \cup open /\ open' = {} /\ Rec([op |-> "sweep", c |-> "", q |-> 0, id |-> 0])
Spec == Init /\ [][Next]_<<open, lapsed, hist>>
Dump == (Len(hist) = Depth) => PrintT(<<"BEHAV", ToJson(hist)>>)
=============================================================================
