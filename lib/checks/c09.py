"""C09  Every local state change is carried completely by the broadcasts it queues.

(M) Crdt.tla: BroadcastComplete (action property), Lww.
(G) CrdtGen: every sequence of 3 (thorough 4) mutators - add, delete, bulk delete by owner
    (DeletePeer), bulk delete by session (DeleteSession) - on one node over three keys, and
    simulated histories in which a second node owns entries that the first one bulk-deletes.
(T) after each mutator the origin is probed and the payload drained from the broadcast queue
    is decoded: CrdtTrace requires the message to carry exactly the entries touched and the
    origin to list exactly what those entries imply; at the end a fresh receiver that merges
    all broadcasts must list the same.  A share of the histories is run a second time with the
    nodes' audit sink unreachable (the real gRPC recorder on a dead connection): auditing is a side
    channel and must not decide whether a change is stored or broadcast.
"""
import vlib
from checks import crdtlib


def nlocal(s):
    return sum(1 for o in s["ops"] if o["op"] in ("add", "del", "delown", "delsess"))


def check(run):
    thorough = run.tier == "thorough"
    run.model_check("MC_Crdt", "MC_Crdt_c09.cfg")
    scns = []
    for mp in ("sess", "subs", "ret"):
        vals = crdtlib.MAPS[mp]["vals"]
        d = 4 if thorough else 3
        a = crdtlib.gen(run, "one", mp, [1, 2], ["k1", "k2", "k3"], vals[:1], d, d, 0, 0, [1], True)
        b = crdtlib.gen(run, "two", mp, [1, 2], ["k1", "k2", "k3"], vals[:1], 5, 7, 2, 0, [1, 2], True,
                        simulate="num=%d" % (800 if thorough else 40))
        for s in a + b:
            n = nlocal(s)
            s["ops"] = s["ops"] + [{"op": "deliver", "to": 9, "ms": list(range(1, n + 1)), "batch": False}]
        # the audit sink is a side channel: the same histories with the sink unreachable (every RecordEvent fails)
        # must store and broadcast exactly the same
        down = [dict(x, auditdown=True) for x in (a[:: 1 if thorough else 3] + b[::4])]
        # the transmit queue as in production: broadcasts wait in it and a later one may invalidate an earlier one; at the end a
        # fresh node receives what the origin's queue still holds, and must list what the origin lists
        keep = [dict(x, keepqueue=True, ops=x["ops"] + [{"op": "held", "from": 1, "to": 8, "ms": list(range(1, nlocal(x) + 1))}])
                for x in a[:: 1 if thorough else 2]]
        scns += a + b + down + keep
        run.log("%s: %d exhaustive single-origin histories, %d simulated two-origin histories" % (mp, len(a), len(b)))
    # round 8: 1100 changes queued on one node before anything is sent (more than any fixed queue length a clean-up might pick)
    scns += crdtlib.burst(1100)
    tpath = crdtlib.execute(run, scns, "c09")
    v = vlib.Verdict(run)
    nev, validated, rejected, tstates = crdtlib.validate(run, "C09", scns, tpath, v)
    rc = v.finish()
    bulk = sum(1 for s in scns if any(o["op"] in ("delown", "delsess") for o in s["ops"]))
    vlib.write_evidence(run, {
        "traces_validated_against_impl": validated,
        "evaluations": nev,
        "distinct_nontrivial": bulk,
        "rule": "scenario = TLC-generated mutator sequence (exhaustive depth %d on one origin over 3 keys incl. bulk deletes touching 0, 1, >=2 "
                "entries; simulated depth 7 with a second origin and up to 2 deliveries), probed after each step, closed by a fresh "
                "receiver merging every broadcast; a share of them repeated with the audit sink unreachable, and with a transmit queue that keeps its broadcasts (a later one may invalidate an earlier one) whose final content is delivered to another fresh receiver; non-trivial = contains a bulk delete; evaluations = recorded events" % d,
        "scenarios": len(scns), "trace_spec_states": tstates, "rejections": len(rejected), "exhaustive": True,
        "samples": [scns[0]["ops"], scns[len(scns) // 2]["ops"], {"trace_excerpt": vlib.head_events(tpath, 5)}],
    }, ["broadcast payloads are drained from memberlist.TransmitLimitedQueue.GetBroadcasts right after each mutator",
        "session identifiers are never re-created after removal"],
        violations=v.n_new)
    run.log("validated %d scenarios (%d events), %d rejected (%d known)" % (validated, nev, len(rejected), v.n_known))
    return rc


def replay(run, path):
    return crdtlib.replay(run, "C09", path)
