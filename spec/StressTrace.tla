----------------------------- MODULE StressTrace -----------------------------
(* Post-stress obligations of C20 on a whole broker (two nodes, sessions connecting,   *)
(* subscribing, publishing, acknowledging and disconnecting concurrently while gossip, *)
(* full-state exchanges and expiry sweeps run): no update was torn or lost -            *)
(*   every acknowledged publish reached every subscriber that was connected with a     *)
(*   matching subscription throughout;                                                  *)
(*   once all short-lived sessions have ended, every node lists exactly the stable      *)
(*   sessions and their subscriptions, the registries hold exactly the stable sessions  *)
(*   of their node, and no packet identifier is still held.                             *)
EXTENDS Integers, FiniteSets, Sequences, TLC, Json
VARIABLES l, stable, recv, acked
Trace == ndJsonDeserialize("trace.ndjson")
Ev == Trace[l]
ToSet(s) == {s[i] : i \in 1..Len(s)}
TInit == TLCSet(1, 0) /\ l = 1 /\ stable = {} /\ recv = <<>> /\ acked = {}
Step == /\ l <= Len(Trace) /\ l' = l + 1
        /\ \/ Ev.op = "new" /\ Ev.gone /\ stable' = {} /\ recv' = <<>> /\ acked' = {}
           \/ Ev.op = "stable" /\ stable' = stable \cup {[c |-> Ev.c, s |-> Ev.s, n |-> Ev.n]} /\ UNCHANGED <<recv, acked>>
           \/ Ev.op = "received" /\ recv' = (Ev.c :> ToSet(Ev.ps)) @@ recv /\ UNCHANGED <<stable, acked>>
           \/ Ev.op = "acked" /\ acked' = ToSet(Ev.ps) /\ UNCHANGED <<stable, recv>>
           \/ /\ Ev.op = "probe"
              /\ ToSet(Ev.sessions) = {x.s : x \in stable} /\ Len(Ev.sessions) = Cardinality(stable)
              /\ ToSet(Ev.local) = {x.s : x \in {y \in stable : y.n = Ev.n}}
              /\ {Ev.subs[i] : i \in 1..Len(Ev.subs)} = {x.s \o "|st/#" : x \in stable} /\ Len(Ev.subs) = Cardinality(stable)
              /\ Ev.held = <<>>
              /\ UNCHANGED <<stable, recv, acked>>
           \/ /\ Ev.op = "end"
              /\ \A x \in stable : acked \subseteq recv[x.c]
              /\ UNCHANGED <<stable, recv, acked>>
TSpec == TInit /\ [][Step]_<<l, stable, recv, acked>>
HighWater == TLCSet(1, IF TLCGet(1) > l THEN TLCGet(1) ELSE l)
Accepted == IF TLCGet(1) - 1 = Len(Trace) THEN PrintT("TRACE_ACCEPTED")
            ELSE PrintT(<<"REJECTED_AT_LINE", TLCGet(1), Trace[TLCGet(1)].op>>) /\ FALSE
=============================================================================
