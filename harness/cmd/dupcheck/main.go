// Appends race with the log consumer (C15, C02): a publisher goroutine appends in bursts while the consumer of
// messages.Log.Consume keeps catching up with the end of the log.  Every stored message must be handed over once, in
// order.  Output: one JSON line {"appended":N,"handed":M,"repeats":[[offset,times]...],"out_of_order":K}.
package main

import (
	"context"
	"encoding/json"
	"flag"
	"fmt"
	"io/ioutil"
	"os"
	"sync"
	"time"

	"github.com/vx-labs/mqtt-protocol/packet"
	"github.com/vx-labs/wasp/v4/wasp/messages"
)

func main() {
	n := flag.Int("n", 400, "messages (one segment holds 500)")
	rounds := flag.Int("rounds", 20, "fresh logs")
	consumers := flag.Int("consumers", 1, "consumers on the same log (each polls the end of the log on its own)")
	flag.Parse()
	type res struct {
		Round        int      `json:"round"`
		Appended     int      `json:"appended"`
		Handed       int      `json:"handed"`
		Repeats      [][2]int `json:"repeats"`
		OutOfOrder   int      `json:"out_of_order"`
		ExtraRepeats int      `json:"extra_repeats"`
	}
	enc := json.NewEncoder(os.Stdout)
	for r := 0; r < *rounds; r++ {
		dir, _ := ioutil.TempDir("", "dupcheck-")
		log, err := messages.New(dir)
		if err != nil {
			panic(err)
		}
		ctx, cancel := context.WithCancel(context.Background())
		var mu sync.Mutex
		seen := map[uint64]int{}
		order := []uint64{}
		done := make(chan struct{})
		var extra sync.WaitGroup
		extraRepeats := 0
		for k := 1; k < *consumers; k++ {
			extra.Add(1)
			go func(k int) {
				defer extra.Done()
				last, started := uint64(0), false
				log.Consume(ctx, fmt.Sprintf("extra%d", k), func(off uint64, p *packet.Publish) error {
					if started && off <= last {
						mu.Lock()
						extraRepeats++
						mu.Unlock()
					}
					last, started = off, true
					return nil
				})
			}(k)
		}
		go func() {
			log.Consume(ctx, "publish_distributor", func(off uint64, p *packet.Publish) error {
				mu.Lock()
				seen[off]++
				order = append(order, off)
				mu.Unlock()
				return nil
			})
			close(done)
		}()
		for i := 0; i < *n; i++ {
			log.Append(&packet.Publish{Header: &packet.Header{}, Topic: []byte("t"), Payload: []byte(fmt.Sprintf("m%d", i))})
			if i%7 == 0 {
				time.Sleep(time.Duration(i%5) * 20 * time.Microsecond) // let the consumer reach the end of the log now and then
			}
		}
		deadline := time.Now().Add(3 * time.Second)
		for time.Now().Before(deadline) {
			mu.Lock()
			k := len(seen)
			mu.Unlock()
			if k >= *n {
				break
			}
			time.Sleep(5 * time.Millisecond)
		}
		time.Sleep(250 * time.Millisecond) // two more polls: anything handed over again shows up
		cancel()
		<-done
		extra.Wait()
		log.Close()
		os.RemoveAll(dir)
		out := res{Round: r, Appended: *n, Handed: len(order), Repeats: [][2]int{}, ExtraRepeats: extraRepeats}
		for off, k := range seen {
			if k > 1 && len(out.Repeats) < 5 {
				out.Repeats = append(out.Repeats, [2]int{int(off), k})
			}
		}
		for i := 1; i < len(order); i++ {
			if order[i] <= order[i-1] {
				out.OutOfOrder++
			}
		}
		enc.Encode(out)
	}
}
