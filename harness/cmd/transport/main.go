// Transport-level driver (C18): one real broker (message log, writer, publish workers, connection manager) behind its real
// listeners - TCP, TLS, WebSocket, WebSocket over TLS - on loopback ports, driven by socket clients.  The other drivers talk
// to the connection manager through in-memory pipes; this one covers wasp/transport: framing of MQTT packets in WebSocket
// messages, concurrent writers on one connection, hostile peers below the MQTT layer.  One scenario per process: a broker
// crash is the exit status.  Output: NDJSON facts for TransportTrace.tla.
package main

import (
	"context"
	"crypto/ecdsa"
	"crypto/elliptic"
	"crypto/rand"
	"crypto/tls"
	"crypto/x509"
	"crypto/x509/pkix"
	"encoding/json"
	"flag"
	"fmt"
	"io"
	"io/ioutil"
	"math/big"
	"net"
	"os"
	"strings"
	"sync"
	"sync/atomic"
	"time"

	"github.com/gorilla/websocket"
	"github.com/hashicorp/memberlist"
	"github.com/vx-labs/wasp/v4/wasp"
	"github.com/vx-labs/wasp/v4/wasp/ack"
	"github.com/vx-labs/wasp/v4/wasp/audit"
	"github.com/vx-labs/wasp/v4/wasp/auth"
	"github.com/vx-labs/wasp/v4/wasp/distributed"
	"github.com/vx-labs/wasp/v4/wasp/messages"
	"github.com/vx-labs/wasp/v4/wasp/taps"
	"github.com/vx-labs/wasp/v4/wasp/transport"
	"go.uber.org/zap"

	"verifharness/internal/mq"
)

type scenario struct {
	Kind string `json:"kind"` // pubsub | slowreader | framing | hostile
	T    string `json:"t"`    // tcp | tls | ws | wss
	What string `json:"what"`
	K    int    `json:"k"`
	// Cert: the TLS / WSS clients of the scenario present a (self-signed) client certificate; the listeners ask for one and do not
	// require it, so a client with one is a client like any other
	Cert bool `json:"cert"`
}

var clientCerts []tls.Certificate

func clientTLS() *tls.Config {
	return &tls.Config{InsecureSkipVerify: true, Certificates: clientCerts}
}

type broker struct {
	addr                     map[string]string
	writerEnq, writerDone    int64
	publishEnq, publishDone  int64
	cancel                   context.CancelFunc
	dir                      string
}

func selfSigned() tls.Certificate {
	key, err := ecdsa.GenerateKey(elliptic.P256(), rand.Reader)
	if err != nil {
		panic(err)
	}
	tpl := &x509.Certificate{SerialNumber: big.NewInt(1), Subject: pkix.Name{CommonName: "localhost"},
		NotBefore: time.Now().Add(-time.Hour), NotAfter: time.Now().Add(24 * time.Hour),
		KeyUsage: x509.KeyUsageDigitalSignature, ExtKeyUsage: []x509.ExtKeyUsage{x509.ExtKeyUsageServerAuth},
		DNSNames: []string{"localhost"}, IPAddresses: []net.IP{net.ParseIP("127.0.0.1")}}
	der, err := x509.CreateCertificate(rand.Reader, tpl, tpl, &key.PublicKey, key)
	if err != nil {
		panic(err)
	}
	return tls.Certificate{Certificate: [][]byte{der}, PrivateKey: key}
}

func freePort() int {
	l, err := net.Listen("tcp", "127.0.0.1:0")
	if err != nil {
		panic(err)
	}
	defer l.Close()
	return l.Addr().(*net.TCPAddr).Port
}

func startBroker() *broker {
	b := &broker{addr: map[string]string{}}
	wasp.VerifHook = func(point string, args ...interface{}) {
		switch point {
		case "writer.enq":
			atomic.AddInt64(&b.writerEnq, 1)
		case "writer.done":
			atomic.AddInt64(&b.writerDone, 1)
		case "publish.enq":
			atomic.AddInt64(&b.publishEnq, 1)
		case "publish.done":
			atomic.AddInt64(&b.publishDone, 1)
		}
	}
	const id uint64 = 1
	ctx, cancel := context.WithCancel(wasp.StoreLogger(context.Background(), zap.NewNop()))
	b.cancel = cancel
	dir, err := ioutil.TempDir("", "wasptransport-")
	if err != nil {
		panic(err)
	}
	b.dir = dir
	log, err := messages.New(dir)
	if err != nil {
		panic(err)
	}
	bcast := &memberlist.TransmitLimitedQueue{RetransmitMult: 1, NumNodes: func() int { return 1 }}
	dstate := distributed.NewState(id, bcast, audit.NoneRecorder())
	state := wasp.NewState(id)
	distributor := &wasp.PublishDistributor{ID: id, State: dstate.Subscriptions(), Storage: log, Logger: zap.NewNop()}
	inflights := ack.NewQueue()
	writer := wasp.NewWriter(id, dstate.Subscriptions(), state, inflights)
	go wasp.SchedulePublishes(id, writer, log)(ctx)
	go writer.Run(ctx, log)
	tapsRunner := taps.NewDispatcher(nil)
	go tapsRunner.Run(ctx)
	processor := wasp.NewPacketProcessor(state, dstate, writer, tapsRunner, distributor, inflights)
	go processor.Run(ctx)
	manager := wasp.NewConnectionManager(auth.NoopHandler(), state, dstate, writer, processor, inflights)
	go manager.Run(ctx)
	go func() { // the gossip queue has no network here: drain it
		for ctx.Err() == nil {
			bcast.GetBroadcasts(0, 1<<20)
			time.Sleep(20 * time.Millisecond)
		}
	}()
	// as cmd/wasp/main.go configures its listeners: a client certificate is asked for, not required
	cfg := &tls.Config{Certificates: []tls.Certificate{selfSigned()}, ClientAuth: tls.RequestClientCert}
	tcp, err := transport.NewTCPTransport(ctx, 0, manager)
	if err != nil {
		panic(err)
	}
	b.addr["tcp"] = fmt.Sprintf("127.0.0.1:%d", tcp.Addr().(*net.TCPAddr).Port)
	ws, err := transport.NewWSTransport(ctx, 0, manager)
	if err != nil {
		panic(err)
	}
	b.addr["ws"] = fmt.Sprintf("127.0.0.1:%d", ws.Addr().(*net.TCPAddr).Port)
	tl, err := transport.NewTLSTransport(ctx, cfg, 0, manager)
	if err != nil {
		panic(err)
	}
	b.addr["tls"] = fmt.Sprintf("127.0.0.1:%d", tl.Addr().(*net.TCPAddr).Port)
	// the WSS listener does not tell its address: pick a free port for it
	wssPort := freePort()
	if _, err := transport.NewWSSTransport(ctx, cfg, wssPort, manager); err != nil {
		panic(err)
	}
	b.addr["wss"] = fmt.Sprintf("127.0.0.1:%d", wssPort)
	return b
}

// ---- clients

type wsStream struct {
	c  *websocket.Conn
	r  io.Reader
	wm sync.Mutex
}

func (s *wsStream) Read(p []byte) (int, error) {
	for {
		if s.r == nil {
			_, r, err := s.c.NextReader()
			if err != nil {
				return 0, err
			}
			s.r = r
		}
		n, err := s.r.Read(p)
		if err == io.EOF {
			s.r = nil
			if n > 0 {
				return n, nil
			}
			continue
		}
		return n, err
	}
}
func (s *wsStream) Write(p []byte) (int, error) {
	s.wm.Lock()
	defer s.wm.Unlock()
	return len(p), s.c.WriteMessage(websocket.BinaryMessage, p)
}
func (s *wsStream) Close() error { return s.c.Close() }

type client struct {
	rw     io.ReadWriteCloser
	ws     *websocket.Conn
	mu     sync.Mutex
	got    []mq.Packet
	err    error
	paused chan struct{} // non-nil: the reader waits on it before every read
}

func dialRaw(b *broker, t string, smallBuf bool) (net.Conn, error) {
	conn, err := net.DialTimeout("tcp", b.addr[t], 3*time.Second)
	if err != nil {
		return nil, err
	}
	if smallBuf {
		conn.(*net.TCPConn).SetReadBuffer(128 * 1024)
	}
	return conn, nil
}

func dial(b *broker, t string, smallBuf bool) (*client, error) {
	cl := &client{}
	switch t {
	case "tcp":
		conn, err := dialRaw(b, t, smallBuf)
		if err != nil {
			return nil, err
		}
		cl.rw = conn
	case "tls":
		conn, err := dialRaw(b, t, smallBuf)
		if err != nil {
			return nil, err
		}
		tc := tls.Client(conn, clientTLS())
		conn.SetDeadline(time.Now().Add(8 * time.Second))
		if err := tc.Handshake(); err != nil {
			conn.Close()
			return nil, fmt.Errorf("TLS handshake: %v", err)
		}
		conn.SetDeadline(time.Time{})
		cl.rw = tc
	case "ws", "wss":
		d := websocket.Dialer{Subprotocols: []string{"mqtt"}, HandshakeTimeout: 8 * time.Second,
			TLSClientConfig: clientTLS(),
			NetDial:         func(network, addr string) (net.Conn, error) { return dialRaw(b, t, smallBuf) }}
		conn, _, err := d.Dial(fmt.Sprintf("%s://%s/mqtt", t, b.addr[t]), nil)
		if err != nil {
			return nil, err
		}
		cl.ws = conn
		cl.rw = &wsStream{c: conn}
	}
	go cl.reader()
	return cl, nil
}

func (cl *client) reader() {
	buf := []byte{}
	tmp := make([]byte, 64*1024)
	for {
		cl.mu.Lock()
		p := cl.paused
		cl.mu.Unlock()
		if p != nil {
			<-p
		}
		n, err := cl.rw.Read(tmp)
		buf = append(buf, tmp[:n]...)
		for {
			k, serr := mq.Split(buf)
			if serr != nil {
				break
			}
			pkt, derr := mq.Decode(append([]byte{}, buf[:k]...))
			buf = buf[k:]
			if derr == nil {
				cl.mu.Lock()
				cl.got = append(cl.got, pkt)
				cl.mu.Unlock()
				if pkt.Type == mq.PUBLISH && pkt.QoS == 1 {
					cl.rw.Write(mq.PubAck(pkt.ID))
				}
			}
		}
		if err != nil {
			cl.mu.Lock()
			cl.err = err
			cl.mu.Unlock()
			return
		}
	}
}
func (cl *client) pause() {
	cl.mu.Lock()
	cl.paused = make(chan struct{})
	cl.mu.Unlock()
}
func (cl *client) resume() {
	cl.mu.Lock()
	p := cl.paused
	cl.paused = nil
	cl.mu.Unlock()
	if p != nil {
		close(p)
	}
}
func (cl *client) send(b []byte) error { _, err := cl.rw.Write(b); return err }
func (cl *client) count(f func(mq.Packet) bool) int {
	cl.mu.Lock()
	defer cl.mu.Unlock()
	n := 0
	for _, p := range cl.got {
		if f(p) {
			n++
		}
	}
	return n
}
func (cl *client) closed() bool { cl.mu.Lock(); defer cl.mu.Unlock(); return cl.err != nil }
func isType(t int) func(mq.Packet) bool { return func(p mq.Packet) bool { return p.Type == t } }
func hasPayload(s string) func(mq.Packet) bool {
	return func(p mq.Packet) bool { return p.Type == mq.PUBLISH && strings.HasPrefix(string(p.Payload), s) }
}

func waitFor(f func() bool, d time.Duration) bool {
	end := time.Now().Add(d)
	for !f() {
		if time.Now().After(end) {
			return false
		}
		time.Sleep(2 * time.Millisecond)
	}
	return true
}

// ---- the run

type runner struct {
	b   *broker
	out *json.Encoder
	n   int
}

func (r *runner) emit(ev map[string]interface{}) { r.out.Encode(ev) }
func (r *runner) step(what string, must bool, ok bool, detail string) {
	r.emit(map[string]interface{}{"op": "step", "what": what, "must": must, "ok": ok, "detail": detail})
}

// connect + subscribe + QoS 1 publish to the own subscription + receive, over transport t
func (r *runner) witness(t string) {
	r.n++
	name := fmt.Sprintf("witness%d", r.n)
	ok, detail := func() (bool, string) {
		cl, err := dial(r.b, t, false)
		if err != nil {
			return false, "dial: " + err.Error()
		}
		defer cl.rw.Close()
		cl.send(mq.Connect(name, "", "", 60, true, nil))
		if !waitFor(func() bool { return cl.count(isType(mq.CONNACK)) == 1 }, 10*time.Second) {
			return false, "no CONNACK"
		}
		cl.send(mq.Subscribe(1, []string{"witness/" + name}, []int{1}))
		if !waitFor(func() bool { return cl.count(isType(mq.SUBACK)) == 1 }, 5*time.Second) {
			return false, "no SUBACK"
		}
		cl.send(mq.Publish("witness/"+name, []byte("trip-"+name), 1, false, false, 7))
		if !waitFor(func() bool { return cl.count(isType(mq.PUBACK)) == 1 && cl.count(hasPayload("trip-"+name)) == 1 }, 8*time.Second) {
			return false, fmt.Sprintf("round trip incomplete: %d PUBACK, %d deliveries", cl.count(isType(mq.PUBACK)), cl.count(hasPayload("trip-"+name)))
		}
		cl.send(mq.Disconnect())
		return true, ""
	}()
	r.emit(map[string]interface{}{"op": "witness", "t": t, "ok": ok, "detail": detail})
}

func (r *runner) session(t, name string, smallBuf bool) *client {
	cl, err := dial(r.b, t, smallBuf)
	if err != nil {
		r.step("dial "+t, true, false, err.Error())
		return nil
	}
	cl.send(mq.Connect(name, "", "", 60, true, nil))
	ok := waitFor(func() bool { return cl.count(func(p mq.Packet) bool { return p.Type == mq.CONNACK && p.Code == 0 }) == 1 }, 5*time.Second)
	r.step("connect "+name+" over "+t, true, ok, "")
	if !ok {
		return nil
	}
	return cl
}

func pad(s string, n int) []byte {
	if len(s) >= n {
		return []byte(s)
	}
	return []byte(s + "|" + strings.Repeat("x", n-len(s)-1))
}

func (r *runner) pubsub(s scenario) {
	sub := r.session(s.T, "sub", false)
	pub := r.session(s.T, "pub", false)
	if sub == nil || pub == nil {
		return
	}
	sub.send(mq.Subscribe(1, []string{"t/#"}, []int{1}))
	r.step("suback", true, waitFor(func() bool { return sub.count(isType(mq.SUBACK)) == 1 }, 5*time.Second), "")
	sizes := []int{4, 120, 1000, 1024, 1030, 5000, 70000}
	for i := 0; i < s.K; i++ {
		pub.send(mq.Publish(fmt.Sprintf("t/%d", i%3), pad(fmt.Sprintf("m%d", i), sizes[i%len(sizes)]), 1, false, false, 1+i))
	}
	ok := waitFor(func() bool { return pub.count(isType(mq.PUBACK)) == s.K }, 20*time.Second)
	r.step("every publish acknowledged", true, ok, fmt.Sprintf("%d of %d", pub.count(isType(mq.PUBACK)), s.K))
	ok = waitFor(func() bool { return sub.count(isType(mq.PUBLISH)) >= s.K }, 20*time.Second)
	time.Sleep(100 * time.Millisecond)
	once := true
	for i := 0; i < s.K; i++ {
		want := string(pad(fmt.Sprintf("m%d", i), sizes[i%len(sizes)]))
		if sub.count(func(p mq.Packet) bool { return p.Type == mq.PUBLISH && string(p.Payload) == want && p.Topic == fmt.Sprintf("t/%d", i%3) }) != 1 {
			once = false
		}
	}
	r.step("every publish delivered once, intact", true, ok && once && sub.count(isType(mq.PUBLISH)) == s.K, fmt.Sprintf("%d deliveries", sub.count(isType(mq.PUBLISH))))
	sub.send(mq.Unsubscribe(2, []string{"t/#"}))
	r.step("unsuback", true, waitFor(func() bool { return sub.count(isType(mq.UNSUBACK)) == 1 }, 5*time.Second), "")
	pub.send(mq.PingReq())
	r.step("pingresp", true, waitFor(func() bool { return pub.count(isType(mq.PINGRESP)) == 1 }, 5*time.Second), "")
	sub.send(mq.Disconnect())
	pub.rw.Close()
	r.witness(s.T)
}

// A subscriber stops reading its socket until the broker's writer is blocked writing to it, then sends packets that need an
// answer (written by its connection goroutine), then reads again.
func (r *runner) slowreader(s scenario) {
	slow := r.session(s.T, "slow", true)
	fast := r.session("tcp", "fast", false)
	pub := r.session("tcp", "flood", false)
	if slow == nil || fast == nil || pub == nil {
		return
	}
	slow.send(mq.Subscribe(1, []string{"flood/#"}, []int{0}))
	fast.send(mq.Subscribe(1, []string{"flood/#"}, []int{0}))
	ok := waitFor(func() bool { return slow.count(isType(mq.SUBACK)) == 1 && fast.count(isType(mq.SUBACK)) == 1 }, 5*time.Second)
	r.step("subacks", true, ok, "")
	slow.pause()
	payload := pad("flood", 16*1024)
	sent := 0
	blocked := false
	for sent < 3000 && !blocked { // up to ~48 MB
		for i := 0; i < 50; i++ {
			pub.send(mq.Publish("flood/x", payload, 0, false, false, 0))
			sent++
		}
		// blocked: the writer holds a job and makes no progress for a while
		d0 := atomic.LoadInt64(&r.b.writerDone)
		waitFor(func() bool {
			return atomic.LoadInt64(&r.b.writerDone) >= atomic.LoadInt64(&r.b.writerEnq) && atomic.LoadInt64(&r.b.publishDone) >= atomic.LoadInt64(&r.b.publishEnq)
		}, 400*time.Millisecond)
		if atomic.LoadInt64(&r.b.writerDone) < atomic.LoadInt64(&r.b.writerEnq) && atomic.LoadInt64(&r.b.writerDone) == d0 {
			time.Sleep(200 * time.Millisecond)
			blocked = atomic.LoadInt64(&r.b.writerDone) == d0
		}
	}
	r.emit(map[string]interface{}{"op": "note", "what": "writer blocked on the slow reader", "blocked": blocked, "sent": sent})
	slow.send(mq.PingReq())
	slow.send(mq.Subscribe(9, []string{"later/#"}, []int{1}))
	slow.send(mq.Publish("later/x", []byte("from-slow"), 1, false, false, 10))
	time.Sleep(300 * time.Millisecond)
	slow.resume()
	ok = waitFor(func() bool {
		return slow.count(isType(mq.PINGRESP)) == 1 && slow.count(isType(mq.SUBACK)) == 2 && slow.count(isType(mq.PUBACK)) == 1
	}, 30*time.Second)
	r.step("the slow reader's requests are answered once it reads again", true, ok,
		fmt.Sprintf("%d PINGRESP %d SUBACK %d PUBACK closed=%v", slow.count(isType(mq.PINGRESP)), slow.count(isType(mq.SUBACK)), slow.count(isType(mq.PUBACK)), slow.closed()))
	ok = waitFor(func() bool { return fast.count(hasPayload("flood")) == sent }, 60*time.Second)
	r.step("the other subscriber got every message", true, ok, fmt.Sprintf("%d of %d", fast.count(hasPayload("flood")), sent))
	ok = waitFor(func() bool { return slow.count(hasPayload("flood")) == sent && slow.count(hasPayload("from-slow")) == 1 }, 60*time.Second)
	r.step("the slow reader got every message once it read again", true, ok, fmt.Sprintf("%d of %d, own %d", slow.count(hasPayload("flood")), sent, slow.count(hasPayload("from-slow"))))
	r.witness(s.T)
	r.witness("tcp")
}

// Legal WebSocket framings of one MQTT byte stream: the packets must be handled as over TCP.
func (r *runner) framing(s scenario) {
	cl, err := dial(r.b, s.T, false)
	if err != nil {
		r.step("dial", true, false, err.Error())
		return
	}
	stream := append([]byte{}, mq.Connect("framed", "", "", 60, true, nil)...)
	stream = append(stream, mq.Subscribe(1, []string{"f/#"}, []int{1})...)
	stream = append(stream, mq.Publish("f/a", pad("framed-1", 3000), 1, false, false, 5)...)
	stream = append(stream, mq.PingReq()...)
	write := func(b []byte) { cl.ws.WriteMessage(websocket.BinaryMessage, b) }
	switch s.What {
	case "one-message":
		write(stream)
	case "byte-per-message":
		for i := range stream[:40] {
			write(stream[i : i+1])
		}
		write(stream[40:])
	case "chunks":
		for i := 0; i < len(stream); i += s.K {
			j := i + s.K
			if j > len(stream) {
				j = len(stream)
			}
			write(stream[i:j])
		}
	case "empty-messages":
		for i := 0; i < len(stream); i += 7 {
			j := i + 7
			if j > len(stream) {
				j = len(stream)
			}
			write([]byte{})
			write(stream[i:j])
		}
	case "control-frames":
		for i := 0; i < len(stream); i += 50 {
			j := i + 50
			if j > len(stream) {
				j = len(stream)
			}
			cl.ws.WriteControl(websocket.PingMessage, []byte("hi"), time.Now().Add(time.Second))
			write(stream[i:j])
			cl.ws.WriteControl(websocket.PongMessage, []byte("yo"), time.Now().Add(time.Second))
		}
	case "fragmented-message": // one WebSocket message sent as several continuation frames
		w, err := cl.ws.NextWriter(websocket.BinaryMessage)
		if err == nil {
			for i := 0; i < len(stream); i += 1500 {
				j := i + 1500
				if j > len(stream) {
					j = len(stream)
				}
				w.Write(stream[i:j])
			}
			w.Close()
		}
	}
	ok := waitFor(func() bool {
		return cl.count(func(p mq.Packet) bool { return p.Type == mq.CONNACK && p.Code == 0 }) == 1 && cl.count(isType(mq.SUBACK)) == 1 &&
			cl.count(isType(mq.PUBACK)) == 1 && cl.count(hasPayload("framed-1")) == 1 && cl.count(isType(mq.PINGRESP)) == 1
	}, 10*time.Second)
	r.step("framing "+s.What+": CONNACK, SUBACK, PUBACK, delivery, PINGRESP", true, ok,
		fmt.Sprintf("CONNACK %d SUBACK %d PUBACK %d delivered %d PINGRESP %d closed=%v", cl.count(isType(mq.CONNACK)), cl.count(isType(mq.SUBACK)),
			cl.count(isType(mq.PUBACK)), cl.count(hasPayload("framed-1")), cl.count(isType(mq.PINGRESP)), cl.closed()))
	cl.rw.Close()
	r.witness(s.T)
}

// Peers that misbehave below the MQTT layer: nothing is expected of their own connection; the broker must go on.
func (r *runner) hostile(s scenario) {
	established := func() *client { return r.session(s.T, "victim", false) }
	switch s.What {
	case "text-message":
		if cl, err := dial(r.b, s.T, false); err == nil {
			cl.ws.WriteMessage(websocket.TextMessage, mq.Connect("texty", "", "", 60, true, nil))
			cl.ws.WriteMessage(websocket.TextMessage, []byte("hello"))
			time.Sleep(100 * time.Millisecond)
			cl.rw.Close()
		}
	case "close-frame-mid-session":
		if cl := established(); cl != nil {
			cl.send(mq.Subscribe(1, []string{"h/#"}, []int{1}))
			cl.ws.WriteControl(websocket.CloseMessage, websocket.FormatCloseMessage(1000, "bye"), time.Now().Add(time.Second))
			time.Sleep(100 * time.Millisecond)
			cl.send(mq.PingReq())
			cl.rw.Close()
		}
	case "close-frame-mid-packet":
		if cl := established(); cl != nil {
			p := mq.Publish("h/x", pad("half", 500), 1, false, false, 3)
			cl.ws.WriteMessage(websocket.BinaryMessage, p[:100])
			cl.ws.WriteControl(websocket.CloseMessage, websocket.FormatCloseMessage(1001, ""), time.Now().Add(time.Second))
			time.Sleep(100 * time.Millisecond)
			cl.rw.Close()
		}
	case "tcp-reset-mid-message", "tcp-reset-mid-packet":
		conn, err := dialRaw(r.b, s.T, false)
		if err == nil {
			var c net.Conn = conn
			if s.T == "tls" || s.T == "wss" {
				tc := tls.Client(conn, &tls.Config{InsecureSkipVerify: true})
				conn.SetDeadline(time.Now().Add(8 * time.Second))
				tc.Handshake()
				conn.SetDeadline(time.Time{})
				c = tc
			}
			if s.T == "ws" || s.T == "wss" {
				fmt.Fprintf(c, "GET /mqtt HTTP/1.1\r\nHost: x\r\nUpgrade: websocket\r\nConnection: Upgrade\r\nSec-WebSocket-Key: dGhlIHNhbXBsZSBub25jZQ==\r\nSec-WebSocket-Version: 13\r\nSec-WebSocket-Protocol: mqtt\r\n\r\n")
				time.Sleep(100 * time.Millisecond)
				c.Write([]byte{0x82, 0xfe, 0x10, 0x00, 1, 2, 3, 4, 0x10}) // a masked binary frame announcing 4096 bytes, one sent
			} else {
				pk := mq.Connect("resetter", "", "", 60, true, nil)
				c.Write(pk[:len(pk)/2])
			}
			time.Sleep(50 * time.Millisecond)
			conn.(*net.TCPConn).SetLinger(0)
			conn.Close()
		}
	case "huge-message":
		if cl, err := dial(r.b, s.T, false); err == nil {
			junk := make([]byte, 4<<20)
			for i := range junk {
				junk[i] = byte(i * 7)
			}
			cl.ws.WriteMessage(websocket.BinaryMessage, junk)
			time.Sleep(200 * time.Millisecond)
			cl.rw.Close()
		}
	case "no-upgrade", "wrong-path", "not-http", "bad-handshake":
		conn, err := dialRaw(r.b, s.T, false)
		if err == nil {
			var c net.Conn = conn
			if s.What != "bad-handshake" && (s.T == "tls" || s.T == "wss") {
				tc := tls.Client(conn, &tls.Config{InsecureSkipVerify: true})
				conn.SetDeadline(time.Now().Add(8 * time.Second))
				tc.Handshake()
				conn.SetDeadline(time.Time{})
				c = tc
			}
			switch s.What {
			case "no-upgrade":
				fmt.Fprintf(c, "GET /mqtt HTTP/1.1\r\nHost: x\r\n\r\n")
			case "wrong-path":
				fmt.Fprintf(c, "GET /elsewhere HTTP/1.1\r\nHost: x\r\nUpgrade: websocket\r\nConnection: Upgrade\r\nSec-WebSocket-Key: dGhlIHNhbXBsZSBub25jZQ==\r\nSec-WebSocket-Version: 13\r\n\r\n")
			case "not-http":
				c.Write(mq.Connect("lost", "", "", 60, true, nil))
			case "bad-handshake":
				c.Write([]byte("\x16\x03\x01\xff\xff garbage that is no TLS handshake at all"))
			}
			c.SetReadDeadline(time.Now().Add(300 * time.Millisecond))
			io.Copy(ioutil.Discard, c)
			c.Close()
		}
	case "many-idle-connections": // sockets that connect and say nothing: later clients are still admitted
		conns := []net.Conn{}
		for i := 0; i < s.K; i++ {
			if c, err := dialRaw(r.b, s.T, false); err == nil {
				conns = append(conns, c)
			}
		}
		defer func() {
			for _, c := range conns {
				c.Close()
			}
		}()
	}
	r.emit(map[string]interface{}{"op": "hostile", "what": s.What, "t": s.T})
	r.witness(s.T)
	r.witness("tcp")
}

func main() {
	scn := flag.String("scenario", "", "scenario as JSON")
	out := flag.String("out", "transport.ndjson", "")
	idx := flag.Int("scn", 1, "")
	flag.Parse()
	var s scenario
	if err := json.Unmarshal([]byte(*scn), &s); err != nil {
		panic(err)
	}
	f, err := os.Create(*out)
	if err != nil {
		panic(err)
	}
	defer f.Close()
	if s.Cert {
		clientCerts = []tls.Certificate{selfSigned()}
	}
	r := &runner{out: json.NewEncoder(f)}
	r.emit(map[string]interface{}{"op": "new", "scn": *idx, "kind": s.Kind, "t": s.T, "what": s.What})
	r.b = startBroker()
	defer os.RemoveAll(r.b.dir)
	time.Sleep(50 * time.Millisecond)
	switch s.Kind {
	case "pubsub":
		r.pubsub(s)
	case "slowreader":
		r.slowreader(s)
	case "framing":
		r.framing(s)
	case "hostile":
		r.hostile(s)
	}
	r.emit(map[string]interface{}{"op": "end"})
	f.Sync()
	os.RemoveAll(r.b.dir)
	os.Exit(0)
}
