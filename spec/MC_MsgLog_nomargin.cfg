CONSTANTS Seg = 4 Margin = 0 Thresh = 6 Period = 4 Batch = 2 QCap = 2 MaxLen = 13 MaxRuns = 2
SPECIFICATION Spec
INVARIANTS TruncSafe
CHECK_DEADLOCK FALSE
