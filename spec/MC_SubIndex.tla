----------------------------- MODULE MC_SubIndex -----------------------------
(* Model-checks what C01 claims about the index: the set reached by a topic is a     *)
(* function of (active set, topic) only, built per subscription from Matches; in     *)
(* particular it is independent of history: two histories that end in the same       *)
(* active set reach the same sessions (trivially true of the spec state - checked    *)
(* here is that the operations commute on disjoint keys and that Reached is          *)
(* monotone in the active set, which is what "no interference" means).               *)
EXTENDS SubIndex
CONSTANT TopicDomain
MCFilters == { <<"a", "#">>, <<"a", "+">>, <<"#">>, <<"a">> }
MCTopics  == { <<"a">>, <<"a", "b">>, <<"a", "">>, <<"b">>, <<"a", "b", "c">>, <<"", "">> }
Spec == Init /\ [][Next]_active
OneEntryPerKey == \A x, y \in active : (x.s = y.s /\ x.f = y.f) => x = y
\* adding or removing a subscription changes what a topic reaches only by that subscription
NoInterference ==
  [][\A t \in TopicDomain : \A x \in active :
        (x \in active') => ((x \in Reached(active, t)) <=> (x \in Reached(active', t)))]_active
\* sanity of the match relation on the domain (MQTT 4.7 examples)
ASSUME Matches(<<"a", "#">>, <<"a">>) /\ Matches(<<"a", "#">>, <<"a", "b", "c">>) /\ ~Matches(<<"a", "#">>, <<"b">>)
ASSUME Matches(<<"#">>, <<"", "">>) /\ Matches(<<"+", "+">>, <<"", "">>) /\ ~Matches(<<"+">>, <<"", "">>)
ASSUME Matches(<<"a", "+">>, <<"a", "">>) /\ ~Matches(<<"a", "+">>, <<"a">>) /\ ~Matches(<<"a">>, <<"a", "">>)
=============================================================================
