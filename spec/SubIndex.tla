------------------------------ MODULE SubIndex ------------------------------
(* The subscription index (subscriptions/node.go trie + the per-filter LWW lists of  *)
(* wasp/distributed/subscriptions.go) as C01 sees it: a set of active                *)
(* subscriptions; which of them a topic reaches is decided by Matches alone - never  *)
(* by the other subscriptions or by the order in which they were made or removed.    *)
EXTENDS Topics
CONSTANTS Sessions, Filters, QoSes
VARIABLES active      \* set of [s, f, q] : session s subscribed to filter f at QoS q
\* ---- transition relation on an explicit set
SubNew(a, s, f, q) == {x \in a : ~(x.s = s /\ x.f = f)} \cup {[s |-> s, f |-> f, q |-> q]}  \* re-subscribe replaces
UnsubNew(a, s, f)  == {x \in a : ~(x.s = s /\ x.f = f)}
EndNew(a, s)       == {x \in a : x.s # s}                                                 \* session teardown
Reached(a, t)      == {x \in a : Matches(x.f, t)}           \* one delivery per matching active subscription
Init == active = {}
Subscribe(s, f, q) == active' = SubNew(active, s, f, q)
Unsubscribe(s, f)  == active' = UnsubNew(active, s, f)
Next == \E s \in Sessions, f \in Filters : (\E q \in QoSes : Subscribe(s, f, q)) \/ Unsubscribe(s, f)
=============================================================================
