------------------------------- MODULE CrdtGen -------------------------------
(* Scenario generator for C08/C09/C10: behaviours of Crdt (local mutators on nodes   *)
(* with skewed clocks, deliveries of 1- or 2-message batches in any order and any    *)
(* number of times, losses by omission, full-state pushes), recorded as the sequence *)
(* of environment actions.  Timestamps are the model's stamps times 10 (room for     *)
(* the several clock readings of one bulk mutator).                                   *)
EXTENDS Crdt, Json
CONSTANTS Depth, MaxDeliver, MaxPush, Adders, Bulk, ReAdd   \* Bulk: bulk deletes allowed; ReAdd: a key may be added more than once    \* Adders: nodes allowed to issue local mutators
VARIABLES hist, ndel, npush
gvars == <<vars, hist, ndel, npush>>
GSkew == [n \in Node |-> CASE n = 1 -> 0 [] n = 2 -> 2 [] OTHER -> -2]
GSessOf == [k \in Key |-> IF k = "k1" THEN "sA" ELSE IF k = "k2" THEN "sA" ELSE "sB"]
Rec(r) == hist' = Append(hist, r)
SetToSeq(S) == CHOOSE s \in [1..Cardinality(S) -> S] : \A i, j \in 1..Cardinality(S) : i < j => s[i] < s[j]
GInit == Init /\ hist = <<>> /\ ndel = 0 /\ npush = 0
GNext ==
  /\ Len(hist) < Depth
  /\ \/ /\ \E n \in Adders, k \in Key, v \in Vals :
             /\ (ReAdd \/ \A i \in 1..Len(hist) : ~(hist[i].op = "add" /\ hist[i].k = k))
             /\ Add(n, k, v) /\ Rec([op |-> "add", n |-> n, k |-> k, v |-> v, ts |-> Stamp(n) * 10])
        /\ UNCHANGED <<ndel, npush>>
     \/ /\ \E n \in Adders, k \in Key :
             Del(n, k) /\ Rec([op |-> "del", n |-> n, k |-> k, ts |-> Stamp(n) * 10])
        /\ UNCHANGED <<ndel, npush>>
     \/ /\ Bulk /\ \E n \in Adders, o \in Node :
             DelOwner(n, o) /\ Rec([op |-> "delown", n |-> n, o |-> o, ts |-> Stamp(n) * 10])
        /\ UNCHANGED <<ndel, npush>>
     \/ /\ Bulk /\ \E n \in Adders, s \in {SessOf[k] : k \in Key} :
             DelSess(n, s) /\ Rec([op |-> "delsess", n |-> n, s |-> s, ts |-> Stamp(n) * 10])
        /\ UNCHANGED <<ndel, npush>>
     \/ /\ ndel < MaxDeliver /\ ndel' = ndel + 1 /\ UNCHANGED npush
        /\ \E n \in Node, ms \in SUBSET net :
             /\ Cardinality(ms) \in 1..2 /\ Deliver(n, ms)
             /\ Rec([op |-> "deliver", to |-> n, ms |-> SetToSeq({m.id : m \in ms}), batch |-> Cardinality(ms) > 1])
     \/ /\ npush < MaxPush /\ npush' = npush + 1 /\ UNCHANGED ndel
        /\ \E a, b \in Node : Push(a, b) /\ Rec([op |-> "push", from |-> a, to |-> b])
GSpec == GInit /\ [][GNext]_gvars
Dump == (Len(hist) = Depth) => PrintT(<<"BEHAV", ToJson(hist)>>)
=============================================================================
