"""C01  A publish reaches exactly the sessions whose filters match its topic.

(M) SubIndex.tla / Topics.tla model-checked (NoInterference, OneEntryPerKey, MQTT 4.7 ASSUMEs).
(G) TLC prints the exhaustive domain (every valid topic / filter of <= N levels over {a,b,""}
    plus wildcards) and every subscribe/unsubscribe/re-subscribe history of a given depth
    over prefix-related filters.
(T) the Go driver executes them on the real subscriptions.Tree (Walk) and on the real
    SubscriptionsState (Create/Delete/ByPattern); SubIndexTrace compares every answer with
    {active subscriptions whose filter Matches the topic}.
The broker level (PUBLISH packets at client ends, quiescent) is added by the node harness.
"""
import json
import os
import random

import vlib
from checks import brokerlib, racelib

GEN_DOMAIN = 'CONSTANTS L = {%s} N = %d\nSPECIFICATION Spec\nCHECK_DEADLOCK FALSE\n'
GEN_HIST = ('CONSTANTS Sessions = {%s} Filters <- %s QoSes = {%s} Depth = %d\n'
            'SPECIFICATION GSpec\nCONSTRAINT Dump\nCHECK_DEADLOCK FALSE\n')


def domain(run, levels, n):
    cfg = "Gen_Domain_%d_%d.cfg" % (len(levels), n)
    d = vlib.gen_behaviours(run, "TopicsGen", cfg, GEN_DOMAIN % (", ".join('"%s"' % x for x in levels), n), tag="DOMAIN")
    return d[0]["topics"], d[0]["filters"]


def histories(run, name, sessions, fset, qoses, depth):
    return vlib.gen_behaviours(run, "SubIndexGen", "Gen_SubIndex_%s.cfg" % name,
                               GEN_HIST % (", ".join('"%s"' % s for s in sessions), fset,
                                           ", ".join(map(str, qoses)), depth))


def classify(scn, line):
    e = scn[line - 1]
    if e.get("panic"):
        return "panic"
    active = {}
    for x in scn[:line - 1]:
        if x["op"] == "sub":
            active[(x["s"], tuple(x["f"]))] = x["q"]
        elif x["op"] == "unsub":
            active.pop((x["s"], tuple(x["f"])), None)
        elif x["op"] == "end":
            for k in [k for k in active if k[0] == x["s"]]:
                del active[k]
    t = tuple(e["t"])
    got = {(g["s"], tuple(g["f"])) for g in e["got"]}

    def m(f, t):
        if not f:
            return not t
        if f[0] == "#":
            return len(f) == 1
        if not t:
            return False
        return (f[0] == "+" or f[0] == t[0]) and m(f[1:], t[1:])
    exp = {k for k in active if m(k[1], t)}
    missing, extra = exp - got, got - exp
    tags = []
    if any(k[1][-1] == "#" and tuple(k[1][:-1]) == t for k in missing):
        tags.append("hash-parent-level-missed")
    if "" in t or any("" in k[1] for k in (missing | extra)):
        tags.append("empty-level")
    if len(e["got"]) != len(got):
        tags.append("duplicate-delivery")
    if missing and not tags:
        tags.append("missed")
    if extra and "empty-level" not in tags:
        tags.append("extra")
    mode = scn[0].get("mode", "?")
    return mode + ":" + "+".join(sorted(set(tags)))


def _pubs(scn):
    out = []
    for o in scn["ops"]:
        if o["op"] == "pub":
            out.append(o)
        elif o["op"] == "race":
            out += [x for x in [o["a"]] + o["b"] if x["op"] == "pub"]
    return [o for o in out if o.get("p") in ("new", "newer")]


def check(run):
    thorough = run.tier == "thorough"
    rng = random.Random(run.seed)
    run.model_check("MC_SubIndex", "MC_SubIndex.cfg")
    run.model_check("MC_Trie", "MC_Trie_subs.cfg")
    run.negative_control("MC_Trie", "MC_Trie_subs_neg.cfg", "WalkIsMatches")
    topics, filters = domain(run, ["a", "b", ""], 4 if thorough else 3)
    topics2, filters2 = domain(run, ["a", ""], 2)
    run.log("domain: %d topics x %d filters" % (len(topics), len(filters)))
    scns = []
    for mode in ("tree", "state"):
        for f in filters:
            scns.append({"mode": mode, "ops": [{"op": "sub", "s": "s1", "f": f, "q": 0}], "topics": topics, "probe": "end"})
    # set interference: every ordered pair of small filters, probed after each step
    pair_modes = ("tree", "state") if thorough else ("tree",)
    for mode in pair_modes:
        for f1 in filters2:
            for f2 in filters2:
                if f1 != f2:
                    scns.append({"mode": mode, "probe": "each", "topics": topics2,
                                 "ops": [{"op": "sub", "s": "s1", "f": f1, "q": 0}, {"op": "sub", "s": "s2", "f": f2, "q": 1},
                                         {"op": "unsub", "s": "s1", "f": f1, "q": 0}]})
    # histories
    htopics = [t for t in topics if len(t) <= 2] + [["a", "b", "a"], ["a", "", "b"], ["", "", ""], ["a", "b", ""]]
    hs = histories(run, "F1", ["s1", "s2"], "F1", [1] if not thorough else [0, 1], 3)
    hs += histories(run, "F2", ["s1"], "F2", [1], 3 if not thorough else 4)
    for h in hs:
        scns.append({"mode": "state", "ops": h, "topics": htopics, "probe": "each"})
    nhist = len(hs)
    # session teardown (DeleteSession) inside histories
    for h in hs[:: (7 if not thorough else 2)]:
        scns.append({"mode": "state", "ops": h + [{"op": "end", "s": "s1", "f": [], "q": 0}], "topics": htopics, "probe": "end"})
    # seeded random beyond the exhaustive domain
    alpha = ["a", "b", "c", "d", "e"]
    nrand = 150 if not thorough else 2500
    for _ in range(nrand):
        def rf():
            n = rng.randint(1, 6)
            f = [rng.choice(alpha + ["+", "+", ""]) for _ in range(n)]
            if rng.random() < 0.35:
                f[-1] = "#"
            return f if f != [""] else ["a"]
        fs = [rf() for _ in range(rng.randint(2, 12))]
        ts = []
        for _ in range(12):
            base = rng.choice(fs)
            t = [rng.choice(alpha) if x in ("+", "#") else x for x in base]
            if base[-1] == "#":
                t = t[:-1] + [rng.choice(alpha) for _ in range(rng.randint(0, 2))]
            if rng.random() < 0.3:
                t = t + [rng.choice(alpha + [""])]
            if t and t != [""]:
                ts.append(t)
        ops = [{"op": "sub", "s": "s%d" % rng.randint(1, 3), "f": f, "q": rng.randint(0, 2)} for f in fs]
        for f in rng.sample(fs, len(fs) // 3):
            ops.append({"op": "unsub", "s": "s%d" % rng.randint(1, 3), "f": f, "q": 0})
        scns.append({"mode": rng.choice(["tree", "state"]), "ops": ops, "topics": ts, "probe": "end"})
    run.log("%d scenarios (%d TLC-generated histories, %d table rows, %d random)" % (len(scns), nhist, 2 * len(filters), nrand))
    spath = os.path.join(run.scratch, "scenarios.ndjson")
    with open(spath, "w") as f:
        for s in scns:
            f.write(json.dumps(s) + "\n")
    drv = run.gobuild("trie")
    tpath = os.path.join(run.scratch, "trie.ndjson")
    run.drive(drv, ["-scenarios", spath, "-out", tpath], timeout=1800)
    nev, nscn = vlib.count_lines(tpath, '"op":"new"')
    run.log("recorded %d events" % nev)
    validated, rejected, tstates = vlib.validate_scenarios(run, "SubIndexTrace", "SubIndexTrace.cfg", tpath,
                                                           timeout=3000, max_rejections=6)
    v = vlib.Verdict(run)
    for rj in rejected:
        scn, line = rj["scenario"], rj["line"]
        sig = classify(scn, line)
        ops = [x for x in scn[1:line] if x["op"] in ("sub", "unsub", "end")]
        v.add(sig, "index (%s): answer for topic %s is not {active subscriptions whose filter matches}: got %s after %s"
              % (scn[0].get("mode"), json.dumps(scn[line - 1].get("t")), json.dumps(scn[line - 1].get("got")), json.dumps(ops)),
              {"kind": "trie", "scenario": {"mode": scn[0].get("mode"), "ops": ops, "topics": [scn[line - 1].get("t")], "probe": "end"},
               "trace": scn[:1] + ops + [scn[line - 1]]})
    # ---- broker level: the same TLC-generated histories through real sessions, publishes read at the client ends
    bh = hs[:: max(1, len(hs) // (900 if thorough else 70))]
    bscns = []
    ptopics = [["a"], ["a", "b"], ["a", "b", "c"], ["b"], ["a", ""], ["", "b"]]
    for k, h in enumerate(bh):
        # every other history runs on two nodes (s2 on the second one) with at-least-once gossip: every broadcast is delivered
        # again after newer ones, as memberlist's retransmissions are
        two = k % 2 == 1
        ops = ([{"op": "gossip", "mode": "dup"}] if two else []) + \
              [{"op": "connect", "c": 1, "n": 1, "client": "s1", "ka": 600}, {"op": "connect", "c": 2, "n": 2 if two else 1, "client": "s2", "ka": 600},
               {"op": "connect", "c": 9, "n": 1, "client": "pub", "ka": 600}, {"op": "pub", "c": 9, "t": ["zz"], "p": "warm", "q": 0, "id": 0}]
        pid = 0
        for i, o in enumerate(h):
            c = 1 if o["s"] == "s1" else 2
            if o["op"] == "sub":
                ops.append({"op": "sub", "c": c, "id": 10 + i, "fs": [{"f": o["f"], "q": o["q"]}]})
            else:
                ops.append({"op": "unsub", "c": c, "id": 10 + i, "fs": [{"f": o["f"], "q": 0}]})
            for t in (ptopics[(k + i) % len(ptopics)], ptopics[(k + 2 * i + 3) % len(ptopics)]):
                pid += 1
                ops.append({"op": "pub", "c": 9, "t": t, "p": "m%d" % pid, "q": pid % 2, "id": pid})
        ops.append({"op": "quiesce"})
        bscns.append({"nodes": [1, 2] if two else [1], "ops": ops})
    # several filters in one SUBSCRIBE / UNSUBSCRIBE packet: every ordered pair (and some triples) of short filters
    mf = [["a"], ["a", "b"], ["a", "#"], ["+", "b"], ["b"], ["#"], ["a", "+"]]
    pairs = [(f1, f2) for f1 in mf for f2 in mf if f1 != f2]
    if not thorough:
        pairs = pairs[:: 2]
    for k, (f1, f2) in enumerate(pairs):
        f3 = mf[(k * 3 + 1) % len(mf)]
        fs = [f1, f2] + ([f3] if k % 4 == 0 and f3 not in (f1, f2) else [])
        ops = [{"op": "connect", "c": 1, "n": 1, "client": "s1", "ka": 600}, {"op": "connect", "c": 9, "n": 1, "client": "pub", "ka": 600},
               {"op": "sub", "c": 1, "id": 10, "fs": [{"f": f, "q": i % 2} for i, f in enumerate(fs)]}]
        pid = 0
        for t in ptopics:
            pid += 1
            ops.append({"op": "pub", "c": 9, "t": t, "p": "x%d" % pid, "q": pid % 2, "id": pid})
        ops.append({"op": "unsub", "c": 1, "id": 11, "fs": [{"f": f, "q": 0} for f in fs[:2]]})
        for t in ptopics:
            pid += 1
            ops.append({"op": "pub", "c": 9, "t": t, "p": "x%d" % pid, "q": pid % 2, "id": pid})
        ops.append({"op": "quiesce"})
        bscns.append({"nodes": [1], "ops": ops})
    # three sessions on two nodes subscribe in every order (the matching subscriptions of the two nodes interleave in every way): each
    # node stores the publish once, each session gets one copy per matching subscription
    import itertools
    for order in itertools.permutations((1, 2, 3)):
        for same in (True, False):
            ops = [{"op": "connect", "c": 1, "n": 1, "client": "a", "ka": 600}, {"op": "connect", "c": 2, "n": 2, "client": "b", "ka": 600},
                   {"op": "connect", "c": 3, "n": 1, "client": "c", "ka": 600}, {"op": "connect", "c": 8, "n": 1, "client": "p1", "ka": 600},
                   {"op": "connect", "c": 9, "n": 2, "client": "p2", "ka": 600}]
            fl = {1: ["k", "x"], 2: ["k", "x"], 3: ["k", "x"]} if same else {1: ["k", "x"], 2: ["k", "+"], 3: ["#"]}
            for c in order:
                ops.append({"op": "sub", "c": c, "id": 10 + c, "fs": [{"f": fl[c], "q": c % 2}]})
            tag = "".join(map(str, order)) + ("s" if same else "d")
            ops.append({"op": "pub", "c": 8, "t": ["k", "x"], "p": "i1-" + tag, "q": 1, "r": False, "id": 1})
            ops.append({"op": "pub", "c": 9, "t": ["k", "x"], "p": "i2-" + tag, "q": 0, "r": False, "id": 0})
            ops.append({"op": "unsub", "c": order[0], "id": 20, "fs": [{"f": fl[order[0]], "q": 0}]})
            ops.append({"op": "pub", "c": 9, "t": ["k", "x"], "p": "i3-" + tag, "q": 1, "r": False, "id": 2})
            ops.append({"op": "quiesce"})
            bscns.append({"nodes": [1, 2], "ops": ops})
    # a matching session must get every publish once, whatever the other sessions do: one subscriber stops reading for a whole burst
    # that carries the log consumer over a truncation point
    from checks import c02
    bscns.append(c02.stalled_run(1650, prefill={"count": 2450, "consumed": 2445}))
    # round 8: a recipient whose connection cannot be written to (it stopped reading; the write fails when its write deadline passes)
    # must not cost the other matching sessions their copy - whether it subscribed before them, between them or after them
    for pos in (0, 1, 2):
        for sq in (0, 1):
            ops = [{"op": "connect", "c": 8, "n": 1, "client": "p1", "ka": 60000}]
            order = [2, 3]
            order.insert(pos, 1)
            for c in order:
                ops.append({"op": "connect", "c": c, "n": 1, "client": "s%d" % c, "ka": 4 if c == 1 else 60000})
                ops.append({"op": "sub", "c": c, "id": 10 + c, "fs": [{"f": ["k", "x"] if c != 3 else ["k", "+"], "q": sq if c == 1 else c % 2}]})
            tag = "w%d%d" % (pos, sq)
            ops += [{"op": "pub", "c": 8, "t": ["k", "x"], "p": "a-" + tag, "q": 1, "r": False, "id": 1},
                    {"op": "stall", "c": 1, "on": True},
                    {"op": "pub", "c": 8, "t": ["k", "x"], "p": "b-" + tag, "q": 1, "r": False, "id": 2, "nowait": True},
                    {"op": "wait", "ms": 400}, {"op": "idle", "ms": 9000, "nowait": True}, {"op": "wait", "ms": 600},
                    {"op": "pub", "c": 8, "t": ["k", "x"], "p": "c-" + tag, "q": 1, "r": False, "id": 3},
                    {"op": "quiesce"}]
            bscns.append({"nodes": [1], "lenient": True, "ops": ops})
    btpath, crashes = brokerlib.execute(run, bscns, "c01b", shards=12)
    if crashes:
        raise vlib.Inconclusive("broker driver died: %s" % crashes[0][2][-2000:])
    bnev, bnscn, bvalidated, brejected, btstates = brokerlib.validate(run, "C01", bscns, btpath, v)
    run.log("broker level: validated %d of %d history scenarios (%d events)" % (bvalidated, len(bscns), bnev))
    validated += bvalidated
    tstates += btstates
    rejected = rejected + brejected
    # ---- overlapping operations (publishes overlapping subscribe / unsubscribe): one operation parked at a gate inside its handler, others completed meanwhile
    rn, rparked, rnev, rval, rrej, rts = racelib.check_family(run, "C01", v, keep=lambda s: not any(o.get('r') for o in _pubs(s)))
    validated += rval
    tstates += rts
    rc = v.finish()
    vlib.write_evidence(run, {
        "broker_level_scenarios": len(bscns), "broker_level_events": bnev,
        "overlapping_operations": {"interleavings": rn, "parked_at_their_gate": rparked, "events": rnev, "rejections": rrej,
                                   "rule": "one client operation (SUBSCRIBE / UNSUBSCRIBE / PUBLISH) is parked at a scheduler gate at a replicated-state call "
                                           "inside its handler while others run to completion; RaceTrace.tla requires what holds under every interleaving"},
        "traces_validated_against_impl": validated,
        "evaluations": nev,
        "distinct_nontrivial": len(scns),
        "rule": "evaluations = recorded index queries + updates; scenarios = (a) one per valid filter of the exhaustive domain "
                "(<=%d levels over {a,b,''} + wildcards) queried with every topic of the domain, on the raw trie and on the replicated "
                "subscription state; (b) every ordered pair of 2-level filters with subscribe/subscribe/unsubscribe, probed after each step; "
                "(c) every TLC-generated subscribe/unsubscribe history of depth 3-4 over prefix-related filter sets F1, F2; "
                "(d) %d seeded random filter sets (2-12 filters, <=6 levels). distinct = distinct scenarios (all non-trivial: each has >=1 subscription and >=1 query)"
                % (4 if thorough else 3, nrand),
        "domain_topics": len(topics), "domain_filters": len(filters),
        "trace_spec_states": tstates,
        "rejections": len(rejected),
        "exhaustive": True,
        "samples": [scns[0]["ops"], scns[len(scns) // 2]["ops"], scns[-1], {"trace_excerpt": vlib.head_events(tpath, 5)}],
    }, ["filters with '#' in a non-final position or '+'/'#' inside a level are invalid in MQTT and excluded",
        "topic/filter strings are built by the harness by joining level sequences with '/'; the empty string (single empty level) is excluded",
        "broker level: an even sample of the TLC-generated histories is replayed through two real sessions (on one node, or on two nodes with at-least-once gossip) with two publishes after every step; plus SUBSCRIBE / UNSUBSCRIBE packets carrying two or three filters (every ordered pair of seven short filters), six publishes after each; BrokerTrace requires one PUBLISH per matching active subscription and none otherwise; plus three sessions on two nodes subscribing in every order (12 scenarios); plus one run in which one of two matching subscribers stops reading for a burst of 1650 on a log pre-filled to 2450"],
        violations=v.n_new)
    run.log("validated %d scenarios, %d rejected (%d known)" % (validated, len(rejected), v.n_known))
    return rc


def replay(run, path):
    rp = json.load(open(path))
    if rp.get("kind") == "broker":
        return brokerlib.replay(run, "C01", path)
    if rp.get("kind") == "race":
        return racelib.replay(run, "C01", path)
    spath = os.path.join(run.scratch, "scenarios.ndjson")
    with open(spath, "w") as f:
        f.write(json.dumps(rp["scenario"]) + "\n")
    drv = run.gobuild("trie")
    tpath = os.path.join(run.scratch, "trie.ndjson")
    run.drive(drv, ["-scenarios", spath, "-out", tpath])
    events = vlib.load_events(tpath)
    ok, line, detail, _ = run.validate("SubIndexTrace", "SubIndexTrace.cfg", tpath)
    if ok:
        print("replay: accepted (no violation)")
        return 0
    print("replay: rejected at event %d: %s" % (line, json.dumps(events[line - 1])))
    print("VIOLATION property=C01 replay=%s" % path)
    return 1
