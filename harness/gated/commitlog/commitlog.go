package commitlog

import (
	"fmt"
	"io"
	"os"
	"path/filepath"
	"sort"
	"strconv"
	"strings"
	"sync"

	"github.com/pkg/errors"
)

var (
	ErrCorruptedLog = errors.New("corrupted commitlog")
)

type commitLog struct {
	datadir               string
	mtx                   sync.Mutex
	activeSegment         Segment
	segments              []Segment
	segmentMaxRecordCount uint64
	currentOffset         uint64
	maxSegmentCount       int
}
type CommitLog interface {
	io.Closer
	// WriteEntry appends a binary payload to the commitlog.
	WriteEntry(ts uint64, value []byte) (uint64, error)
	// Delete closes then deletes the commitlog from disk.
	Delete() error
	// Reader returns a seekable reader
	Reader() Cursor
	// Offset returns the offset of the next record the be written.
	Offset() uint64
	Datadir() string
	//LookupTimestamp returns the seekable offset of the first record writen after the provided timestamp.
	LookupTimestamp(ts uint64) uint64
	//Latest returns the timestamp of the most recent record
	Latest() uint64
	GetStatistics() Statistics
	TruncateAfter(offset uint64) error
	// TruncateBefore delete segments before the one containing the provided offset
	TruncateBefore(offset uint64) error
}

func logFiles(datadir string) []uint64 {
	matches, err := filepath.Glob(fmt.Sprintf("%s/*.log", datadir))
	if err != nil {
		return nil
	}
	out := make([]uint64, 0)
	for idx := range matches {
		offsetStr := strings.TrimSuffix(filepath.Base(matches[idx]), ".log")
		offset, err := strconv.ParseUint(offsetStr, 10, 64)
		if err == nil {
			out = append(out, offset)
		}
	}
	sort.Slice(out, func(i, j int) bool { return out[i] < out[j] })
	return out
}

// Gate is the only difference between this copy and github.com/vx-labs/commitlog v1.2.4: a hook at the point where an
// append has advanced the segment's record count and not yet the log's (see /verif/DESIGN.md, D27).
var Gate = func(point string) {}

type createOpt func(*commitLog)

func WithMaxSegmentCount(i int) createOpt {
	return func(c *commitLog) { c.maxSegmentCount = i }
}

func Open(datadir string, segmentMaxRecordCount uint64, opts ...createOpt) (CommitLog, error) {
	files := logFiles(datadir)
	if len(files) > 0 {
		return open(datadir, segmentMaxRecordCount, opts...)
	}
	err := os.MkdirAll(datadir, 0750)
	if err != nil {
		return nil, err
	}
	return create(datadir, segmentMaxRecordCount, opts...)
}

func newLog(datadir string, segmentMaxRecordCount uint64, opts ...createOpt) *commitLog {
	c := &commitLog{
		datadir:               datadir,
		segmentMaxRecordCount: segmentMaxRecordCount,
	}
	for _, opt := range opts {
		opt(c)
	}
	return c
}

func create(datadir string, segmentMaxRecordCount uint64, opts ...createOpt) (CommitLog, error) {
	l := newLog(datadir, segmentMaxRecordCount, opts...)
	return l, l.appendSegment()
}

func open(datadir string, segmentMaxRecordCount uint64, opts ...createOpt) (CommitLog, error) {
	l := newLog(datadir, segmentMaxRecordCount, opts...)
	files := logFiles(datadir)
	var offset uint64 = files[0]
	for {
		segment, err := openSegment(datadir, offset, segmentMaxRecordCount, true)
		if err != nil {
			if err == ErrSegmentDoesNotExist {
				break
			}
			return nil, ErrCorruptedLog
		}
		l.segments = append(l.segments, segment)
		if l.activeSegment != nil {
			if l.activeSegment.BaseOffset() < segment.BaseOffset() {
				l.activeSegment = segment
			}
		} else {
			l.activeSegment = segment
		}
		offset += uint64(segmentMaxRecordCount)
	}
	l.trimSegments()
	l.currentOffset = l.activeSegment.CurrentOffset() + l.activeSegment.BaseOffset()
	return l, nil
}

func (e *commitLog) Offset() uint64 {
	e.mtx.Lock()
	defer e.mtx.Unlock()
	return e.currentOffset
}
func (e *commitLog) Latest() uint64 {
	e.mtx.Lock()
	defer e.mtx.Unlock()

	return e.activeSegment.Latest()
}
func (e *commitLog) Close() error {
	e.mtx.Lock()
	defer e.mtx.Unlock()
	for _, segment := range e.segments {
		segment.Close()
	}
	return nil
}
func (e *commitLog) Datadir() string {
	return e.datadir
}
func (e *commitLog) Delete() error {
	e.mtx.Lock()
	defer e.mtx.Unlock()
	for _, segment := range e.segments {
		err := segment.Delete()
		if err != nil {
			return err
		}
	}
	return nil
}
func (e *commitLog) appendSegment() error {
	var nextOffset uint64
	if len(e.segments) > 0 {
		nextOffset = e.activeSegment.CurrentOffset() + e.activeSegment.BaseOffset()
	}
	segment, err := createSegment(e.datadir, nextOffset, e.segmentMaxRecordCount)
	if err != nil {
		return errors.Wrap(err, fmt.Sprintf("failed to create new segment with offset %d", nextOffset))
	}
	e.segments = append(e.segments, segment)
	e.activeSegment = segment
	return nil
}

// trimSegments will delete segments acording to e.maxSegmentCount
func (e *commitLog) trimSegments() {
	if e.maxSegmentCount <= 0 || len(e.segments) < e.maxSegmentCount {
		return
	}
	count := len(e.segments)
	for _, segment := range e.segments[0 : count-e.maxSegmentCount] {
		segment.Delete()
	}
	e.segments = e.segments[count-e.maxSegmentCount:]
}

// LookupOffsetSegment returns the segment containing the provided offset
func (e *commitLog) lookupOffset(offset uint64) Segment {
	e.mtx.Lock()
	defer e.mtx.Unlock()
	idx := e.lookupOffsetSegment(offset)
	return e.segments[idx]
}

// LookupOffsetSegment returns the segment index of the segment containing the provided offset
func (e *commitLog) LookupOffsetSegment(offset uint64) int {
	e.mtx.Lock()
	defer e.mtx.Unlock()
	return e.lookupOffsetSegment(offset)
}

func (e *commitLog) lookupOffsetSegment(offset uint64) int {
	count := len(e.segments)
	idx := sort.Search(count, func(i int) bool {
		return e.segments[i].BaseOffset() > offset
	})
	if idx == 0 {
		return 0
	}
	return idx - 1
}
func (e *commitLog) LookupTimestamp(ts uint64) uint64 {
	e.mtx.Lock()
	defer e.mtx.Unlock()
	count := len(e.segments)
	idx := sort.Search(count, func(i int) bool {
		seg := e.segments[i]
		return seg.Earliest() > ts
	})
	if idx <= 0 {
		return e.segments[0].BaseOffset()
	}
	seg := e.segments[idx-1]
	return seg.LookupTimestamp(ts)
}

func (e *commitLog) Reader() Cursor {
	e.mtx.Lock()
	defer e.mtx.Unlock()

	return &cursor{
		log:            e,
		currentSegment: e.segments[0],
		pos:            0,
	}
}

func (e *commitLog) TruncateBefore(offset uint64) error {
	e.mtx.Lock()
	defer e.mtx.Unlock()

	idx := e.lookupOffsetSegment(offset)
	if idx == 0 {
		return nil
	}
	for _, segment := range e.segments[:idx] {
		err := segment.Delete()
		if err != nil {
			return errors.Wrap(err, "failed to truncate log")
		}
	}
	e.segments = e.segments[idx:]
	return nil
}

// Truncate the log *after* the given offset. You must ensure no one is reading the log before truncating it.
func (e *commitLog) TruncateAfter(offset uint64) error {
	e.mtx.Lock()
	defer e.mtx.Unlock()

	segmentIdx := e.lookupOffsetSegment(offset)

	var segment Segment
	var err error
	if segmentIdx == len(e.segments)-1 {
		segment = e.activeSegment
	} else {
		segment = e.segments[segmentIdx]
	}
	err = segment.TruncateAfter(offset)
	if err != nil {
		panic(err)
	}
	e.activeSegment = segment
	for i := segmentIdx + 1; i < len(e.segments); i++ {
		segment = e.segments[i]
		err = segment.Delete()
		if err != nil {
			panic(err)
		}
	}
	e.segments = e.segments[:segmentIdx+1]
	return nil
}
func (e *commitLog) WriteEntry(ts uint64, value []byte) (uint64, error) {
	e.mtx.Lock()
	defer e.mtx.Unlock()
	if segmentEntryCount := e.activeSegment.CurrentOffset(); segmentEntryCount >= e.segmentMaxRecordCount {
		err := e.appendSegment()
		if err != nil {
			return 0, errors.Wrap(err, "failed to extend log")
		}
		e.trimSegments()
	}
	_, err := e.activeSegment.WriteEntry(ts, value)
	Gate("append.between-counters") // verification copy only: a scheduler gate between the two counters
	e.currentOffset++
	return e.currentOffset - 1, err
}
