#!/usr/bin/env python3
# development aid (see DESIGN.md 0.7): applies each kept mutant of /var/tmp/mut to /repo, runs the checks of the file it is in, undoes it. ONE runner at a time; nothing else may use /repo meanwhile.
"""Runs the checks of the properties anchored in a mutant's file against the mutant (applied to /repo, undone afterwards)."""
import json, os, subprocess, sys, time
OUT = "/var/tmp/mut"
idx = json.load(open(OUT + "/index.json"))
names = sys.argv[1:] or [m["name"] for m in idx]
COST = {"C15": 8, "C16": 17, "C06": 23, "C09": 16, "C10": 21, "C12": 15, "C07": 19, "C08": 23, "C17": 21, "C13": 45, "C11": 24, "C03": 29, "C01": 34,
        "C14": 26, "C19": 55, "C20": 41, "C05": 42, "C02": 50, "C04": 52, "C18": 56}
res_path = OUT + "/results.json"
res = json.load(open(res_path)) if os.path.exists(res_path) else {}
for m in idx:
    if m["name"] not in names or m["name"] in res:
        continue
    patch = "%s/%s.diff" % (OUT, m["name"])
    if subprocess.run(["git", "-C", "/repo", "apply", patch]).returncode != 0:
        res[m["name"]] = {"error": "does not apply"}
        continue
    caught, tried = None, []
    try:
        FC = {"wasp/conn.go": ["C12", "C11", "C13", "C18"], "wasp/distributed/sessions.go": ["C12", "C09", "C10", "C08"],
              "wasp/distributed/state.go": ["C09", "C10", "C08"], "wasp/distributed/subscriptions.go": ["C09", "C10", "C01", "C08"],
              "wasp/distributed/topics.go": ["C09", "C07", "C10", "C08"], "wasp/expiration/bucket.go": ["C04", "C20"], "wasp/expiration/pqueue.go": ["C04", "C20"],
              "wasp/idpool.go": ["C06", "C03"], "wasp/nodes.go": ["C11", "C13"], "wasp/packets.go": ["C12", "C07", "C02", "C13"],
              "wasp/publish.go": ["C14", "C05", "C01"], "wasp/sessions/session.go": ["C17", "C11", "C13"], "wasp/state.go": ["C11", "C03"],
              "wasp/writer.go": ["C06", "C03", "C01", "C02"]}
        for p in FC.get(m["file"], sorted(m["props"], key=lambda x: COST.get(x, 60))[:3]):
            t = time.time()
            r = subprocess.run(["bin/check", p], cwd="/verif", capture_output=True, text=True, env=dict(os.environ, VERIF_NO_MINIMISE="1"))
            sig = [l.strip() for l in r.stdout.splitlines() if "signature:" in l][:2]
            tried.append({"check": p, "exit": r.returncode, "s": int(time.time() - t), "sig": sig})
            if r.returncode == 1:
                caught = p
                break
    finally:
        subprocess.run("git -C /repo checkout -- . ; git -C /repo clean -fdq", shell=True)
    res[m["name"]] = {"caught": caught, "tried": tried, "file": m["file"], "line": m["line"], "op": m["op"], "orig": m["orig"], "new": m["new"]}
    json.dump(res, open(res_path, "w"), indent=1)
    print(m["name"], m["file"], m["line"], m["op"], "->", caught, [(t["check"], t["exit"]) for t in tried], flush=True)
