------------------------------- MODULE MsgLog -------------------------------
(* The per-node message log, its consumer ("publish_distributor"), crash/restart,    *)
(* truncation and the writer queue (wasp/messages/store.go, wasp/publish.go,         *)
(* wasp/writer.go): C15, and the TruncSafe half of C02.                              *)
(*                                                                                    *)
(* One action per step of the code:                                                  *)
(*   AppendMsg      store.Append                                                     *)
(*   Poll           the stream consumer fetches a batch of up to Batch records       *)
(*   CbStart(o)     Consume's callback is entered for offset o = hand o to the       *)
(*                  writer queue (blocks while the queue is full)                    *)
(*   CbRet          the callback returned                                            *)
(*   Persist        the offset is written to the mmap'd state file                   *)
(*   MaybeTruncate  whole segments more than Margin behind are dropped, every Period *)
(*   WriterTake     the writer reads the entry back from the log                     *)
(*   Crash/Restart  SIGKILL at any point; the disk state survives; resume from the   *)
(*                  stored offset (inclusive)                                        *)
EXTENDS Integers, FiniteSets, Sequences, TLC
CONSTANTS Seg, Margin, Thresh, Period, Batch, QCap, MaxLen, MaxRuns
VARIABLES len,       \* number of entries ever appended (offsets 0..len-1)
          base,      \* first offset still on disk
          persisted, \* the state file
          run,       \* incarnation number
          up,        \* consumer process running
          cursor,    \* next offset the stream will fetch
          batch,     \* offsets fetched, not yet handed over
          phase,     \* "idle" | "cb" | "ret" | "per"
          cur,       \* offset being processed
          wq,        \* writer queue (offsets)
          handed,    \* history: [run -> seq of offsets handed to the scheduler]
          lost       \* history: offsets the writer could not read back any more
vars == <<len, base, persisted, run, up, cursor, batch, phase, cur, wq, handed, lost>>
SegBase(o) == (o \div Seg) * Seg
TruncTo(b, o) == IF o > Thresh /\ o % Period = 0 /\ o - Margin > 0 /\ SegBase(o - Margin) > b THEN SegBase(o - Margin) ELSE b
Init == /\ len = 0 /\ base = 0 /\ persisted = 0 /\ run = 1 /\ up = TRUE /\ cursor = 0
        /\ batch = <<>> /\ phase = "idle" /\ cur = 0 /\ wq = <<>> /\ handed = [r \in 1..MaxRuns |-> <<>>] /\ lost = {}
AppendMsg == /\ len < MaxLen /\ len' = len + 1
             /\ UNCHANGED <<base, persisted, run, up, cursor, batch, phase, cur, wq, handed, lost>>
Poll == /\ up /\ phase = "idle" /\ batch = <<>> /\ cursor < len
        /\ LET n == IF len - cursor > Batch THEN Batch ELSE len - cursor IN
           /\ batch' = [i \in 1..n |-> cursor + i - 1] /\ cursor' = cursor + n
        /\ UNCHANGED <<len, base, persisted, run, up, phase, cur, wq, handed, lost>>
CbStart == /\ up /\ phase = "idle" /\ batch # <<>> /\ Len(wq) < QCap
           /\ cur' = Head(batch) /\ batch' = Tail(batch) /\ phase' = "cb"
           /\ wq' = Append(wq, Head(batch))
           /\ handed' = [handed EXCEPT ![run] = Append(@, Head(batch))]
           /\ UNCHANGED <<len, base, persisted, run, up, cursor, lost>>
CbRet == /\ up /\ phase = "cb" /\ phase' = "ret"
         /\ UNCHANGED <<len, base, persisted, run, up, cursor, batch, cur, wq, handed, lost>>
Persist == /\ up /\ phase = "ret" /\ persisted' = cur /\ phase' = "per"
           /\ UNCHANGED <<len, base, run, up, cursor, batch, cur, wq, handed, lost>>
MaybeTruncate == /\ up /\ phase = "per" /\ base' = TruncTo(base, cur) /\ phase' = "idle"
                 /\ UNCHANGED <<len, persisted, run, up, cursor, batch, cur, wq, handed, lost>>
WriterTake == /\ wq # <<>> /\ wq' = Tail(wq)
              /\ lost' = IF Head(wq) < base THEN lost \cup {Head(wq)} ELSE lost
              /\ UNCHANGED <<len, base, persisted, run, up, cursor, batch, phase, cur, handed>>
Crash == /\ up /\ run < MaxRuns /\ up' = FALSE /\ batch' = <<>> /\ phase' = "idle" /\ wq' = <<>>
         /\ UNCHANGED <<len, base, persisted, run, cursor, cur, handed, lost>>
Restart == /\ ~up /\ up' = TRUE /\ run' = run + 1 /\ cursor' = persisted
           /\ base' = TruncTo(base, persisted)
           /\ UNCHANGED <<len, persisted, batch, phase, cur, wq, handed, lost>>
Next == AppendMsg \/ Poll \/ CbStart \/ CbRet \/ Persist \/ MaybeTruncate \/ WriterTake \/ Crash \/ Restart
=============================================================================
