CONSTANTS Conn = {"h1", "h2"} Witness = "w" MaxServed = 2
SPECIFICATION Spec
CONSTRAINT Bound
INVARIANTS BrokerAlive OnlyOffenderEnds WitnessServable
CHECK_DEADLOCK FALSE
