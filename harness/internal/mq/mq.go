// Package mq is the harness' own minimal MQTT 3.1.1 codec: it encodes what a client sends
// and decodes what a broker writes. It is deliberately independent of the broker's codec
// (the dependency's client-side CONNECT encoder loses the will and clean-session flags).
package mq

import (
	"encoding/binary"
	"errors"
	"fmt"
)

const (
	CONNECT     = 1
	CONNACK     = 2
	PUBLISH     = 3
	PUBACK      = 4
	PUBREC      = 5
	PUBREL      = 6
	PUBCOMP     = 7
	SUBSCRIBE   = 8
	SUBACK      = 9
	UNSUBSCRIBE = 10
	UNSUBACK    = 11
	PINGREQ     = 12
	PINGRESP    = 13
	DISCONNECT  = 14
)

var Names = map[int]string{1: "CONNECT", 2: "CONNACK", 3: "PUBLISH", 4: "PUBACK", 5: "PUBREC", 6: "PUBREL", 7: "PUBCOMP",
	8: "SUBSCRIBE", 9: "SUBACK", 10: "UNSUBSCRIBE", 11: "UNSUBACK", 12: "PINGREQ", 13: "PINGRESP", 14: "DISCONNECT"}

// Packet is a decoded control packet (only the fields of its type are meaningful).
type Packet struct {
	Type    int
	Dup     bool
	QoS     int
	Retain  bool
	ID      int
	Topic   string
	Payload []byte
	Code    int   // CONNACK return code
	QoSes   []int // SUBACK
	Raw     []byte
}

func (p Packet) Name() string {
	if n, ok := Names[p.Type]; ok {
		return n
	}
	return fmt.Sprintf("TYPE%d", p.Type)
}

func lp(b []byte) []byte {
	out := make([]byte, 2+len(b))
	binary.BigEndian.PutUint16(out, uint16(len(b)))
	copy(out[2:], b)
	return out
}

func RemLen(n int) []byte {
	var out []byte
	for {
		d := byte(n % 128)
		n /= 128
		if n > 0 {
			d |= 0x80
		}
		out = append(out, d)
		if n == 0 {
			return out
		}
	}
}

func frame(first byte, body []byte) []byte {
	out := []byte{first}
	out = append(out, RemLen(len(body))...)
	return append(out, body...)
}

type Will struct {
	Topic   string
	Payload []byte
	QoS     int
	Retain  bool
}

func Connect(clientID, user, pass string, keepalive int, clean bool, will *Will) []byte {
	body := lp([]byte("MQTT"))
	body = append(body, 4)
	var flags byte
	if clean {
		flags |= 0x02
	}
	if will != nil {
		flags |= 0x04 | byte(will.QoS&3)<<3
		if will.Retain {
			flags |= 0x20
		}
	}
	if pass != "" {
		flags |= 0x40
	}
	if user != "" {
		flags |= 0x80
	}
	body = append(body, flags, byte(keepalive>>8), byte(keepalive))
	body = append(body, lp([]byte(clientID))...)
	if will != nil {
		body = append(body, lp([]byte(will.Topic))...)
		body = append(body, lp(will.Payload)...)
	}
	if user != "" {
		body = append(body, lp([]byte(user))...)
	}
	if pass != "" {
		body = append(body, lp([]byte(pass))...)
	}
	return frame(CONNECT<<4, body)
}

func Publish(topic string, payload []byte, qos int, retain, dup bool, id int) []byte {
	first := byte(PUBLISH<<4) | byte(qos&3)<<1
	if retain {
		first |= 1
	}
	if dup {
		first |= 8
	}
	body := lp([]byte(topic))
	if qos > 0 {
		body = append(body, byte(id>>8), byte(id))
	}
	body = append(body, payload...)
	return frame(first, body)
}

func idOnly(t int, flags byte, id int) []byte {
	return frame(byte(t<<4)|flags, []byte{byte(id >> 8), byte(id)})
}
func PubAck(id int) []byte  { return idOnly(PUBACK, 0, id) }
func PubRec(id int) []byte  { return idOnly(PUBREC, 0, id) }
func PubRel(id int) []byte  { return idOnly(PUBREL, 2, id) }
func PubComp(id int) []byte { return idOnly(PUBCOMP, 0, id) }
func PingReq() []byte       { return []byte{PINGREQ << 4, 0} }
func Disconnect() []byte    { return []byte{DISCONNECT << 4, 0} }

func Subscribe(id int, filters []string, qos []int) []byte {
	body := []byte{byte(id >> 8), byte(id)}
	for i, f := range filters {
		body = append(body, lp([]byte(f))...)
		body = append(body, byte(qos[i]))
	}
	return frame(SUBSCRIBE<<4|2, body)
}
func Unsubscribe(id int, filters []string) []byte {
	body := []byte{byte(id >> 8), byte(id)}
	for _, f := range filters {
		body = append(body, lp([]byte(f))...)
	}
	return frame(UNSUBSCRIBE<<4|2, body)
}

var ErrIncomplete = errors.New("incomplete packet")

// Split returns the length of the first complete packet in buf, or ErrIncomplete.
func Split(buf []byte) (int, error) {
	if len(buf) < 2 {
		return 0, ErrIncomplete
	}
	n, mult, i := 0, 1, 1
	for {
		if i >= len(buf) {
			return 0, ErrIncomplete
		}
		d := buf[i]
		n += int(d&0x7f) * mult
		mult *= 128
		i++
		if d&0x80 == 0 {
			break
		}
		if i > 4 {
			return 0, errors.New("malformed remaining length")
		}
	}
	if len(buf) < i+n {
		return 0, ErrIncomplete
	}
	return i + n, nil
}

// Decode decodes one complete packet (as delimited by Split).
func Decode(b []byte) (Packet, error) {
	p := Packet{Type: int(b[0] >> 4), Raw: b}
	i := 1
	for b[i]&0x80 != 0 {
		i++
	}
	body := b[i+1:]
	id := func() error {
		if len(body) < 2 {
			return errors.New("short packet")
		}
		p.ID = int(binary.BigEndian.Uint16(body))
		return nil
	}
	switch p.Type {
	case CONNACK:
		if len(body) < 2 {
			return p, errors.New("short CONNACK")
		}
		p.Code = int(body[1])
	case PUBLISH:
		p.Dup = b[0]&8 != 0
		p.QoS = int(b[0]>>1) & 3
		p.Retain = b[0]&1 != 0
		if len(body) < 2 {
			return p, errors.New("short PUBLISH")
		}
		tl := int(binary.BigEndian.Uint16(body))
		if len(body) < 2+tl {
			return p, errors.New("short PUBLISH topic")
		}
		p.Topic = string(body[2 : 2+tl])
		rest := body[2+tl:]
		if p.QoS > 0 {
			if len(rest) < 2 {
				return p, errors.New("short PUBLISH id")
			}
			p.ID = int(binary.BigEndian.Uint16(rest))
			rest = rest[2:]
		}
		p.Payload = rest
	case PUBACK, PUBREC, PUBREL, PUBCOMP, UNSUBACK:
		if err := id(); err != nil {
			return p, err
		}
	case SUBACK:
		if err := id(); err != nil {
			return p, err
		}
		for _, q := range body[2:] {
			p.QoSes = append(p.QoSes, int(q))
		}
	case PINGRESP:
	default:
		return p, fmt.Errorf("unexpected packet type %d from broker", p.Type)
	}
	return p, nil
}
