#!/usr/bin/env python3
"""Regenerates /verif/MANIFEST.json from the table below (single source of truth)."""
import json, os, subprocess
V = os.path.dirname(os.path.dirname(os.path.abspath(__file__)))
props = [json.loads(l) for l in open(os.path.join(V, "properties.jsonl"))]

CHECKS = {
 "C06": dict(
   technique="TLA+ spec IdPool model-checked with TLC; TLC-generated call sequences replayed on the real allocator; recorded calls validated against the spec by TLC (trace validation)",
   text="Exhaustive within bounds: TLC enumerates every call sequence (get/put incl. out-of-range and repeated releases) of depth 5-8 over ranges of 1-4 identifiers; each is executed on the real allocator and every call/result pair must be a step of IdPool.tla; seeded random histories extend this to ranges of 1-6 ids and to the production range. The writer-level half (ids on the wire = outstanding set, no leak after completion/session end) is validated by the C03 driver against Delivery.tla. Every allocator call has 3 s to return (a call that never returns is a rejection); at the writer, recipients that vanish while a publish for them is handled must not keep an identifier (scheduler gates, RaceTrace).",
   note="Trusts TLC, the Json community module and the verif-tagged constructor wasp.VerifNewMIDPool (returns newMIDPool unchanged). Allocation policy (which free id) is deliberately unconstrained.",
   design="5 C06, 4.2"),
 "C04": dict(
   technique="TLA+ spec AckQueue model-checked with TLC; TLC-generated call sequences replayed on the real ack.Queue; every return value and callback validated against the spec by TLC (trace validation)",
   text="Exhaustive within bounds: TLC enumerates call sequences over Insert/Ack/Expire (coinciding and same-second deadlines, every ack packet type, duplicate and refused registrations, sweeps before/between/after; exhaustive to depth 3-4, simulated to depth 7-9), each closed by a far-future sweep; the real queue's return values and callbacks must be a behaviour of AckQueue.tla (ExactlyOnce, frame conditions, must/may sweep window). Below the queue, the bare expiry structure (expiration.NewList) is driven on its own: TimeoutList.tla transcribes buckets/heap as coded and is model-checked against the bag of (value, deadline) pairs it refines, with three transcribed defects as negative controls; TLC-generated Insert/Delete/Expire sequences over same-second, sub-second and rounding-boundary deadlines are replayed on the real structure and every sweep report validated (TimeoutListTrace). Concurrent level: histories recorded from goroutines on the real queue - random ones and focused ones (wrong-type acknowledgement bursts or the right acknowledgement racing a sweep on a due entry) - must be linearizable against AckQueue (Lin.tla).",
   note="Trusts TLC and the Json module. Sweep latitude: must fire at now >= deadline+1s, must not at now <= deadline-1s. Callbacks attributed by a tag in the closure. Concurrent use is C20.",
   design="5 C04, 4.3"),
 "C01": dict(
   technique="TLA+ specs Topics/SubIndex model-checked with TLC; TLC-generated domains and subscribe/unsubscribe histories executed on the real trie and replicated subscription state; answers validated by TLC against Matches (trace validation)",
   text="Exhaustive within bounds at index level: every valid filter x every topic of <=3 (quick) / <=4 (thorough) levels over {a,b,''} plus wildcards, on subscriptions.Tree.Walk and SubscriptionsState.ByPattern; all ordered filter pairs at 2 levels; all TLC-generated subscribe/unsubscribe/re-subscribe histories of depth 3-4 over prefix-related filters; seeded random filter sets beyond. Every answer must equal {active subscriptions whose filter Matches the topic}, each once. Broker level: histories on one node and on two nodes with at-least-once gossip; SUBSCRIBE / UNSUBSCRIBE packets carrying several filters; overlapping operations (a SUBSCRIBE / UNSUBSCRIBE / PUBLISH parked at a scheduler gate inside its handler while others complete) judged by RaceTrace.tla. Round 6: one of two matching subscribers stops reading for a burst of 1650 on a log pre-filled to 2450 (the consumer is carried over a truncation point).",
   note="Trusts TLC, the Json module; strings are built by joining level sequences (ground truth). Invalid filters excluded.",
   design="5 C01, 4.1"),
 "C19": dict(
   technique="TLA+ spec TopicStore model-checked with TLC; TLC-generated operation sequences executed on both real tries; lookups/Count/Iterate after every step validated against the map by TLC (trace validation)",
   text="Exhaustive within bounds: every sequence of 4 (quick) / 5 (thorough) operations - write (insert or replace), remove, dump, load-last-dump over 5 keys - plus simulated sequences of depth 8-10, on topics.Store and subscriptions.Tree, with prefix-related, empty-level and deep key sets; after every operation all exact-key lookups, Count and Iterate (as a multiset) must equal the map TopicStore.tla; no operation may panic. The retained store as the broker uses it behind the replicated state: histories pushed whole into a fresh replica. Round 6: concurrent histories on both stores with dump-and-load snapshots under the race detector, judged by Lin.tla (a snapshot equals the map at one moment between call and return).",
   note="Trusts TLC and the Json module. Return values of Insert/Remove are not constrained (not part of C19).",
   design="5 C19, 4.1"),
 "C07": dict(
   technique="TLA+ specs Retained/Topics model-checked with TLC; TLC-generated retained-publish histories and the exhaustive filter domain executed on the real TopicsState (origin and replica); every Get validated by TLC against Replay (trace validation)",
   text="Exhaustive within bounds at store level: every history of 3 (quick) / 4 (thorough) retained publishes (set, replace, clear) over 5 prefix-related topics probed with 12 filters after each step on the origin and on a replica fed by the origin's broadcasts; every topic of the <=3-level domain x every filter; full and half-cleared stores x every filter; seeded random histories. Every answer must be exactly the most recent non-empty payload of every matching topic, once, flagged retained. Unacknowledged retained replays retransmitted at sweeps (flag kept); overlapping operations: a SUBSCRIBE parked before its registration / before its retained lookup while a retained publish completes, and the reverse (RaceTrace.tla: the latest retained payload reaches every complete subscription).",
   note="Trusts TLC and the Json module; in-order complete gossip delivery to the replica (faults are C08-C10).",
   design="5 C07, 4.9"),
 "C08": dict(
   technique="TLA+ spec Crdt model-checked with TLC (Convergence, Lww); TLC-generated write histories on skewed clocks executed on real replicas with every delivery order x batching x duplication; every replica listing validated by TLC against LWW over the updates it has seen (trace validation)",
   text="Exhaustive within bounds: all histories of 3 (thorough 4) local writes on 2-3 nodes with clock skews 0/+2/-2 per map (sessions, subscriptions, retained), plus simulated histories with interleaved deliveries; the messages of each history are delivered to fresh real replicas in every permutation x every composition into batches, plus duplicated re-delivery; every probe must list per key the value of the greatest-timestamp update seen. Round 6: every other retained history uses topic names that differ only in empty levels ('a/', 'a', 'a//').",
   note="Trusts TLC, the Json module and the verif-tagged clock hook. Assumes distinct updates carry distinct timestamps and session ids are never re-created.",
   design="5 C08, 4.7"),
 "C09": dict(
   technique="TLA+ spec Crdt model-checked with TLC (BroadcastComplete); TLC-generated mutator sequences incl. bulk deletes executed on a real node; drained broadcasts decoded and validated by TLC against the entries touched, origin and receiver listings against LWW (trace validation)",
   text="Exhaustive within bounds: every sequence of 3 (thorough 4) mutators (add, delete, DeletePeer, DeleteSession) over 3 keys on one origin, per map, plus simulated two-origin histories; after each mutator the queued broadcast must carry exactly the entries touched, the origin must list what those entries imply, and a fresh receiver of all broadcasts must list the same. A share of the histories runs with the audit sink unreachable (real gRPC recorder on a dead connection), and with a transmit queue that keeps its broadcasts as in production (a later broadcast may invalidate an earlier one): what the queue still holds at the end must bring a fresh receiver to the origin's listing.",
   note="Trusts TLC, the Json module, the clock hook; broadcasts are drained from the real TransmitLimitedQueue.",
   design="5 C09, 4.7"),
 "C10": dict(
   technique="TLA+ spec Crdt model-checked with TLC (PushDominates); TLC-generated pairs of node histories with lost gossip and pushes executed via real LocalState/MergeRemoteState; listings after each push validated by TLC against LWW (trace validation)",
   text="Exhaustive within bounds: every pair of node histories with 3 (thorough 4) local operations and all gossip lost, plus simulated histories with partial gossip and TLC-chosen pushes; each followed by a push into a fresh node, a one-way push and an exchange in both directions; every node's listing after every step must be LWW over its own updates plus the sender's. After the exchange both nodes are pushed into further fresh nodes (snapshots served repeatedly, entries learnt only by merging). Every other scenario's pushes run with join = true.",
   note="Trusts TLC, the Json module, the clock hook.",
   design="5 C10, 4.7"),
 "C16": dict(
   technique="TLA+ spec Auth model-checked with TLC; TLC-generated credential-table shapes materialised as files for the real auth.FileHandler/StaticHandler; every load and Authenticate outcome validated by TLC against Admit/MountOf (trace validation)",
   text="Exhaustive within bounds: every table shape over 5 (thorough 6) user names (absent / 2-field / 3-field line) x line orders (sorted, reversed, seeded shuffles); per table every present user with right / empty / wrong / another user's password, every absent user, empty and unknown user names; three-field lines with an empty mount column; the static store with all 16 combinations. Load must succeed and each outcome must equal Admit with the entry's mount point (default when none). Candidates include near misses of every configured pair: user/password boundary moved, swapped, joined, padded, case-changed, truncated, doubled. Reconnection storms (8-12 goroutines on one shared handler); CONNECT packets larger than 64 KiB at broker level. Round 6: CONNECTs that arrive in two TCP segments (cut after 1-5 bytes) while 21 established sessions ping, against a credentials file.",
   note="Trusts TLC and the Json module. User names with ':' '\"' newline and duplicate user names are not generated.",
   design="5 C16, 4.9"),
 "C15": dict(
   technique="TLA+ spec MsgLog model-checked with TLC over every crash point (scaled constants, negative control with Margin 0); TLC-generated crash schedules executed by child processes on the real commit log that SIGKILL themselves inside verif hooks; every recorded consumer step validated by TLC against the spec with the code's constants (trace validation)",
   text="Fault enumeration bound to a model: MC explores every crash point x log length x batch position with scaled constants; on the real store child processes are killed inside the callback, after callback return, after the offset write and after the truncation check at offsets around 0, batch edges, segment edges (499-501), truncation edges (1999-2001, 2999-3001) and random ones, over 2-3 crash/restart rounds with appends before and during consumption; the trace must be a behaviour of MsgLog's consumer (state-file value at each start, in-order gap-free hand-over from the stored offset, intact payloads) and end with every entry handed over. Backlogs of 5600 entries; a third of the schedules consumed through wasp.SchedulePublishes with a recording writer.",
   note="Trusts TLC, the Json module, the three verif hooks in Consume. SIGKILL, not power loss. 'Replays at most the message being processed' read as inclusive resume from the stored offset (DESIGN.md 4.6).",
   design="5 C15, 4.6"),
 "C02": dict(
   technique="TLA+ specs MsgLog/Inbound model-checked with TLC (TruncSafe with Margin-0 negative control); TLC-generated publish/subscribe scripts and seeded long runs executed on a real in-process node; the recorded trace validated by TLC against the broker specification BrokerTrace incl. the quiescence obligation (trace validation)",
   text="Every TLC-generated script of 3 (thorough 4) steps in which clients both publish (QoS 0/1/2, delayed PUBREL) and subscribe on a fresh node (first message ever stored included); seeded long runs of bursts with payloads up to 70 KB crossing the 500-entry segment roll and the truncations at 2000/3000 with a gated subscriber that makes the writer lag by a full queue at the truncation points, on empty and pre-filled logs. At quiescence every acknowledged publish must have reached every session that stayed connected with a matching subscription, topic and payload (length+CRC) intact. A subscriber that stops reading for a whole burst carrying the log past a truncation point, then resumes, must still receive everything (writer lagging far behind the log consumer). PUBRELs that arrive after their handshake has timed out; two-node QoS 1 scripts in which the log or the link of one destination fails and recovers. Round 6: a second stalled-subscriber run (burst of 1650 on a log pre-filled to 2450).",
   note="Trusts TLC, the Json module, the harness seams and completion hooks. Long runs are seeded samples; the scripts are exhaustive within their bounds.",
   design="5 C02, 4.6, 4.5"),
 "C03": dict(
   technique="TLA+ spec Delivery (on IdPool and AckQueue) model-checked with TLC; TLC-generated client response scripts executed on a real node with driver-issued sweeps; every packet written, in-flight callback and pool content validated by TLC against BrokerTrace (trace validation)",
   text="Exhaustive within bounds: every response script of depth 4 (thorough 5) for a QoS 1 and a QoS 2 message on one subscriber - acknowledge, wrong packet type, foreign identifier, silence across deadlines, close, DISCONNECT - plus simulated scripts for two subscribers and three messages; retransmissions must carry the same identifier and happen only after an expiry, PUBREL follows PUBREC, nothing is sent after completion or session end, and the identifiers held by the pool at quiescence equal those of the live exchanges. Sweeps shortly before the deadlines; messages that fan out to two subscribers of the same QoS; recipients that vanish while a publish for them is handled (scheduler gates); a delivery the script is entitled to and does not find is a rejection.",
   note="Trusts TLC, the Json module, the harness seams; sweeps use synthetic 'now' (real time + 4.5 s / 9 s), no real 3 s waits.",
   design="5 C03, 4.4"),
 "C05": dict(
   technique="TLA+ spec Inbound model-checked with TLC; TLC-generated publisher scripts with injected log/RPC failures executed on two real nodes; every append and acknowledgement validated by TLC against BrokerTrace (trace validation)",
   text="Exhaustive within bounds: every publisher script of depth 3 (thorough 4) over PUBLISH QoS 0/1/2 x ids {1,2}, PUBREL (matching, repeated, unknown), handshake time-out, with failures of either node's log append or of the RPC towards it toggled between steps, plus simulated longer scripts; PUBACK/PUBCOMP only after the message is in the log of every hosting node, never after a failed write, QoS 2 forwarded exactly once per handshake and never on PUBLISH alone. Plus every QoS 2 script of depth 5 (thorough 6) on a two-destination message with >= 2 PUBRELs and an injected failure, and QoS 1 scripts that re-use one identifier (DUP set on the re-uses) across injected failures.",
   note="Trusts TLC, the Json module, the harness seams (message-log and transport wrappers inject the failures).",
   design="5 C05, 4.5"),
 "C14": dict(
   technique="TLA+ spec Inbound model-checked with TLC; TLC-generated distribution scripts executed on three real nodes joined by the harness network; every log append, delivery and acknowledgement validated by TLC against BrokerTrace (trace validation)",
   text="Publishers on two nodes, topics hosted on {1,2}, {2}, {1}, {} of three nodes, QoS 0/1/2, every combination of failing destinations (log / RPC) toggled between steps: each message must be appended exactly once to the log of each hosting node known to the publisher and to no other, each node writes it only to its local matching sessions, a failing destination does not prevent the others (checked at quiescence) and withholds the acknowledgement. One topic is hosted on two nodes that are both remote for the publisher (failure isolation between remote destinations). Dynamic subscriptions (made after each topic was published once, one removed before a last publish); fail-and-recover scripts; publishes with an empty payload owe an append to every reachable destination.",
   note="Trusts TLC, the Json module, the harness seams; gossip is fully delivered between steps.",
   design="5 C14, 4.5"),
 "C11": dict(
   technique="TLA+ spec Session model-checked with TLC (EndsOnlyForCause, NoEarlyExpiry, ClosedAtEnd, NoTraceLeft); TLC-generated session scripts executed on real nodes over virtual-time connections; the recorded trace validated by TLC against BrokerTrace incl. probes of every node at quiescence (trace validation)",
   text="TLC-generated scripts (depth 5, thorough 6) of two connections on two nodes over connect / subscribe / ping / idle 0.5, 0.95, 2.1, 10 keep-alives at any position (incl. right after CONNECT, up to 3 per script) / DISCONNECT / connection loss / malformed packet / second CONNECT / publish, plus scripts with a hosting-node failure: no time-out within the keep-alive of the last client packet, no unregistration without cause, connection closed at the end, nothing written to an ended session, every node lists exactly the live sessions and their subscriptions at quiescence. Plus long-lived well-behaved clients (random walks of 14 steps with a PINGREQ after every idle period of 0.5 / 0.95 keep-alives; the virtual connection has net.Conn's write-deadline semantics) and one scenario in six with the audit sink unreachable. Takeover-then-node-failure schedules; SUBSCRIBEs whose sender hangs up while the handler is parked half-way (scheduler gates).",
   note="Trusts TLC, the Json module, the harness (virtual clock for connection deadlines, completion hooks). Scripts are an even sample of the exhaustive set. The peer-failure purge is a real 3.3 s wait.",
   design="5 C11, 4.8"),
 "C12": dict(
   technique="TLA+ spec Session model-checked with TLC (OneResolved, SuccessorSpared); TLC-generated takeover scripts (pairs, chains) and hand-written in-flight-tombstone schedules executed on real nodes; validated by TLC against BrokerTrace (trace validation)",
   text="Pairs on one node, pairs on two nodes and chains of three connections sharing a client id, with the old session's PINGREQ / SUBSCRIBE / DISCONNECT / close interleaved in every order (depth 5-6, sampled evenly), plus schedules where the accepting node still lists a stale record: the new session is established, the displaced one gets no PINGRESP and ends, every node lists exactly the live non-displaced sessions and their subscriptions. Plus 'late news' schedules: the takeover happens while gossip is held back and the displaced session ends (or not) on its node before that node hears of it; released in order or newest first; the successor must keep being served and listed. Three-node schedules (the third node hears of the takeover first; every node's resolution of each client id is probed); will-carrying sessions; overlapping CONNECTs of one client id with one set-up parked at each of its steps (RaceTrace.tla: one accepted session is left and is what the id resolves to).",
   note="Trusts TLC, the Json module, the harness gossip network. C12's proviso: records of earlier sessions are merged at the accepting node; clocks not skewed.",
   design="5 C12, 4.8"),
 "C13": dict(
   technique="TLA+ spec Session model-checked with TLC (WillIffUnclean); TLC-generated scripts for will-carrying sessions executed on real nodes with watchers; will appends and deliveries validated by TLC against BrokerTrace (trace validation)",
   text="Will QoS 0-2, retained or not, multi-level topic, tenant A, host node 1 or 2; causes DISCONNECT / close / malformed / keep-alive expiry / node failure at every position of scripts of depth 4 (thorough 5); watchers with '#', '+', exact and non-matching filters on two nodes and in another tenant: the will is appended only after an unclean end, under the tenant-prefixed topic, and every matching watcher receives it once per matching subscription; never after DISCONNECT. Plus three-node failures: the two survivors are told in either order, with or without the first survivor's gossip delivered in between. Silent will-carrying sessions must end (a subscription-less session silent for four keep-alives is not served any more); displaced will-carrying sessions (never published twice); sessions that connect and end within one gossip interval before their node fails, with the peer hearing of it newest first / with retransmissions. Round 6: 18 interleavings in which a will-carrying client hangs up or pipelines DISCONNECT while its own CONNECT, SUBSCRIBE or teardown is parked at a scheduler gate, judged by the will rules of RaceTrace.tla.",
   note="Trusts TLC, the Json module, the harness. Displacement is not among C13's causes (will allowed, not required).",
   design="5 C13, 4.8"),
 "C17": dict(
   technique="TLA+ specs Session/Topics model-checked with TLC; TLC-generated multi-tenant scripts executed on real nodes; every delivery and every session listing validated by TLC against BrokerTrace (trace validation)",
   text="Three connections in tenants A, B, A (client ids dev, dev, dev3) on two nodes with '#', '+', '+/+' subscriptions, publishers, retained messages and wills in both tenants, topics named like the other tenant, three '#' watchers: every PUBLISH written must stem from a message of the recipient's tenant and carry exactly the publisher's topic levels; a session is displaced only by a same-tenant session of the same client id. Plus failures of a node hosting (retained) wills whose topics spell the other tenant's mount point, with '#' watchers of every tenant before and subscribers after the failure; mount points with '/' in their names. Topic names and filters with '..', '.', empty, leading and trailing levels; the same client id in both tenants with keep-alive exchanges before and after the other one connects; a QoS 2 publisher whose PUBREL follows the other tenants' publishes.",
   note="Trusts TLC, the Json module, the harness authentication seam (user 'tenant:<x>' -> mount point x). Mount-point names without '/', '+', '#'.",
   design="5 C17, 4.8"),
 "C18": dict(
   technique="TLA+ spec ConnFsm model-checked with TLC; TLC-generated packet-type sequences, each malformed input realised by structure-aware byte mutations, sent to real brokers running in child processes with a witness round trip after every stream; process deaths observed directly, traces validated by TLC against BrokerTrace (trace validation)",
   text="Every sequence of 3 inputs (thorough: + 20000 of length 4) over all 14 control packet types, MALFORMED and EOF before CONNECT, plus about 1000 byte-level mutations (truncation at every offset with EOF, first-byte values, remaining-length edge values up to 268435455 and 5-byte lengths, inner length prefixes, QoS 3, empty lists, identifier 0, seeded random bytes) each alone before and after a valid CONNECT: the broker process must survive (a panic kills the child process and is reported with the stream), only the offender's session may end, the witness pair's QoS 1 round trip must succeed after every stream, nothing may stall. Well-formed protocol violations are always-run streams (wildcard and odd topic names, retained or not; misplaced wildcards in filters; retained will on a wildcard topic); the witness also publishes retained messages and periodically a new client connects, subscribes (retained replay), pings and leaves. Reserved requested-QoS values on filters that match other clients' topics; a subscriber that stops reading (blocking writes that fail at the write deadline on the virtual clock) must not stall the others. Round 6: the broker behind its real TCP / TLS / WebSocket / WSS listeners on loopback (one process per scenario): ordinary traffic, slow readers that block the writer and then send requests, eight framings of one MQTT stream in WebSocket messages, peers that misbehave below MQTT; judged by TransportTrace.tla.",
   note="Trusts TLC, the Json module, the harness. Which bytes realise 'malformed' is outside TLA+. Quick samples 3200 of the streams (seeded).",
   design="5 C18, 8"),
 "C20": dict(
   technique="Recorded concurrent histories of the real shared objects checked for linearizability by TLC against the sequential TLA+ specifications (Lin.tla over IdPool, AckQueue, a registry map, TopicStore); whole-broker stress checked by TLC against StressTrace.tla; everything runs under the Go race detector",
   text="Sampled, not enumerated: 224 (thorough 2400) seeded concurrent histories of 4-8 goroutines on the identifier pool, the in-flight table, the local registry and both tries (linearizability decided by TLC), concurrent writers on two replicated-state nodes with gossip and full-state pushes (must list the same after a full exchange), the expiration list (every timeout fires once), and whole-broker stress runs (about 1000 connections with re-used client ids, 2600 publishes at QoS 0/1/2 in 4 s; thorough 6 x 30 s) whose post-stress obligations (acknowledged publishes reached every stable subscriber; listings, registries and identifier pool clean) are checked by TLC. A race report whose racing access lies in the repository is a violation. Focused concurrent histories on the in-flight table; broker panics under stress are violations; 'hasty client' interleavings (set-up parked where it registers the session while the client hangs up: the registry keeps no ghost). Round 6: snapshots in the concurrent store histories; packets cut into two segments while 21 other sessions ping or connect (shared per-connection state); a runtime 'concurrent map' stop in repository code is a violation.",
   note="Trusts TLC, the Json module, the Go race detector. Schedules are whatever the Go scheduler produced. The whole-broker stress uses an in-memory message log (the commitlog dependency has races of its own). Lin.tla documents three tolerated non-atomicities (two-step Insert, element-wise sweep, key-only timeout entries).",
   design="5 C20, 4.9"),
}

def main():
    hooks = subprocess.run(["git", "-C", "/repo", "log", "--format=%h %s"], capture_output=True, text=True).stdout.splitlines()
    hook_commits = [l.split()[0] for l in hooks if l.split(" ", 1)[1].startswith("verif hook")]
    m = {
     "version": 1,
     "setup_cmd": "cd /verif && bin/setup",
     "hooks": {"guard": "verif",
               "enable": "go build -tags verif (harness module /verif/harness, replace github.com/vx-labs/wasp/v4 => /repo)",
               "baseline_off_cmd": "cd /repo && GOFLAGS=-mod=mod GOPROXY=off GOSUMDB=off go test -vet=off -count=1 ./...",
               "source_commits": hook_commits, "add_only": True},
     "engines": [
       {"name": "tlc-mc", "path": "spec/MC_*.tla spec/MC_*.cfg", "serves_properties": sorted(CHECKS), "kind_free_text": "TLC exhaustive model checking of the TLA+ specification suite under small constants"},
       {"name": "tlc-gen", "path": "spec/*Gen.tla", "serves_properties": sorted(CHECKS), "kind_free_text": "TLC as scenario generator: behaviours/tables printed as JSON and replayed on the real code by Go drivers"},
       {"name": "tlc-trace", "path": "spec/*Trace.tla", "serves_properties": sorted(CHECKS), "kind_free_text": "trace validation: NDJSON traces recorded from the real code are checked step by step against the spec's actions"},
       {"name": "go-drivers", "path": "harness/", "serves_properties": sorted(CHECKS), "kind_free_text": "Go harness (replace => /repo, -tags verif) that assembles the real components behind recording seams"},
     ],
     "checks": [],
     "not_applicable": [],
     "notes": "bin/check <id> --tier quick|thorough; exit 0 held, 1 VIOLATION, 2 inconclusive. known_findings.json is read-only at run time.",
    }
    for p in props:
        pid = p["id"]
        if pid in CHECKS:
            c = CHECKS[pid]
            m["checks"].append({
              "property_id": pid,
              "quick_cmd": "bin/check %s --tier quick" % pid,
              "thorough_cmd": "bin/check %s --tier thorough" % pid,
              "evidence_file": "/verif/evidence/%s.json" % pid,
              "replay_cmd_template": "bin/check %s --replay {path}" % pid,
              "engine": "tlc-mc+tlc-gen+tlc-trace+go-drivers",
              "level_claimed": {"category": "model_checking", "text": c["text"], "design_ref": c["design"]},
              "level_note": c["note"],
              "technique": c["technique"],
            })
        else:
            m["not_applicable"].append({"property_id": pid, "reason": "check not built yet (work in progress; planned procedure in DESIGN.md section 5)"})
    json.dump(m, open(os.path.join(V, "MANIFEST.json"), "w"), indent=1)

if __name__ == "__main__":
    main()
